#!/bin/bash
# validates MANIFEST.json and every evidence file against the schemas
python3-vt - <<'PY'
import json, jsonschema, glob
m=json.load(open('/verif/MANIFEST.json'))
jsonschema.validate(m, json.load(open('/root/.vp/MANIFEST.schema.json')))
es=json.load(open('/root/.vp/EVIDENCE.schema.json'))
ok=0
for c in m['checks']:
    try:
        e=json.load(open('/verif/'+c['evidence_file']))
        jsonschema.validate(e, es)
        assert e['level']==c['level_claimed']['category'], (c['property_id'], e['level'])
        ok+=1
    except Exception as ex:
        print('EVIDENCE PROBLEM', c['property_id'], str(ex)[:200])
print('manifest valid;', ok, 'of', len(m['checks']), 'evidence files valid; not claimed:', [n['property_id'] for n in m.get('not_applicable',[])])
PY
