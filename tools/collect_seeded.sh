#!/bin/bash
# tools/collect_seeded.sh C06 2 /tmp/w2_C06 : verify and store the seeded change of a worktree under seeded/C06-<n>/
set -u
ID="$1"; N="${2:-1}"; WT="${3:-/tmp/wt_$ID}"
DST="/verif/seeded/$ID-$N"
cd "$WT" || exit 2
git diff -- ipv8 > /tmp/seed_$ID.diff
[ -s /tmp/seed_$ID.diff ] || { echo "no change in $WT"; exit 2; }
echo "== demo with change"; timeout -s KILL 300 /venv/bin/python demo.py > /tmp/seed_$ID.with 2>&1; RC_WITH=$?; tail -3 /tmp/seed_$ID.with
echo "== suite with change"; timeout -s KILL 1500 /venv/bin/python -m pytest -q -p no:cacheprovider --timeout=900 -n 8 2>&1 | tail -1 | tee /tmp/seed_$ID.suite
git stash -q -- ipv8
echo "== demo without change"; timeout -s KILL 300 /venv/bin/python demo.py > /tmp/seed_$ID.without 2>&1; RC_WITHOUT=$?; tail -3 /tmp/seed_$ID.without
git stash pop -q
echo "rc with=$RC_WITH without=$RC_WITHOUT"
if [ $RC_WITH -eq 1 ] && [ $RC_WITHOUT -eq 0 ] && grep -q " passed" /tmp/seed_$ID.suite && ! grep -q "failed" /tmp/seed_$ID.suite; then
  mkdir -p "$DST"
  cp /tmp/seed_$ID.diff "$DST/patch.diff"; cp demo.py "$DST/demo.py"; cp SEEDED.md "$DST/SEEDED.md" 2>/dev/null
  /venv/bin/python - "$ID" "$DST" <<'PY'
import json,sys
pid,dst=sys.argv[1],sys.argv[2]
md=open(dst+"/SEEDED.md").read() if __import__("os").path.exists(dst+"/SEEDED.md") else ""
json.dump({"property":pid,"origin":"independent sub-agent given only the property text and a scratch worktree",
 "needs":md[:1500],
 "ran":{"suite_with_change":open(f"/tmp/seed_{pid}.suite").read().strip(),
        "demo_with_change":open(f"/tmp/seed_{pid}.with").read().strip()[-400:],
        "demo_without_change":open(f"/tmp/seed_{pid}.without").read().strip()[-400:]}},
 open(dst+"/meta.json","w"),indent=1)
PY
  echo "STORED $DST"
  cd /; git -C /repo worktree remove --force "$WT"   # only once stored: an unconfirmed worktree is kept for a second look
else
  echo "NOT CONFIRMED - not stored"
fi
