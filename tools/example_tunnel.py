import sys, time, asyncio
sys.path.insert(0,'/repo'); sys.path.insert(0,'/verif')
import logging; logging.disable(logging.CRITICAL)
from pv import vloop, simnet, nodes
async def main(loop):
    net = simnet.SimNet(loop)
    ns = nodes.tunnel_nodes(net, 4)
    a = ns[0].overlay
    c = a.create_circuit(3)
    await c.ready
    print("ready", c.state, [h.peer.address for h in c.hops], loop.time()-vloop.EPOCH)
    a.send_data(c.hop.address, c.circuit_id, ("5.5.5.5", 5555), ("0.0.0.0",0), b"d1:ad2:id20:"+b"x"*20+b"e")
    await asyncio.sleep(1)
    for t in loop.transports: print(t.local_addr, t.sent, t.closed)
    # reply
    t4=[t for t in loop.transports if t.sent][0]
    got=[]
    a.on_raw_data = lambda circuit, origin, data: got.append((circuit.circuit_id, origin, data))
    t4.inject(b"d1:rd2:id20:"+b"y"*20+b"e", ("5.5.5.5", 5555))
    await asyncio.sleep(1)
    print(got)
    await asyncio.sleep(100)
    print({n.idx:(len(n.overlay.circuits),len(n.overlay.relay_from_to),len(n.overlay.exit_sockets)) for n in ns}, [t.closed for t in loop.transports])
    for n in ns: await n.unload()
    print(len(net.log), loop.escaped[:2], net.escaped[:2])
r0=time.perf_counter()
vloop.run(main); print(time.perf_counter()-r0)
