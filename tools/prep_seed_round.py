#!/usr/bin/env python3
"""
tools/prep_seed_round.py <round> [ids...]: create a scratch worktree /tmp/w<round>_<ID> of /repo per property with a
PROPERTY.txt holding the property text and one-line descriptions of the changes earlier rounds already seeded
(seeded/summaries.json), and copy tools/seed_brief.md to /tmp/seed_brief<round>.md.
"""
import json
import shutil
import subprocess
import sys

rnd = sys.argv[1]
ids = sys.argv[2:] or [f"C{i:02d}" for i in range(1, 21)]
props = {d["id"]: d for d in map(json.loads, open("/verif/properties.jsonl"))}
summ = json.load(open("/verif/seeded/summaries.json"))
shutil.copy("/verif/tools/seed_brief.md", f"/tmp/seed_brief{rnd}.md")
ordinal = {1: "SECOND", 2: "THIRD", 3: "FOURTH", 4: "FIFTH", 5: "SIXTH"}
for pid in ids:
    wt = f"/tmp/w{rnd}_{pid}"
    subprocess.run(["git", "-C", "/repo", "worktree", "add", "--detach", wt, "HEAD", "-q"], check=True)
    d = props[pid]
    a = d["anchors"]
    txt = [f"Property {pid}: {d['title']}", "", "Statement: " + d["statement"], "",
           "Quantified over: " + d["quantifier"]["text"], "",
           "Why the existing tests cannot settle it: " + d["why_tests_cant"], "",
           "Code anchors: files " + ", ".join(a["files"]),
           "Mechanisms meant to make it hold: " + "; ".join(f"{m['name']} ({m['where']})" for m in a["mechanism"]), ""]
    prev = summ.get(pid, [])
    if prev:
        txt.append(f"{len(prev)} colleagues have ALREADY seeded these changes for the same property:")
        txt += [f"  {i + 1}. {s}" for i, s in enumerate(prev)]
        txt.append(f"Yours must be a {ordinal.get(len(prev), 'FURTHER')}, different defect: go through the sentences of the "
                   "statement one by one, find a clause, a\nquantified dimension (see \"Quantified over\") or a mechanism "
                   "that no colleague touched, and break that. Do not vary\ntheir ideas.")
    open(wt + "/PROPERTY.txt", "w").write("\n".join(txt) + "\n")
    print(wt)
