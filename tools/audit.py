#!/venv/bin/python
"""
Sensitivity audit: apply one realistic breaking change at a time to a scratch copy of the repository, confirm (with
--suite) that the repository's own test suite still passes, and confirm that the named property check reports a
violation (exit 1).

    tools/audit.py                 all mutants, checks only
    tools/audit.py m04a m04b       selected mutants
    tools/audit.py --suite m04a    also run the 602-test baseline on the mutant
    tools/audit.py --prop C04      all mutants of one property

Mutants are string substitutions (file, old, new) in mutants/table.py; the seeded changes produced by independent
sub-agents live in seeded/<id>/patch.diff and are run with --seeded.
"""
from __future__ import annotations

import glob
import json
import os
import shutil
import subprocess
import sys
import time

ROOT = os.path.dirname(os.path.dirname(os.path.abspath(__file__)))
sys.path.insert(0, ROOT)
SCRATCH = "/tmp/pv_audit"


def copy_repo(dst: str) -> None:
    if os.path.exists(dst):
        shutil.rmtree(dst)
    subprocess.run(["rsync", "-a", "--exclude", ".git", "--exclude", "__pycache__", "/repo/", dst + "/"], check=True)


def run_check(repo: str, pid: str, tier: str = "quick", seed: str = "1") -> tuple[int, str]:
    env = dict(os.environ, VERIF_REPO=repo, VERIF_SEED=seed)
    p = subprocess.run([os.path.join(ROOT, "check"), pid, tier], env=env, capture_output=True, text=True, timeout=3600)
    return p.returncode, p.stdout + p.stderr


def run_suite(repo: str) -> tuple[bool, str]:
    p = subprocess.run(["/venv/bin/python", "-m", "pytest", "-q", "-p", "no:cacheprovider", "--timeout=900", "-n", "8",
                        "-x"], cwd=repo, capture_output=True, text=True, timeout=3600,
                       env=dict(os.environ, PYTHONPATH=repo))
    tail = p.stdout.strip().splitlines()[-1] if p.stdout.strip() else p.stderr[-200:]
    return p.returncode == 0, tail


def main(argv: list[str]) -> int:
    from mutants.table import MUTANTS
    suite = "--suite" in argv
    seeded = "--seeded" in argv
    prop = None
    if "--prop" in argv:
        prop = argv[argv.index("--prop") + 1]
    seed = "1"
    if "--seed" in argv:
        seed = argv[argv.index("--seed") + 1]
        argv = [a for i, a in enumerate(argv) if i not in (argv.index("--seed"), argv.index("--seed") + 1)]
    names = [a for a in argv if not a.startswith("--") and a != prop]
    jobs = []
    if seeded:
        for d in sorted(glob.glob(os.path.join(ROOT, "seeded", "*"))):
            if not os.path.isdir(d):
                continue
            meta = json.load(open(os.path.join(d, "meta.json")))
            if (not names or os.path.basename(d) in names) and (prop is None or meta["property"] == prop):
                jobs.append((os.path.basename(d), meta["property"], ("diff", os.path.join(d, "patch.diff"))))
    else:
        for name, entry in MUTANTS.items():
            pids, subs = entry[0], entry[1:]
            if len(subs) == 3 and isinstance(subs[0], str):
                subs = [tuple(subs)]
            else:
                subs = list(subs[0])
            if (not names or name in names) and (prop is None or prop in pids):
                jobs.append((name, pids, ("sub", subs)))
    results = []
    for name, pids, how in jobs:
        dst = f"{SCRATCH}_{name}"
        copy_repo(dst)
        try:
            if how[0] == "sub":
                stale = False
                for file, old, new in how[1]:
                    path = os.path.join(dst, file)
                    src = open(path).read()
                    if src.count(old) != 1:
                        print(f"{name}: pattern occurs {src.count(old)} times in {file} - mutant table is stale")
                        stale = True
                        break
                    open(path, "w").write(src.replace(old, new))
                if stale:
                    results.append((name, "STALE"))
                    continue
            else:
                r = subprocess.run(["patch", "-p1", "-s", "-d", dst, "-i", how[1]], capture_output=True, text=True)
                if r.returncode != 0:
                    print(f"{name}: patch does not apply: {r.stdout}{r.stderr}")
                    results.append((name, "STALE"))
                    continue
            line = f"{name}:"
            if suite:
                ok, tail = run_suite(dst)
                line += f" suite {'passes' if ok else 'FAILS'} ({tail});"
            for pid in ([pids] if isinstance(pids, str) else pids):
                t0 = time.time()
                rc, out = run_check(dst, pid, seed=seed)
                viol = [l for l in out.splitlines() if l.startswith("  ") and "@" in l][:2]
                verdict = {1: "DETECTED", 0: "MISSED"}.get(rc, f"HARNESS-ERROR rc={rc}")
                if verdict == "MISSED" and how[0] == "diff":
                    meta = json.load(open(os.path.join(os.path.dirname(how[1]), "meta.json")))
                    if meta.get("neutralised"):
                        verdict = "NEUTRALISED"     # no longer a violation on the repaired tree (see meta.json)
                line += f" {pid} {verdict} in {time.time() - t0:.0f}s {viol if rc == 1 else out[-300:] if rc not in (0, 1) else ''}"
                results.append((name, pid, verdict))
            print(line, flush=True)
        finally:
            shutil.rmtree(dst, ignore_errors=True)
    missed = [r for r in results if r[-1] not in ("DETECTED", "NEUTRALISED")]
    print(f"{len(results)} runs, {len(missed)} not detected: {missed}")
    return 0 if not missed else 1


if __name__ == "__main__":
    sys.exit(main(sys.argv[1:]))
