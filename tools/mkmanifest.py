#!/venv/bin/python
"""
Regenerates MANIFEST.json from the table below (run after adding or changing a check).
"""
import glob, json, os, sys
ROOT = os.path.dirname(os.path.dirname(os.path.abspath(__file__)))
sys.path.insert(0, ROOT)

CHECKS = {
    "C12": dict(
        category="exploration", design_ref="DESIGN.md 2/C12",
        technique="model-based PBT: bounded-exhaustive op words + Hypothesis histories vs three-valued reference model",
        text="Every operation word to depth 4 (quick) / 6 (thorough) over a 14-letter alphabet under two cache "
             "configurations, plus Hypothesis-drawn histories up to 200 operations, are run on the real Network and "
             "on a reference model; all lookups are compared after explicit observe steps and at the end. Absence of "
             "violations is established only for the explored histories.",
        note="Trusted: the reference model (written from the statement and docstrings; three-valued where the "
             "statement is silent). Single-threaded; Peer objects modified only through the Network API."),
}

CHECKS["C04"] = dict(
    category="exploration", design_ref="DESIGN.md 2/C04",
    technique="PBT with fault injection on a simulated network; oracle = reference key copies + reference cell encoding",
    text="Hypothesis-drawn cases (hop count, cell kind, direction, payload length/shape, destination, traffic history of the "
         "circuit in both directions, in-flight fault) run "
         "the real circuit protocol between real TunnelCommunity nodes on a simulated network under a virtual clock; "
         "delivery, per-link layering (checked with key objects the harness derives itself from traced secrets) and "
         "non-delivery of altered/foreign cells are judged per case; a positional sweep flips every n-th byte of a data "
         "cell on every link. Exploration only: no claim beyond the generated cases.",
    note="Trusted: AEAD/DH/KDF primitives of ipv8_rust_tunnels; the reference encoding of cells (DESIGN Appendix B). "
         "e2e (hidden-service) circuits are not covered.")

CHECKS["C05"] = dict(
    category="exploration", design_ref="DESIGN.md 2/C05",
    technique="stateful PBT (Hypothesis-drawn operation histories) with adversarial message injection on a simulated network",
    text="Operation histories (open / send / reply / advance + forged cells, create-for-live-id, destroy from four kinds of "
         "signer) are interpreted on 4-6 real TunnelCommunity nodes whose circuits share relays; per-circuit delivery logs "
         "and an identity-level digest of all routing tables are compared around every step. Exploration only.",
    note="Trusted: signature and AEAD primitives. Adversarial steps are judged with virtual time frozen. Honest 32-bit "
         "circuit-id collisions are not engineered.")

CHECKS["C06"] = dict(
    category="exploration", design_ref="DESIGN.md 2/C06",
    technique="bounded-exhaustive differential test of the policy predicate against a reference policy + PBT of the emission path on a simulated exit",
    text="is_allowed of a real exit socket is compared with a reference policy over an exhaustive grid of classifier-relevant "
         "header bytes x lengths x flag sets; Hypothesis-drawn cases push allowed and forbidden payloads in both directions "
         "through a real circuit to a real TunnelExitSocket on a recording transport (IPv4/IPv6/domain/null destinations, "
         "first data cell from the previous hop or from elsewhere). Exhaustive only over the stated grid.",
    note="Trusted: the reference policy transcribed from the classifier docstrings; name resolution table of the virtual loop.")
CHECKS["C19"] = dict(
    category="fault_enumeration", design_ref="DESIGN.md 2/C19",
    technique="crash-point enumeration: child process SIGKILLs itself at every database event / SQL statement; fresh reopen judged against an fsync'd ack log",
    text="Scripted workloads: every crash point (before/after each execute / executescript / commit / connect, and before "
         "every SQL statement incl. those inside the schema script) is exercised exhaustively; Hypothesis-drawn workloads "
         "with drawn crash points add variety. After the kill a fresh process-independent reopen checks openability, "
         "presence and byte-equality of acknowledged records, absence of partial records and pseudonym verification.",
    note="SIGKILL models process death, not power loss (OS page cache assumed durable; synchronous level invisible). "
         "Kills inside a single SQLite statement are left to SQLite's own atomicity.")

CHECKS["C08"] = dict(
    category="exploration", design_ref="DESIGN.md 2/C08",
    technique="PBT with in-flight manipulation of handshake answers; oracle = reference ntor-style key derivation from x, wire Y and the selected peer's static key",
    text="Circuits of 1-3 hops are built by the real protocol while a grid of single manipulations (every manipulation kind x "
         "every hop position) and Hypothesis-drawn combinations alter, substitute, swap, replay, duplicate, delay or drop the "
         "plaintext created answers; every accepted hop must carry keys expanded from x.Y||x.B of the selected peer, "
         "established hops must never change, the hop list must equal the originator's own selections.",
    note="Trusted: X25519/HMAC/HKDF primitives. Removing only the identifier comparison or only the auth-tag check does not "
         "violate the statement (keys stay bound to the selected peer via x.B) and is therefore not flagged.")

CHECKS["C09"] = dict(
    category="fault_enumeration", design_ref="DESIGN.md 2/C09",
    technique="fault enumeration over message loss/duplication/delay on a simulated network under a virtual clock; oracle = no orphan routing entries or open sockets at a settings-derived deadline",
    text="For every scenario (hops x phase x tearing-down party, incl. the originator vanishing) every single drop / duplicate "
         "/ 30 s delay among the first 24 flights is enumerated (thorough: all scenarios, all fault pairs on 2-hop scenarios), "
         "Hypothesis adds larger fault sets; virtual time then runs to the deadline and every node's tables and outside "
         "sockets are compared with what is reachable from working circuits; an unrelated busy circuit must survive. "
         "Join limit and relay_early budget are checked with drawn limits.",
    note="'Eventually' is judged at one generous deadline computed from the settings. Nodes do not crash; only datagrams "
         "are lost, duplicated or delayed.")

CHECKS["C07"] = dict(
    category="exploration", design_ref="DESIGN.md 2/C07",
    technique="bounded-exhaustive enumeration of event words + Hypothesis-drawn words against a per-packet fate model (carried / queued / dropped)",
    text="All event words to depth 5 (quick) / 6 (thorough) over a 12-letter alphabet and Hypothesis-drawn words to length 60 "
         "are run on a real TunnelEndpoint + TunnelCommunity over a recording raw endpoint; every anonymous packet's fate and "
         "every raw datagram are judged. Exhaustive only over the stated word space.",
    note="The circuit table is driven directly with real Circuit/Hop objects and keys (protocol side: C04/C05/C09). AEAD hiding "
         "is checked by a 16-byte window rule, not proven.")

CHECKS["C02"] = dict(
    category="exploration", design_ref="DESIGN.md 2/C02, Appendix B",
    technique="PBT round-trip + differential against an independent reference encoder written from the documented wire table",
    text="For each of 60 discovered Serializable classes, all 44 registered packers, the cell header and harness fixtures, "
         "Hypothesis values plus index-enumerated sweeps (all 256 values of every bits byte, every start offset 0..32) are "
         "round-tripped (field equality, exact offsets, re-encode, non-zero offsets, nested and listed) and compared byte "
         "for byte with pv.refcodec / specs/wire_layouts.json, which share no code with the implementation.",
    note="Trusted: the hand transcription of the documented layouts (specs/wire_layouts.json, DESIGN Appendix B). Element "
         "byte order of arrayH-q/d is left to the round-trip clauses. A class without a value strategy is a harness error.")
CHECKS["C13"] = dict(
    category="exploration", design_ref="DESIGN.md 2/C13",
    technique="exhaustive configuration product x Hypothesis-drawn delivery schedules on a NAT-enforcing simulated network",
    text="All 380 configurations (19 NAT type/placement combinations x old/new request style x introduced peer style x 1-5 "
         "candidates) run the real introduction / puncture protocol between real Community instances behind simulated cone "
         "NATs; Hypothesis orders every delivery and early walks; puncture-request/puncture bookkeeping, reachability under "
         "the happens-before rule, mutual verification and same-NAT LAN connection are judged from simulator ground truth.",
    note="Symmetric NATs, packet loss and the same-host branch (address_is_lan) are outside the check. NAT model: "
         "endpoint-independent mapping, full/address/port filtering, no hair-pinning.")
CHECKS["C14"] = dict(
    category="exploration", design_ref="DESIGN.md 2/C14",
    technique="model-based PBT: long generated histories on the real RoutingTable vs brute-force oracles; exhaustive Trie-vs-dict comparison",
    text="Seed-expanded histories (up to 300 steps quick / 2000 thorough; uniform, clustered-on-own-prefix, duplicate and "
         "address-update identifiers; all node statuses via a manual clock) are checked after every step for partition, "
         "ownership, capacity, own-path splitting, exact k-closest (brute force) and in-bucket refresh ids; every set/del "
         "word on short binary keys compares Trie with a dict model.",
    note="Trusted: brute-force oracles. Locking is not exercised. The eviction policy itself is not asserted.")
CHECKS["C15"] = dict(
    category="exploration", design_ref="DESIGN.md 2/C15",
    technique="stateful PBT on simulated DHT nodes with an explicit token model; differential Storage-vs-dict machine",
    text="Generated operation lists (find / store with seven token classes and many value classes / store-peer / rotation / "
         "clock advance / maintenance / lookups) run against a real DHT(Discovery)Community target with properly signed "
         "requesters; token validity is derived only from tokens seen in the target's own find-responses. Read side: real "
         "find_values against servers incl. a malicious one; reported (data, key) pairs are re-verified independently. "
         "A bounded-exhaustive + Hypothesis Storage machine is compared with a dict model.",
    note="Trusted: signature primitive. Behaviour on undecodable values (lookup raises) is an availability matter outside the statement and only counted.")
CHECKS["C16"] = dict(
    category="exploration", design_ref="DESIGN.md 2/C16",
    technique="bounded-exhaustive arrival orders (all tree shapes <= 6 tokens x all permutations) with Hypothesis-drawn noise vs a reference closure",
    text="Every rooted tree shape with up to 6 tokens in every arrival permutation (37 205 orders; thorough adds 7-token "
         "shapes) is offered to a public TokenTree view, clean and mixed with forged / foreign / dangling / duplicate tokens "
         "and right or wrong content; after every arrival the element set is compared with a closure computed from "
         "construction facts only; random larger trees, serialisation round trips and arbitrary byte strings are added.",
    note="Exhaustive only over the stated shapes/orders. The oracle never verifies a signature itself: validity is known by construction.")
CHECKS["C17"] = dict(
    category="exploration", design_ref="DESIGN.md 2/C17",
    technique="stateful PBT with honest and dishonest peers on simulated IdentityCommunity nodes vs an explicit consent model",
    text="Three bounded-exhaustive families (two live registrations for different subjects; chain positions opened to "
         "different peers; all attest / replay / crafted-disclosure kinds) and Hypothesis histories up to 45 operations are "
         "delivered datagram by datagram; every emitted AttestPayload, every Attestations row and every token handed out "
         "is judged against a consent / permission model fed only by user actions and delivered bytes.",
    note="Trusted: signature primitive. Age of exactly 300 s, overwritten registrations and attestations embedded in disclosures are accepted either way.")
CHECKS["C20"] = dict(
    category="exploration", design_ref="DESIGN.md 2/C20",
    technique="differential PBT over generated payload definitions: interpreted vs vp_compile vs dataclass vs a reference model",
    text="All 44 shipped VariablePayload definitions (against an interpreted twin) and Hypothesis-generated definitions "
         "(1-12 fields over every registered format, bits anywhere, nesting and lists to depth 2, defaults of every type, "
         "invertible fix_pack/fix_unpack hooks, old-style base) are materialised in three forms and compared on constructor "
         "behaviour, to_pack_list, bytes and decoded attributes.",
    note="Per-field packers are shared by all forms (their correctness is C02). Invalid constructor calls are not compared.")

CHECKS["C10"] = dict(
    category="exploration", design_ref="DESIGN.md 2/C10",
    technique="bounded-exhaustive operation words + Hypothesis histories on the real RequestCache under a virtual clock vs an explicit model of outstanding requests",
    text="Operation words (add with drawn on_timeout behaviour / add_random with forced collisions / pop / get / has / "
         "retrieve_cache handler / passthrough / register_future / clear / shutdown / advance to a deadline -eps,+0,+eps / "
         "same-iteration races) are enumerated to depth 6 (quick) / 7-8 (thorough) over three 8-letter alphabets and drawn by "
         "Hypothesis to length 40; every on_timeout call and every API result is judged against a model; ties between equal "
         "deadlines are accepted in either order.",
    note="Single-threaded (the RLock is not contended). on_timeout callbacks that raise and nested passthroughs are not generated.")

CHECKS["C11"] = dict(
    category="exploration", design_ref="DESIGN.md 2/C11",
    technique="schedule enumeration: unload injected after every delivery of scripted protocol runs on a simulated network + virtual clock; stateful PBT of TaskManager",
    text="For 8 scripted runs (plain Community, the same on a TunnelEndpoint, Discovery, DHTDiscovery, Tunnel, Pex, Identity, "
         "Attestation; production defaults) unload() is requested after delivery k (quick ~60 k per run, thorough every k) "
         "and at drawn virtual times; after it returns, late datagrams of every message id are delivered and two hours of "
         "virtual time pass while sends, handler entries, pending tasks, outside sockets and listener registration are "
         "observed through shims. Hypothesis op lists exercise register / replace / cancel / shutdown of TaskManager.",
    note="One recorded finding (second replace_task during the clean-up of the first) is listed in known_findings.json. "
         "Bootstrappers and the hidden-service overlay are not exercised.")

CHECKS["C01"] = dict(
    category="exploration", design_ref="DESIGN.md 2/C01, Appendix A",
    technique="mutation-based fuzzing of captured valid traffic with a reference signature verdict and handler-entry instrumentation",
    text="Every datagram an observed node receives in 8 scripted honest overlay runs is mutated exhaustively by position (bit "
         "flip per byte - all 8 bits in thorough -, every truncation, extensions, key / signature substitutions incl. a fully "
         "valid attacker-signed variant, splices, prefix and message-id swaps, key-length edits, sibling replay) and delivered "
         "through the production receive path; entry into lazy_wrapper-decorated inner handlers (observed through closure "
         "shims), the peer identity handed over, replies and verified-peer gains are judged against a verdict computed from "
         "the bytes alone; the declared decorators are compared with the documented table of authenticated ids.",
    note="Trusted: the Rust signature primitive and specs/auth_table.json. The hidden-service overlay is covered through its "
         "TunnelCommunity base only. Exceptions escaping the receive path are judged by C03.")

CHECKS["C03"] = dict(
    category="exploration", design_ref="DESIGN.md 2/C03",
    technique="exhaustive short inputs + truncation enumeration of captured traffic + Hypothesis structured corruption + Atheris coverage-guided fuzzing (thorough), with a listener/handler-trace oracle; decode level differential against pv.refcodec.walk",
    text="A node multiplexing all shipped overlays (on a simulated endpoint and on real, unopened UDPEndpoint / UDPv6Endpoint "
         "objects) receives every byte string of length <= 2, every prefix with every message id and short bodies, every "
         "truncation of captured traffic and Hypothesis-corrupted datagrams up to 1500 bytes; the receive entry must return, "
         "the catch-all and all prefix listeners must be called once, handlers run only under their own prefix. Thorough "
         "adds 16 Atheris workers (empty and seeded corpora) on the same entry with the oracle inside the target. The decode "
         "level (pv.c03_decode) checks every Serializable class and packer on truncated / length-corrupted buffers against "
         "the independent structural walker, and Network.load_snapshot on arbitrary bytes.",
    note="Exceptions inside asynchronous handlers after on_packet returned are outside the statement. libFuzzer campaigns are "
         "only approximately reproducible from the seed; saved crash inputs are replayed through the same oracle.")
CHECKS["C18"] = dict(
    category="exploration", design_ref="DESIGN.md 2/C18",
    technique="differential PBT against an independent reference field implementation (incl. randomized polynomial identity testing at a 255-bit prime) + protocol-level PBT with fresh keys",
    text="Every FP2Value operator is compared with pv.fp2ref on exhaustive small-coefficient grids for all primes = 2 mod 3 "
         "below 200, on random operands at 32-128-bit primes and on uniformly random operands at a 255-bit prime (each sample "
         "tests a polynomial identity of degree <= 4, error <= 4/p); exact attestations with seeded fresh keys are checked "
         "for profile reconstruction, certainty of the true value and zero score of rivals, range proofs for honest "
         "acceptance and rejection of dishonest provers / altered responses, and serialisation round trips.",
    note="'For all moduli, symbolically' is decided by randomized identity testing with a stated error bound, not symbolically. "
         "Soundness of the cryptographic schemes beyond the listed algebra is trusted; 32/64-bit keys are used for speed.")

PENDING = {}

def main():
    props = [json.loads(l) for l in open(os.path.join(ROOT, "properties.jsonl"))]
    checks, na = [], []
    for p in props:
        pid = p["id"]
        if pid in CHECKS and glob.glob(os.path.join(ROOT, "pv", "props", pid.lower() + "_*.py")):
            c = CHECKS[pid]
            checks.append({
                "property_id": pid,
                "quick_cmd": f"./check {pid} quick",
                "thorough_cmd": f"./check {pid} thorough",
                "evidence_file": f"evidence/{pid}.json",
                "replay_cmd_template": f"./check {pid} --replay {{path}}",
                "engine": "pv",
                "level_claimed": {"category": c["category"], "text": c["text"], "design_ref": c["design_ref"]},
                "level_note": c["note"],
                "technique": c["technique"],
            })
        else:
            na.append({"property_id": pid, "reason": PENDING.get(pid, "check not built yet in this session (planned: see DESIGN.md section 2); nothing is claimed for it")})
    m = {
        "version": 1,
        "setup_cmd": "./setup.sh",
        "hooks": {
            "guard": "TRIBLER_PY_IPV8_VERIF",
            "enable": "no source hooks: all observation is done by the harness at run time (closure-cell shims, wrapped decode_map entries, recording transports); ./check exports TRIBLER_PY_IPV8_VERIF=1 for uniformity",
            "baseline_off_cmd": "cd /repo && /venv/bin/python -m pytest -ra -q -p no:cacheprovider --timeout=900 --continue-on-collection-errors",
            "source_commits": [],
            "add_only": True,
        },
        "engines": [{"name": "pv", "path": "pv/", "serves_properties": [c["property_id"] for c in checks],
                     "kind_free_text": "property-based testing framework: Hypothesis strategies with collect-then-shrink, bounded-exhaustive enumerators, fault injection on a simulated network and virtual clock, reference models; 16-way process sharding"}],
        "checks": checks,
        "not_applicable": na,
        "notes": "All checks: ./check <ID> quick|thorough, VERIF_SEED honoured, exit 2 = harness error. known_findings.json lists recorded and fixed defects.",
    }
    json.dump(m, open(os.path.join(ROOT, "MANIFEST.json"), "w"), indent=1)
    try:
        import jsonschema
        jsonschema.validate(m, json.load(open("/root/.vp/MANIFEST.schema.json")))
        print("MANIFEST valid;", len(checks), "checks,", len(na), "not claimed")
    except ImportError:
        print("MANIFEST written (jsonschema not importable here);", len(checks), "checks")

if __name__ == "__main__":
    main()
