"""
Committed pool of throw-away private keys, so that mids, hashes and set orders are the same on every run.
"""
from __future__ import annotations

import json
import os
from functools import lru_cache

from .core import ROOT


@lru_cache(maxsize=None)
def _pool() -> dict:
    with open(os.path.join(ROOT, "specs", "keypool.json")) as f:
        return json.load(f)


def private_bin(i: int, curve: str = "curve25519") -> bytes:
    keys = _pool()[curve]
    return bytes.fromhex(keys[i % len(keys)])


def key(i: int, curve: str = "curve25519"):
    """
    A fresh private-key object for pool index i (objects are never shared between cases).
    """
    from ipv8.keyvault.crypto import default_eccrypto
    return default_eccrypto.key_from_private_bin(private_bin(i, curve))


def size(curve: str = "curve25519") -> int:
    return len(_pool()[curve])
