"""
Harness-defined message classes for C02 (never part of the discovered set: they live outside ``ipv8``).

No ``from __future__ import annotations`` here on purpose: ``payload_dataclass`` resolves the annotations of a
dataclass payload with ``get_type_hints`` and needs real objects.

Call ``build()`` only AFTER the ipv8 classes have been discovered: ``DataClassPayload[n]`` creates a dynamic class
that reports ``ipv8.messaging.payload_dataclass`` as its module.
"""
import dataclasses
from functools import lru_cache


@lru_cache(maxsize=None)
def build() -> dict:
    from ipv8.messaging.lazy_payload import VariablePayload, vp_compile
    from ipv8.messaging.payload_dataclass import DataClassPayload, type_from_format
    from ipv8.messaging.serialization import Serializable

    @vp_compile
    class FxInner(VariablePayload):
        """
        Small nested message used for the ``payload`` / ``payload-list`` packers.
        """

        names = ["a", "b"]
        format_list = ["H", "varlenH"]

    u32 = type_from_format("I")

    @dataclasses.dataclass
    class FxData(DataClassPayload[77]):
        """
        A dataclass payload over every documented field type (the only way the arrayH-* formats are used).
        """

        flag: bool
        num: int
        real: float
        blob: bytes
        text: str
        nums: list[int]
        flags: list[bool]
        reals: list[float]
        small: u32
        one: FxInner
        many: list[FxInner]

    # dataclass payloads that extend dataclass payloads, in both orders of first use (conversion happens at the first
    # instantiation of each class and must not leak from a parent to a child or back)
    @dataclasses.dataclass
    class FxBaseA(DataClassPayload[78]):
        num: int
        text: str

    @dataclasses.dataclass
    class FxDerivA(FxBaseA):
        blob: bytes
        flags: list[bool]

    @dataclasses.dataclass
    class FxBaseB(DataClassPayload[79]):
        flag: bool
        blob: bytes

    @dataclasses.dataclass
    class FxDerivB(FxBaseB):
        real: float
        one: FxInner

    @dataclasses.dataclass
    class FxDeriv2B(FxDerivB):
        small: u32

    @dataclasses.dataclass
    class FxPlain(DataClassPayload):
        """
        Without a message id, with defaults, nesting another dataclass payload.
        """

        num: int
        base: FxBaseA
        bases: list[FxBaseB]
        text: str = "dflt"
        nums: list[int] = dataclasses.field(default_factory=list)

    # two compiled messages with the same layout, the first with (do-nothing) per-field rules, the second without:
    # whatever the compiler keeps per layout must not leak from one message type to the other
    @vp_compile
    class FxRuled(VariablePayload):
        names = ["n", "label"]
        format_list = ["I", "varlenH"]

        def fix_pack_label(self, value: bytes) -> bytes:
            return value

        @classmethod
        def fix_unpack_label(cls, value: bytes) -> bytes:
            return value

    @vp_compile
    class FxTwin(VariablePayload):
        names = ["n", "label"]
        format_list = ["I", "varlenH"]

    def make_probe(name: str, entry: object, nargs: int) -> type:
        """
        A one-field old-style Serializable that hands its arguments to the packer ``name`` the way every
        hand-written ``to_pack_list`` does: ``(name, *args)``.
        """

        class Probe(Serializable):
            format_list = [entry]

            def __init__(self, args: list) -> None:
                self.args = list(args)

            def to_pack_list(self) -> list:
                return [(name, *self.args)]

            @classmethod
            def from_unpack_list(cls, *args: object) -> "Probe":
                # a multi-member struct format decodes to ONE tuple; hand-written messages spread it again
                if nargs > 1 and len(args) == 1 and isinstance(args[0], tuple):
                    return cls(list(args[0]))
                return cls(list(args))

        Probe.__name__ = Probe.__qualname__ = "Probe_" + name
        Probe.nargs = nargs
        return Probe

    def make_container(inner: type) -> type:
        """
        ``inner`` nested once via ``payload`` and listed via ``[inner]`` between two plain fields.
        """
        return type("Cont_" + inner.__name__, (VariablePayload,),
                    {"format_list": ["H", inner, [inner], "B"], "names": ["pre", "one", "many", "post"]})

    return {"FxInner": FxInner, "FxData": FxData, "FxBaseA": FxBaseA, "FxDerivA": FxDerivA, "FxBaseB": FxBaseB,
            "FxDerivB": FxDerivB, "FxDeriv2B": FxDeriv2B, "FxPlain": FxPlain, "FxRuled": FxRuled, "FxTwin": FxTwin, "make_probe": make_probe, "make_container": make_container}
