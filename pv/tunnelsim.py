"""
Shared helpers for the tunnel-family checks (C04, C05, C06, C08, C09, C11): a world of real TunnelCommunity nodes on
the simulator, session-key tracing with independent reference copies, and reference parsing of cells on the wire.
"""
from __future__ import annotations

import asyncio
import random
import struct
from typing import Any

from . import nodes as nodes_mod
from .simnet import Flight, SimNet, TransportAdapter
from .vloop import VirtualLoop

CELL_HDR = 29   # 22 prefix + 1 msg id (0) + 4 circuit id + 1 plaintext + 1 relay_early


class KeyTrace:
    """
    Records every shared secret that is expanded into session keys, so that the harness can build its own,
    independent key objects from the same secret.
    """

    def __init__(self) -> None:
        self.secrets: list[bytes] = []
        self.by_forward: dict[bytes, bytes] = {}
        self._undo: list[tuple[Any, str, Any]] = []

    def install(self) -> None:
        from ipv8.messaging.anonymization import crypto as crypto_mod
        orig = crypto_mod.TunnelCrypto.__dict__["generate_session_keys"]
        raw = orig.__func__ if isinstance(orig, staticmethod) else orig
        trace = self

        def traced(shared_secret: bytes) -> Any:
            keys = raw(shared_secret)
            trace.secrets.append(bytes(shared_secret))
            trace.by_forward[bytes(keys.key_forward)] = bytes(shared_secret)
            return keys
        self._undo.append((crypto_mod.TunnelCrypto, "generate_session_keys", orig))
        crypto_mod.TunnelCrypto.generate_session_keys = staticmethod(traced)

    def uninstall(self) -> None:
        for obj, name, val in self._undo:
            setattr(obj, name, val)
        self._undo.clear()

    def ref(self, keys: Any) -> Any:
        """
        A fresh key object derived by the harness from the secret behind ``keys``.
        """
        from ipv8_rust_tunnels import generate_session_keys
        secret = self.by_forward.get(bytes(keys.key_forward))
        if secret is None:
            return None
        return generate_session_keys(secret)

    def secret_of(self, keys: Any) -> bytes | None:
        return self.by_forward.get(bytes(keys.key_forward))


def parse_cell(data: bytes, prefix: bytes) -> dict | None:
    """
    Reference parser for a tunnel cell on the wire (DESIGN Appendix B). None if ``data`` is not a cell.
    """
    if len(data) < CELL_HDR or data[:22] != prefix or data[22] != 0:
        return None
    circuit_id, = struct.unpack_from(">I", data, 23)
    return {"circuit_id": circuit_id, "plaintext": data[27] != 0, "relay_early": data[28] != 0, "message": data[29:]}


def try_decrypt(keys: Any, message: bytes, direction: int) -> bytes | None:
    try:
        return keys.decrypt_str(message, direction)
    except BaseException:  # noqa: BLE001 - any failure = "does not decrypt"
        return None


class World:
    """
    n fully meshed tunnel nodes on one SimNet under a VirtualLoop.
    """

    def __init__(self, loop: VirtualLoop, n: int, flags: Any = None, auto: bool = True, hidden: bool = False,
                 tunnel_endpoint_at: tuple = (), dispatcher: str | None = None, **settings: Any) -> None:
        self.loop = loop
        self.net = SimNet(loop, auto=auto)
        self.trace = KeyTrace()
        self.trace.install()
        self.nodes = nodes_mod.tunnel_nodes(self.net, n, flags=flags, hidden=hidden,
                                            tunnel_endpoint_at=tunnel_endpoint_at, dispatcher=dispatcher, **settings)
        self.prefix = self.nodes[0].overlay.get_prefix()
        self.by_key = {nd.key.pub().key_to_bin(): nd for nd in self.nodes}
        self.by_addr = {nd.address: nd for nd in self.nodes}
        self.adapters: list[TransportAdapter] = []
        self.exit_log: list[tuple] = []       # (node idx, local port, data, destination)
        loop.on_transport = self._on_transport
        self._tindex = 0

    def _on_transport(self, transport: Any) -> None:
        # exit sockets: give each an address derived from its creation order, attach to the SimNet so that traffic
        # to simulated nodes is delivered; everything else stays in transport.sent
        self._tindex += 1
        host = "::" if transport.local_addr[0] == "::" else "0.0.0.0"
        if host == "0.0.0.0":
            addr = (f"9.9.{self._tindex // 200}.{self._tindex % 200 + 1}", transport.local_addr[1])
            self.adapters.append(TransportAdapter(self.net, transport, addr))

    def node_of_peer(self, peer: Any) -> Any:
        return self.by_key.get(peer.public_key.key_to_bin())

    async def build_circuit(self, origin: Any, hops: int, seed: int = 0, timeout: float = 30.0, **kw: Any) -> Any:
        """
        Build a circuit with the real protocol. Returns the Circuit or None.
        """
        random.seed(seed)
        circuit = origin.overlay.create_circuit(hops, **kw)
        if circuit is None:
            return None
        try:
            await asyncio.wait_for(asyncio.shield(circuit.ready), timeout)
        except asyncio.TimeoutError:
            return None
        if circuit.state != "READY":
            return None
        return circuit

    def path(self, circuit: Any) -> list[Any]:
        """
        The nodes of a circuit as the originator names them.
        """
        return [self.node_of_peer(h.peer) for h in circuit.hops]

    def routing_digest(self) -> dict:
        """
        Identity-level digest of all routing tables (C05 J2).
        """
        out = {}
        for nd in self.nodes:
            ov = nd.overlay
            out[nd.idx] = {
                "circuits": {cid: (id(c), tuple((id(h), id(h.keys), h.peer.public_key.key_to_bin()) for h in c.hops))
                             for cid, c in ov.circuits.items()},
                "relays": {cid: (id(r), id(r.hop.keys), r.circuit_id, r.direction, r.hop.peer.public_key.key_to_bin())
                           for cid, r in ov.relay_from_to.items()},
                "exits": {cid: (id(e), id(e.hop.keys), e.hop.peer.public_key.key_to_bin())
                          for cid, e in ov.exit_sockets.items()},
            }
        return out

    async def close(self) -> None:
        self.trace.uninstall()
        for nd in self.nodes:
            try:
                await nd.unload()
            except BaseException:  # noqa: BLE001
                pass


def cell_flights(net: SimNet, prefix: bytes, since: int = 0) -> list[tuple[Flight, dict]]:
    out = []
    for fl in net.log:
        if fl.seq <= since:
            continue
        c = parse_cell(fl.data, prefix)
        if c is not None:
            out.append((fl, c))
    return out


# ---- hidden services (end-to-end circuits) -------------------------------------------------------------------------

class DictDHT:
    """
    Dictionary-backed stand-in for the DHT provider interface used by HiddenTunnelCommunity.
    """

    def __init__(self, table: dict) -> None:
        self.table = table

    async def peer_lookup(self, mid: bytes, peer: Any = None) -> None:
        return None

    async def lookup(self, info_hash: bytes) -> tuple:
        return info_hash, list(self.table.get(info_hash, []))

    async def announce(self, info_hash: bytes, intro_point: Any) -> None:
        self.table.setdefault(info_hash, []).append(intro_point)


class IPv8Stub:
    """
    What HiddenTunnelCommunity needs from its IPv8 instance to start a PexCommunity.
    """

    def __init__(self, node: Any) -> None:
        self.node = node
        self.overlays: list = []
        self.strategies: list = []
        self.endpoint = node.endpoint
        self.network = node.network

    def add_strategy(self, overlay: Any, strategy: Any, target_peers: int) -> None:
        self.overlays.append(overlay)
        self.strategies.append((strategy, target_peers))

    def get_overlay(self, cls: type) -> Any:
        return next((o for o in self.overlays if isinstance(o, cls)), None)

    def unload_overlay(self, overlay: Any) -> Any:
        self.overlays = [o for o in self.overlays if o is not overlay]
        return overlay.unload()


def real_service(node: Any) -> Any:
    """
    A real ``ipv8_service.IPv8`` instance without configured overlays on the node's simulated endpoint: the service
    object an application hands to HiddenTunnelCommunity; once started it ticks the walkers registered with it.
    """
    from ipv8_service import IPv8
    inst = IPv8({"interfaces": [], "keys": [], "logger": {"level": "CRITICAL"}, "working_directory": ".",
                 "walker_interval": 0.5, "overlays": []}, endpoint_override=node.endpoint)
    inst.network = node.network
    inst.node = node
    return inst


class HiddenWorld(World):
    """
    n HiddenTunnelCommunity nodes with production default settings, a shared dictionary DHT and IPv8 stubs.
    """

    def __init__(self, loop: VirtualLoop, n: int, flags: Any = None, auto: bool = True, net: SimNet | None = None,
                 service: bool = True, **settings: Any) -> None:
        # service=False: the overlays run without an IPv8 service object (``HiddenTunnelSettings.ipv8 = None``, the
        # library default): no PexCommunity is ever started
        from ipv8.messaging.anonymization.hidden_services import HiddenTunnelCommunity
        self.loop = loop
        self.net = net if net is not None else SimNet(loop, auto=auto)
        self.trace = KeyTrace()
        self.trace.install()
        self.dht_table: dict = {}
        allf = {1, 2, 4, 8}
        self.nodes = []
        for i in range(n):
            node = nodes_mod.Node(self.net, i)
            node.flags = set(flags(i)) if flags is not None else set(allf)
            stub = IPv8Stub(node) if service != "real" else real_service(node)
            ov = node.add(HiddenTunnelCommunity, ipv8=stub if service else None, dht_provider=DictDHT(self.dht_table), **settings)
            ov.settings.peer_flags = set(node.flags)
            stub.overlays.append(ov)
            node.stub = stub
            self.nodes.append(node)
        nodes_mod.full_mesh(self.nodes, 0, lambda b: sorted(b.flags))
        self.prefix = self.nodes[0].overlay.get_prefix()
        self.by_key = {nd.key.pub().key_to_bin(): nd for nd in self.nodes}
        self.by_addr = {nd.address: nd for nd in self.nodes}
        self.adapters = []
        self.exit_log = []
        self._prev_on_transport = loop.on_transport
        loop.on_transport = self._on_transport_chain
        self._tindex = 0

    def _on_transport_chain(self, transport: Any) -> None:
        if self._prev_on_transport is not None:
            self._prev_on_transport(transport)
        self._on_transport(transport)

    async def link_e2e(self, seeder: Any, downloader: Any, info_hash: bytes, hops: int = 1, timeout: float = 60.0) -> tuple:
        """
        Run the real introduction-point / rendezvous / link flow. Returns (downloader circuit, seeder circuit) or None.
        """
        import asyncio
        got = []
        seeder.overlay.join_swarm(info_hash, hops, lambda addr: got.append(("seeder", addr)), seeding=True)
        downloader.overlay.join_swarm(info_hash, hops, lambda addr: got.append(("downloader", addr)), seeding=False)
        await asyncio.wait_for(seeder.overlay.create_introduction_point(info_hash), timeout)
        await asyncio.sleep(1.0)
        downloader.overlay.build_tunnels(hops)
        await asyncio.sleep(1.0)
        await asyncio.wait_for(downloader.overlay.do_peer_discovery(), timeout)
        for _ in range(int(timeout)):
            await asyncio.sleep(1.0)
            d = [c for c in downloader.overlay.circuits.values() if c.ctype == "RP_DOWNLOADER" and c.e2e]
            s = [c for c in seeder.overlay.circuits.values() if c.ctype == "RP_SEEDER" and c.hs_session_keys is not None]
            if d and s:
                return d[0], s[0]
        return None
