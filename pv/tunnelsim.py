"""
Shared helpers for the tunnel-family checks (C04, C05, C06, C08, C09, C11): a world of real TunnelCommunity nodes on
the simulator, session-key tracing with independent reference copies, and reference parsing of cells on the wire.
"""
from __future__ import annotations

import asyncio
import random
import struct
from typing import Any

from . import nodes as nodes_mod
from .simnet import Flight, SimNet, TransportAdapter
from .vloop import VirtualLoop

CELL_HDR = 29   # 22 prefix + 1 msg id (0) + 4 circuit id + 1 plaintext + 1 relay_early


class KeyTrace:
    """
    Records every shared secret that is expanded into session keys, so that the harness can build its own,
    independent key objects from the same secret.
    """

    def __init__(self) -> None:
        self.secrets: list[bytes] = []
        self.by_forward: dict[bytes, bytes] = {}
        self._undo: list[tuple[Any, str, Any]] = []

    def install(self) -> None:
        from ipv8.messaging.anonymization import crypto as crypto_mod
        orig = crypto_mod.TunnelCrypto.__dict__["generate_session_keys"]
        raw = orig.__func__ if isinstance(orig, staticmethod) else orig
        trace = self

        def traced(shared_secret: bytes) -> Any:
            keys = raw(shared_secret)
            trace.secrets.append(bytes(shared_secret))
            trace.by_forward[bytes(keys.key_forward)] = bytes(shared_secret)
            return keys
        self._undo.append((crypto_mod.TunnelCrypto, "generate_session_keys", orig))
        crypto_mod.TunnelCrypto.generate_session_keys = staticmethod(traced)

    def uninstall(self) -> None:
        for obj, name, val in self._undo:
            setattr(obj, name, val)
        self._undo.clear()

    def ref(self, keys: Any) -> Any:
        """
        A fresh key object derived by the harness from the secret behind ``keys``.
        """
        from ipv8_rust_tunnels import generate_session_keys
        secret = self.by_forward.get(bytes(keys.key_forward))
        if secret is None:
            return None
        return generate_session_keys(secret)

    def secret_of(self, keys: Any) -> bytes | None:
        return self.by_forward.get(bytes(keys.key_forward))


def parse_cell(data: bytes, prefix: bytes) -> dict | None:
    """
    Reference parser for a tunnel cell on the wire (DESIGN Appendix B). None if ``data`` is not a cell.
    """
    if len(data) < CELL_HDR or data[:22] != prefix or data[22] != 0:
        return None
    circuit_id, = struct.unpack_from(">I", data, 23)
    return {"circuit_id": circuit_id, "plaintext": data[27] != 0, "relay_early": data[28] != 0, "message": data[29:]}


def try_decrypt(keys: Any, message: bytes, direction: int) -> bytes | None:
    try:
        return keys.decrypt_str(message, direction)
    except BaseException:  # noqa: BLE001 - any failure = "does not decrypt"
        return None


class World:
    """
    n fully meshed tunnel nodes on one SimNet under a VirtualLoop.
    """

    def __init__(self, loop: VirtualLoop, n: int, flags: Any = None, auto: bool = True, hidden: bool = False,
                 **settings: Any) -> None:
        self.loop = loop
        self.net = SimNet(loop, auto=auto)
        self.trace = KeyTrace()
        self.trace.install()
        self.nodes = nodes_mod.tunnel_nodes(self.net, n, flags=flags, hidden=hidden, **settings)
        self.prefix = self.nodes[0].overlay.get_prefix()
        self.by_key = {nd.key.pub().key_to_bin(): nd for nd in self.nodes}
        self.by_addr = {nd.address: nd for nd in self.nodes}
        self.adapters: list[TransportAdapter] = []
        self.exit_log: list[tuple] = []       # (node idx, local port, data, destination)
        loop.on_transport = self._on_transport
        self._tindex = 0

    def _on_transport(self, transport: Any) -> None:
        # exit sockets: give each an address derived from its creation order, attach to the SimNet so that traffic
        # to simulated nodes is delivered; everything else stays in transport.sent
        self._tindex += 1
        host = "::" if transport.local_addr[0] == "::" else "0.0.0.0"
        if host == "0.0.0.0":
            addr = (f"9.9.{self._tindex // 200}.{self._tindex % 200 + 1}", transport.local_addr[1])
            self.adapters.append(TransportAdapter(self.net, transport, addr))

    def node_of_peer(self, peer: Any) -> Any:
        return self.by_key.get(peer.public_key.key_to_bin())

    async def build_circuit(self, origin: Any, hops: int, seed: int = 0, timeout: float = 30.0, **kw: Any) -> Any:
        """
        Build a circuit with the real protocol. Returns the Circuit or None.
        """
        random.seed(seed)
        circuit = origin.overlay.create_circuit(hops, **kw)
        if circuit is None:
            return None
        try:
            await asyncio.wait_for(asyncio.shield(circuit.ready), timeout)
        except asyncio.TimeoutError:
            return None
        if circuit.state != "READY":
            return None
        return circuit

    def path(self, circuit: Any) -> list[Any]:
        """
        The nodes of a circuit as the originator names them.
        """
        return [self.node_of_peer(h.peer) for h in circuit.hops]

    def routing_digest(self) -> dict:
        """
        Identity-level digest of all routing tables (C05 J2).
        """
        out = {}
        for nd in self.nodes:
            ov = nd.overlay
            out[nd.idx] = {
                "circuits": {cid: (id(c), tuple((id(h), id(h.keys), h.peer.public_key.key_to_bin()) for h in c.hops))
                             for cid, c in ov.circuits.items()},
                "relays": {cid: (id(r), id(r.hop.keys), r.circuit_id, r.direction, r.hop.peer.public_key.key_to_bin())
                           for cid, r in ov.relay_from_to.items()},
                "exits": {cid: (id(e), id(e.hop.keys), e.hop.peer.public_key.key_to_bin())
                          for cid, e in ov.exit_sockets.items()},
            }
        return out

    async def close(self) -> None:
        self.trace.uninstall()
        for nd in self.nodes:
            try:
                await nd.unload()
            except BaseException:  # noqa: BLE001
                pass


def cell_flights(net: SimNet, prefix: bytes, since: int = 0) -> list[tuple[Flight, dict]]:
    out = []
    for fl in net.log:
        if fl.seq <= since:
            continue
        c = parse_cell(fl.data, prefix)
        if c is not None:
            out.append((fl, c))
    return out
