"""
Independent reference for the py-ipv8 wire format.

Written ONLY from the documented table ("Datatypes" in doc/reference/serialization.rst: *all values are big-endian*,
widths, length-prefix units) and DESIGN.md Appendix B. It imports nothing from ``ipv8`` and does not use ``struct``
for the layout: integers go through ``int.to_bytes``, IEEE-754 values are assembled by hand, IP literals are parsed
with ``ipaddress``.

``encode(format_name, value) -> bytes``
    the bytes the documentation prescribes for one field.
``encode_fields([(format_name, value), ...]) -> bytes``
    concatenation (a message is the concatenation of its fields, no padding).
``walk(format_list, buf, start) -> end``
    structural walker: the end offset implied by the declared widths / length prefixes, ``Truncated`` when the
    declared structure does not fit into ``buf``, ``Malformed`` for an undefined discriminator (address type).
    ``format_list`` entries are packer names, a nested message (anything with a ``format_list`` attribute, or a plain
    list of more than one entry / a tuple) or a one-element list ``[nested]`` for a list of nested messages.

Value conventions (plain data):
    integers -> int; ``?`` -> bool; ``c`` -> bytes of length 1; ``f``/``d`` -> float;
    multi-member formats (``BBH``, ``4SH``, ``c20s``, ...) -> sequence of members; ``NNs`` -> bytes of exactly NN;
    ``bits`` -> sequence of 8 truth values (first = 0x80); ``ipv4``/``ip_address``/``address`` -> (host, port);
    ``raw``/``varlen*`` -> bytes (``*utf8`` -> str); ``varlenH-list`` -> list of bytes;
    ``payload`` -> encoded nested message (bytes) or a list of (format, value) pairs; ``payload-list`` -> list of
    those; ``arrayH-?``/``-q``/``-d`` -> list of bool/int/float; ``flags`` -> iterable of flag values (ints);
    ``node-list`` -> list of ((host, port), public key bytes).
"""
from __future__ import annotations

import ipaddress
import math
from typing import Any, Iterable, Sequence


class Truncated(Exception):
    """
    The declared structure needs more bytes than the buffer holds.
    """


class Malformed(Exception):
    """
    A discriminator has a value the documentation does not define.
    """


class Illegal(ValueError):
    """
    The value is outside the documented domain of the format (a harness bug if it ever surfaces).
    """


# ---- primitive members ---------------------------------------------------------------------------------

UNSIGNED = {"B": 1, "H": 2, "I": 4, "L": 4, "Q": 8}
SIGNED = {"l": 4, "q": 8}
FLOATS = {"f": 4, "d": 8}

# name -> members; every member is a primitive code or "<n>s"
STRUCTS: dict[str, list[str]] = {
    "?": ["?"], "B": ["B"], "c": ["c"], "H": ["H"], "I": ["I"], "l": ["l"], "f": ["f"], "q": ["q"], "Q": ["Q"],
    "d": ["d"],
    "BBH": ["B", "B", "H"], "BH": ["B", "H"], "HH": ["H", "H"], "LL": ["L", "L"], "QH": ["Q", "H"],
    "QL": ["Q", "L"], "QQHHBH": ["Q", "Q", "H", "H", "B", "H"], "ccB": ["c", "c", "B"],
    "4SH": ["4s", "H"], "20s": ["20s"], "32s": ["32s"], "64s": ["64s"], "74s": ["74s"], "c20s": ["c", "20s"],
}

# name -> (width of the length prefix, unit in bytes, text?)
VARLEN: dict[str, tuple[int, int, bool]] = {
    "varlenBx2": (1, 2, False),
    "varlenH": (2, 1, False),
    "doublevarlenH": (2, 1, False),
    "varlenHutf8": (2, 1, True),
    "varlenI": (4, 1, False),
    "varlenIutf8": (4, 1, True),
    "varlenHx20": (2, 20, False),
}

# name -> element width
ARRAYS: dict[str, int] = {"arrayH-?": 1, "arrayH-q": 8, "arrayH-d": 8}

ADDR_IPV4, ADDR_DOMAIN, ADDR_IPV6 = 0x01, 0x02, 0x03

OTHER = ["bits", "ipv4", "ip_address", "address", "raw", "varlenH-list", "payload", "payload-list", "flags",
         "node-list"]


def known_formats() -> list[str]:
    return sorted(list(STRUCTS) + list(VARLEN) + list(ARRAYS) + OTHER)


def member_width(m: str) -> int:
    if m in UNSIGNED:
        return UNSIGNED[m]
    if m in SIGNED:
        return SIGNED[m]
    if m in FLOATS:
        return FLOATS[m]
    if m in ("?", "c"):
        return 1
    if m.endswith("s"):
        return int(m[:-1])
    raise Illegal(f"unknown member {m}")


def fixed_width(fmt: str) -> int | None:
    """
    Width of a fixed-size format, None for variable-size ones.
    """
    if fmt in STRUCTS:
        return sum(member_width(m) for m in STRUCTS[fmt])
    if fmt == "bits":
        return 1
    if fmt == "ipv4":
        return 6
    if fmt == "flags":
        return 2
    return None


def _uint(v: Any, width: int) -> bytes:
    if isinstance(v, bool) or not isinstance(v, int) or not 0 <= v < (1 << (8 * width)):
        raise Illegal(f"{v!r} is not an unsigned {width}-byte integer")
    return v.to_bytes(width, "big")


def _sint(v: Any, width: int, order: str = "big") -> bytes:
    lim = 1 << (8 * width - 1)
    if isinstance(v, bool) or not isinstance(v, int) or not -lim <= v < lim:
        raise Illegal(f"{v!r} is not a signed {width}-byte integer")
    return (v % (1 << (8 * width))).to_bytes(width, order)


def _sign(x: float) -> int:
    return 1 if math.copysign(1.0, x) < 0 else 0


def f64_bits(x: float) -> int:
    """
    IEEE-754 binary64 pattern of a Python float, assembled by hand (NaN -> the canonical quiet NaN).
    """
    if x != x:
        return 0x7FF8000000000000
    s = _sign(x) << 63
    ax = abs(x)
    if ax == math.inf:
        return s | (0x7FF << 52)
    if ax == 0.0:
        return s
    m, e = math.frexp(ax)           # ax = m * 2**e, 0.5 <= m < 1
    exp = e - 1                     # exponent of the leading bit
    if exp >= -1022:
        mant = int(math.ldexp(m, 53)) - (1 << 52)
        return s | ((exp + 1023) << 52) | mant
    return s | int(math.ldexp(ax, 1074))


def f32_bits(x: float) -> int:
    """
    IEEE-754 binary32 pattern of a Python float after round-to-nearest-even (NaN -> canonical quiet NaN).
    Raises ``Illegal`` when a finite value rounds beyond the binary32 range (not representable in an ``f`` field).
    """
    if x != x:
        return 0x7FC00000
    s = _sign(x) << 31
    ax = abs(x)
    if ax == math.inf:
        return s | (0xFF << 23)
    if ax == 0.0:
        return s
    m, e = math.frexp(ax)
    big = int(math.ldexp(m, 53))    # ax = big * 2**(e - 53), 2**52 <= big < 2**53
    exp = e - 1
    lsb = -149 if exp < -126 else exp - 23
    shift = lsb - (e - 53)
    if shift <= 0:
        q = big << (-shift)
    else:
        q, r, half = big >> shift, big & ((1 << shift) - 1), 1 << (shift - 1)
        if r > half or (r == half and q & 1):
            q += 1
    if exp < -126:
        return s | q                # subnormal (q == 2**23 is exactly the smallest normal number)
    if q == 1 << 24:
        q >>= 1
        exp += 1
    if exp > 127:
        raise Illegal(f"{x!r} does not fit a 4-byte float")
    return s | ((exp + 127) << 23) | (q - (1 << 23))


def _member(m: str, v: Any, order: str = "big") -> bytes:
    if m in UNSIGNED:
        return _uint(v, UNSIGNED[m])
    if m in SIGNED:
        return _sint(v, SIGNED[m], order)
    if m == "?":
        if not isinstance(v, bool):
            raise Illegal(f"{v!r} is not a boolean")
        return b"\x01" if v else b"\x00"
    if m == "c":
        if not isinstance(v, (bytes, bytearray)) or len(v) != 1:
            raise Illegal(f"{v!r} is not a single byte")
        return bytes(v)
    if m == "f":
        return f32_bits(float(v)).to_bytes(4, order)
    if m == "d":
        return f64_bits(float(v)).to_bytes(8, order)
    if m.endswith("s"):
        n = int(m[:-1])
        if not isinstance(v, (bytes, bytearray)) or len(v) != n:
            raise Illegal(f"{v!r} is not a byte string of length {n}")
        return bytes(v)
    raise Illegal(f"unknown member {m}")


# ---- addresses -------------------------------------------------------------------------------------------

def ip_kind(host: str) -> str:
    """
    "ipv4" / "ipv6" for IP literals, "domain" otherwise.
    """
    try:
        ipaddress.IPv4Address(host)
        return "ipv4"
    except ValueError:
        pass
    try:
        ipaddress.IPv6Address(host)
        return "ipv6"
    except ValueError:
        return "domain"


def _ipv4(addr: Sequence) -> bytes:
    host, port = addr[0], addr[1]
    return ipaddress.IPv4Address(host).packed + _uint(port, 2)


def _address(addr: Sequence, domain_ok: bool) -> bytes:
    host, port = addr[0], addr[1]
    kind = ip_kind(host)
    if kind == "ipv4":
        return bytes([ADDR_IPV4]) + ipaddress.IPv4Address(host).packed + _uint(port, 2)
    if kind == "ipv6":
        return bytes([ADDR_IPV6]) + ipaddress.IPv6Address(host).packed + _uint(port, 2)
    if not domain_ok:
        raise Illegal(f"{host!r} is not an IP literal")
    hb = host.encode("utf-8")
    return bytes([ADDR_DOMAIN]) + _uint(len(hb), 2) + hb + _uint(port, 2)


# ---- encoder -----------------------------------------------------------------------------------------------

def encode(fmt: str, value: Any, element_order: str = "big") -> bytes:
    """
    Reference encoding of one field. ``element_order`` only concerns the elements of ``arrayH-q`` / ``arrayH-d``,
    whose byte order the documentation leaves open (DESIGN Appendix B, last note).
    """
    if fmt in STRUCTS:
        members = STRUCTS[fmt]
        if len(members) == 1:
            return _member(members[0], value)
        if len(value) != len(members):
            raise Illegal(f"{fmt} takes {len(members)} members, got {value!r}")
        return b"".join(_member(m, v) for m, v in zip(members, value))
    if fmt == "bits":
        if len(value) != 8:
            raise Illegal("bits takes 8 values")
        byte = 0
        for i, bit in enumerate(value):
            if bit:
                byte |= 0x80 >> i
        return bytes([byte])
    if fmt == "ipv4":
        return _ipv4(value)
    if fmt == "ip_address":
        return _address(value, False)
    if fmt == "address":
        return _address(value, True)
    if fmt == "raw":
        return bytes(value)
    if fmt in VARLEN:
        width, unit, text = VARLEN[fmt]
        data = value.encode("utf-8") if text else bytes(value)
        if len(data) % unit:
            raise Illegal(f"{fmt}: length {len(data)} is not a multiple of {unit}")
        return _uint(len(data) // unit, width) + data
    if fmt == "varlenH-list":
        return _uint(len(value), 1) + b"".join(encode("varlenH", v) for v in value)
    if fmt == "payload":
        inner = value if isinstance(value, (bytes, bytearray)) else encode_fields(value, element_order)
        return _uint(len(inner), 2) + bytes(inner)
    if fmt == "payload-list":
        return _uint(len(value), 1) + b"".join(encode("payload", v, element_order) for v in value)
    if fmt in ARRAYS:
        head = _uint(len(value), 2)
        if fmt == "arrayH-?":
            return head + b"".join(_member("?", v) for v in value)
        return head + b"".join(_member(fmt[-1], v, element_order) for v in value)
    if fmt == "flags":
        number = 0
        for flag in value:
            number |= flag
        return _uint(number, 2)
    if fmt == "node-list":
        return _uint(len(value), 1) + b"".join(_address(addr, False) + encode("varlenH", key) for addr, key in value)
    raise Illegal(f"no reference encoding for format {fmt!r}")


def encode_fields(pairs: Iterable[tuple[str, Any]], element_order: str = "big") -> bytes:
    return b"".join(encode(f, v, element_order) for f, v in pairs)


def has_open_element_order(fmt: str) -> bool:
    return fmt in ("arrayH-q", "arrayH-d")


def decode_flags(two_bytes: bytes) -> list[int]:
    """
    The documented decoding of the tunnel ``flags`` field: the set bits in ascending order.
    """
    number = int.from_bytes(two_bytes, "big")
    return [1 << i for i in range(16) if number & (1 << i)]


# ---- structural walker -----------------------------------------------------------------------------------

def _need(buf: bytes, off: int, n: int, what: str) -> int:
    if off + n > len(buf):
        raise Truncated(f"{what}: needs bytes {off}..{off + n} of {len(buf)}")
    return off + n


def _prefix(buf: bytes, off: int, width: int, what: str) -> tuple[int, int]:
    end = _need(buf, off, width, what + " length prefix")
    return int.from_bytes(buf[off:end], "big"), end


def _walk_address(buf: bytes, off: int, domain_ok: bool) -> int:
    _need(buf, off, 1, "address type")
    kind = buf[off]
    if kind == ADDR_IPV4:
        return _need(buf, off + 1, 6, "IPv4 address")
    if kind == ADDR_IPV6:
        return _need(buf, off + 1, 18, "IPv6 address")
    if kind == ADDR_DOMAIN and domain_ok:
        n, off = _prefix(buf, off + 1, 2, "host name")
        return _need(buf, off, n + 2, "host name + port")
    raise Malformed(f"address type {kind} at {off}")


def _is_nested(entry: Any) -> bool:
    return hasattr(entry, "format_list") or isinstance(entry, tuple) or (isinstance(entry, list) and len(entry) != 1)


def _nested_formats(entry: Any) -> list:
    return list(entry.format_list) if hasattr(entry, "format_list") else list(entry)


def _walk_payload(buf: bytes, off: int, nested: Any) -> int:
    n, off = _prefix(buf, off, 2, "payload")
    end = _need(buf, off, n, "payload body")
    if nested is not None:
        # the nested message must fit into its own declared length
        walk(_nested_formats(nested), buf[off:end], 0)
    return end


def walk(format_list: Sequence, buf: bytes, start: int = 0) -> int:
    """
    End offset of a message with the given format list that starts at ``start``.
    """
    off = start
    if off > len(buf):
        raise Truncated(f"start {start} beyond buffer of {len(buf)}")
    for entry in format_list:
        if isinstance(entry, str):
            fmt = entry
            width = fixed_width(fmt)
            if width is not None:
                off = _need(buf, off, width, fmt)
            elif fmt == "ip_address":
                off = _walk_address(buf, off, False)
            elif fmt == "address":
                off = _walk_address(buf, off, True)
            elif fmt == "raw":
                off = len(buf)
            elif fmt in VARLEN:
                w, unit, _ = VARLEN[fmt]
                n, off = _prefix(buf, off, w, fmt)
                off = _need(buf, off, n * unit, fmt)
            elif fmt == "varlenH-list":
                count, off = _prefix(buf, off, 1, fmt)
                for _ in range(count):
                    n, off = _prefix(buf, off, 2, fmt + " item")
                    off = _need(buf, off, n, fmt + " item")
            elif fmt in ARRAYS:
                count, off = _prefix(buf, off, 2, fmt)
                off = _need(buf, off, count * ARRAYS[fmt], fmt)
            elif fmt == "node-list":
                count, off = _prefix(buf, off, 1, fmt)
                for _ in range(count):
                    off = _walk_address(buf, off, False)
                    n, off = _prefix(buf, off, 2, "node key")
                    off = _need(buf, off, n, "node key")
            elif fmt == "payload":
                off = _walk_payload(buf, off, None)
            elif fmt == "payload-list":
                count, off = _prefix(buf, off, 1, fmt)
                for _ in range(count):
                    off = _walk_payload(buf, off, None)
            else:
                raise Illegal(f"no reference walker for format {fmt!r}")
        elif isinstance(entry, list) and len(entry) == 1:
            count, off = _prefix(buf, off, 1, "payload-list")
            for _ in range(count):
                off = _walk_payload(buf, off, entry[0])
        elif _is_nested(entry):
            off = _walk_payload(buf, off, entry)
        else:
            raise Illegal(f"cannot interpret format list entry {entry!r}")
    return off


# ---- self test ---------------------------------------------------------------------------------------------

def selftest() -> None:
    """
    Cross-check the hand-assembled IEEE-754 patterns against the platform (raises AssertionError when broken).
    Called by the checks before they trust this module.
    """
    import struct
    doubles = [0.0, -0.0, 1.0, -1.5, 5e-324, 2.2250738585072014e-308, 1.7976931348623157e308, math.inf, -math.inf,
               0.1, 1e-310, 3.141592653589793, 123456789.125, 2.0 ** -1022, 2.0 ** -1023]
    for x in doubles:
        assert f64_bits(x).to_bytes(8, "big") == struct.pack(">d", x), x
    singles = [0.0, -0.0, 1.0, 0.1, -0.1, 1e-45, 1.4e-45, 7e-46, 1e-46, 1.17549435e-38, 1.1754942e-38, 3.4028234e38,
               3.4028235e38, 16777217.0, 16777219.0, 0.5 + 2.0 ** -25, 0.5 + 2.0 ** -24, math.inf, -math.inf,
               2.0 ** -149, 2.0 ** -150, 1.5 * 2.0 ** -150, 2.0 ** -126 - 2.0 ** -150, 65504.0, 1e-40]
    for x in singles:
        assert f32_bits(x).to_bytes(4, "big") == struct.pack(">f", x), x
    assert encode("H", 258) == b"\x01\x02" and encode("l", -2) == b"\xff\xff\xff\xfe"
    assert encode("bits", [1, 0, 0, 0, 0, 0, 0, 1]) == b"\x81"
    assert encode("ipv4", ("1.2.3.4", 5)) == b"\x01\x02\x03\x04\x00\x05"
    assert encode("address", ("a.b", 1)) == b"\x02\x00\x03a.b\x00\x01"
    assert encode("varlenHx20", b"x" * 40) == b"\x00\x02" + b"x" * 40
    assert encode("arrayH-q", [1], "little") == b"\x00\x01\x01" + b"\x00" * 7
    assert walk(["H", "varlenH", "raw"], b"\x00\x00\x00\x01ZZZ", 0) == 7
    assert walk(["varlenBx2"], b"..\x02abcd!", 2) == 7
    try:
        walk(["varlenH"], b"\x00\x05abc", 0)
    except Truncated:
        pass
    else:
        raise AssertionError("walker accepted a truncated varlenH")
