"""
Atheris (libFuzzer) target for C03: one in-process multiplexed node; the first input byte selects a registered prefix
(or none), the rest is the datagram body. The node-level oracle (N1-N3) runs inside the target; a violation aborts the
process so that libFuzzer saves the input as a crash artifact, which the check then replays through the same oracle.

    python -m pv.c03_fuzz <corpus dir> [libFuzzer flags]
"""
from __future__ import annotations

import logging
import os
import sys


def main() -> None:
    import atheris
    logging.disable(logging.CRITICAL)
    from pv.core import REPO, Violation, prepare_repo_path
    prepare_repo_path()
    with atheris.instrument_imports(include=["ipv8"]):
        import ipv8.community  # noqa: F401
        import ipv8.messaging.anonymization.community  # noqa: F401
        import ipv8.messaging.anonymization.crypto  # noqa: F401
        import ipv8.messaging.serialization  # noqa: F401
        import ipv8.lazy_community  # noqa: F401
        import ipv8.dht.community  # noqa: F401
        import ipv8.dht.discovery  # noqa: F401
        import ipv8.peerdiscovery.community  # noqa: F401
        import ipv8.attestation.identity.community  # noqa: F401
        import ipv8.attestation.wallet.community  # noqa: F401
    from pv import vloop
    from pv.props import c03_receive

    ctxmgr = vloop.virtual_time()
    loop = ctxmgr.__enter__()
    mux = c03_receive.Mux(loop, "sim")
    prefixes = sorted(mux.prefixes)
    src = c03_receive.SOURCES[0]
    count = [0]

    corpus_dir = sys.argv[1]
    if os.environ.get("VERIF_FUZZ_SEED_CORPUS") == "1":
        for i, d in enumerate(c03_receive.collect_corpus()[:400]):
            sel = prefixes.index(d[:22]) if d[:22] in prefixes else 255
            with open(os.path.join(corpus_dir, f"seed{i}"), "wb") as f:
                f.write(bytes([sel]) + d[22:] if sel != 255 else bytes([255]) + d)
        # the corpus run built nodes on other loops; make ours current again
        import asyncio
        asyncio.set_event_loop(loop)

    def one(raw: bytes) -> None:
        sel = raw[0] if raw else 255
        data = (prefixes[sel % len(prefixes)] if sel < 200 else b"") + raw[1:]
        count[0] += 1
        if count[0] % 2000 == 0:
            # reset accumulated state: peers learned, caches, pending tasks
            for ov in mux.overlays:
                ov.network.verified_peers.clear()
                ov.network.verified_by_public_key_bin.clear()
            loop.run_until_complete(_tick())
        try:
            mux.judge(src, data, {"fuzz": raw})
        except Violation as v:
            sys.stderr.write(f"ORACLE {v}\n")
            raise

    async def _tick() -> None:
        import asyncio
        await asyncio.sleep(0)

    atheris.Setup(sys.argv, one)
    atheris.Fuzz()


if __name__ == "__main__":
    main()
