"""
Child-process driver for the C19 crash check (``python -m pv.crash_child <scratch dir>``).

Reads ``<dir>/workload.json``, executes the inserts on real file databases below ``<dir>`` through the real
``IdentityDatabase`` / ``AttestationsDB`` classes and SIGKILLs itself at the requested crash point.

Crash points (``kill``):
  {"mode": "api", "n": k}   k = 2*(event-1) + (0 before | 1 after); events = calls of Database._connect / execute /
                            executescript / commit, counted by wrappers that exist in this process only
  {"mode": "sql", "n": k}   immediately before sqlite starts its k-th statement (k from 1), seen through the
                            connection's trace callback - this also reaches the statements inside executescript,
                            the PRAGMAs of Database._initial_statements and the implicit BEGIN / COMMIT
  {"mode": "sql", "match": prefix, "n": k}   before the k-th statement whose text starts with ``prefix`` (used by
                            saved regression cases, so that they keep pointing at the same place when the
                            number of statements before it changes)
  {"mode": "none"}          run to the end, close the databases, exit 0

``<dir>/ack.log`` gets one JSON line (flushed + fsync'ed) per fact the parent may rely on:
  {"t": "ack", "i": op}     the insert call of op i has returned
  {"t": "rej", "i": op}     the insert call of op i raised sqlite3.IntegrityError (a rejected duplicate)
  {"t": "ret", "i": op}     the insert call of op i returned inside an open ``with database:`` block (commit deferred;
                            an "ack" for it follows when the block is left normally)
  {"t": "kill", ...}        written immediately before the SIGKILL (position of the crash point, for the evidence)
  {"t": "done", ...}        clean end, with the number of events seen

Exit codes: 0 clean end, -9 killed, 3 wrong ipv8 import location, 4 unexpected exception (traceback in err.txt).
"""
from __future__ import annotations

import json
import os
import signal
import sys


def main(argv: list[str]) -> int:
    d = argv[0]
    with open(os.path.join(d, "workload.json")) as f:
        wl = json.load(f)

    # never outlive the run: die with the parent, and never hang
    try:
        import ctypes
        ctypes.CDLL(None).prctl(1, signal.SIGKILL)  # PR_SET_PDEATHSIG
    except Exception:  # noqa: BLE001
        pass
    signal.alarm(int(wl.get("alarm", 60)))

    import ipv8
    got = os.path.dirname(os.path.dirname(os.path.abspath(ipv8.__file__)))
    if os.path.realpath(got) != os.path.realpath(wl["repo"]):
        sys.stderr.write(f"ipv8 imported from {got}, expected {wl['repo']}\n")
        return 3

    import logging
    import sqlite3
    logging.disable(logging.CRITICAL)

    from ipv8.attestation.identity.attestation import Attestation
    from ipv8.attestation.identity.database import IdentityDatabase
    from ipv8.attestation.identity.metadata import Metadata
    from ipv8.attestation.tokentree.token import Token
    from ipv8.attestation.wallet.bonehexact.structs import BonehAttestation
    from ipv8.attestation.wallet.database import AttestationsDB
    from ipv8.attestation.wallet.primitives.structs import BonehPrivateKey
    from ipv8.database import Database
    from ipv8.keyvault.crypto import default_eccrypto

    log = open(os.path.join(d, "ack.log"), "ab", buffering=0)  # noqa: SIM115

    def say(rec: dict) -> None:
        log.write(json.dumps(rec).encode() + b"\n")
        os.fsync(log.fileno())

    kill = wl.get("kill") or {"mode": "none"}
    mode, target = kill.get("mode", "none"), int(kill.get("n", -1))
    state = {"api": 0, "sql": 0, "op": -1}
    names: list[str] = []

    def die(rec: dict) -> None:
        rec.update({"t": "kill", "op": state["op"], "api_seen": state["api"], "sql_seen": state["sql"]})
        say(rec)
        os.kill(os.getpid(), signal.SIGKILL)
        while True:  # pragma: no cover - the signal is delivered before this runs
            signal.pause()

    def tag(db: Database) -> str:
        return "id" if isinstance(db, IdentityDatabase) else "wallet"

    def wrap(name: str) -> None:
        orig = getattr(Database, name)

        def wrapper(self, *args, **kwargs):  # noqa: ANN001, ANN002, ANN003, ANN202
            state["api"] += 1
            ev = state["api"]
            label = f"{tag(self)}.{name.lstrip('_')}"
            names.append(label)
            if mode == "api" and target == 2 * (ev - 1):
                die({"mode": "api", "event": ev, "phase": "before", "name": label})
            try:
                out = orig(self, *args, **kwargs)
                if name == "_connect":
                    self._connection.set_trace_callback(trace)
            finally:
                # also when the call raised (the probe for the version row on a new file does): still an instant
                if mode == "api" and target == 2 * (ev - 1) + 1:
                    die({"mode": "api", "event": ev, "phase": "after", "name": label})
            return out
        setattr(Database, name, wrapper)

    match = kill.get("match")

    def trace(stmt: str) -> None:
        state["sql"] += 1
        if match is not None:
            if mode == "sql" and str(stmt).lstrip().startswith(match):
                state["hits"] = state.get("hits", 0) + 1
                if state["hits"] == target:
                    die({"mode": "sql", "event": state["sql"], "phase": "before",
                         "name": " ".join(str(stmt).split())[:48]})
            return
        if mode == "sql" and target == state["sql"]:
            die({"mode": "sql", "event": state["sql"], "phase": "before", "name": " ".join(str(stmt).split())[:48]})

    for name in ("_connect", "execute", "executescript", "commit"):
        wrap(name)

    dbs: dict[str, Database | None] = {"id": None, "wallet": None}

    im_box: dict = {"im": None}

    def identity() -> IdentityDatabase:
        if dbs["id"] is None:
            # through the manager the library itself uses (it creates and opens the IdentityDatabase)
            from ipv8.attestation.identity.manager import IdentityManager
            im_box["im"] = IdentityManager(os.path.join(d, "identity", "identity.db"))
            dbs["id"] = im_box["im"].database
        return dbs["id"]

    # inside a compound call (one credential through the manager, one disclosure through substantiate) every inner
    # insert_* call that returns is acknowledged on its own: state["compound"] maps the row's key to its op index
    def wrap_insert(name: str, keyfn) -> None:
        orig = getattr(IdentityDatabase, name)

        def wrapper(self, *args, **kwargs):  # noqa: ANN001, ANN002, ANN003, ANN202
            out = orig(self, *args, **kwargs)
            comp = state.get("compound")
            if comp is not None:
                idx = comp.get(keyfn(*args))
                if idx is not None and idx not in state["compound_acked"]:
                    state["compound_acked"].add(idx)
                    say({"t": "ack", "i": idx})
            return out
        setattr(IdentityDatabase, name, wrapper)
    wrap_insert("insert_token", lambda pk, tok: "tok:" + tok.previous_token_hash.hex() + ":" + tok.content_hash.hex())
    wrap_insert("insert_metadata", lambda pk, md: "meta:" + md.token_pointer.hex())
    wrap_insert("insert_attestation", lambda pk, auth, att: "att:" + auth.key_to_bin().hex() + ":" + att.metadata_pointer.hex())

    def wallet() -> AttestationsDB:
        if dbs["wallet"] is None:
            dbs["wallet"] = AttestationsDB(os.path.join(d, "wallet"), "attestations")
        return dbs["wallet"]

    def pub(hexkey: str):  # noqa: ANN202
        return default_eccrypto.key_from_public_bin(bytes.fromhex(hexkey))

    def unhex(x: str | None) -> bytes | None:
        return None if x is None else bytes.fromhex(x)

    managers: dict = {}
    batch: list[int] | None = None      # op indices whose insert call returned inside an open "with database:" block

    for i, op in enumerate(wl["ops"]):
        state["op"] = i
        kind = op["op"]
        try:
            if kind == "batch_begin":
                # what ``with database:`` does on entry (the documented way to group commits)
                identity().__enter__()
                batch = []
            elif kind == "batch_end":
                from ipv8.database import IgnoreCommits
                db = identity()
                if op["end"] == "ok":
                    db.__exit__(None, None, None)
                    for j in batch or []:
                        say({"t": "ack", "i": j})          # durable from now on
                elif op["end"] == "ignore":
                    exc = IgnoreCommits()
                    db.__exit__(IgnoreCommits, exc, None)
                else:
                    # the body raised an ordinary exception which the application catches around the block
                    exc2 = TypeError("batch body failed")
                    db.__exit__(TypeError, exc2, None)
                batch = None
            elif kind == "nop":
                continue          # placeholder that keeps the indices of a compound call's records aligned
            elif kind == "cred":
                from ipv8.attestation.identity.manager import PseudonymManager
                if op["content"] is None:
                    token = Token(unhex(op["prev"]), content_hash=unhex(op["chash"]), signature=unhex(op["sig"]))
                else:
                    token = Token(unhex(op["prev"]), content=unhex(op["content"]), signature=unhex(op["sig"]))
                md = Metadata(unhex(op["tp"]), unhex(op["json"]), signature=unhex(op["msig"]))
                atts = {(pub(a["auth"]), Attestation(unhex(a["mp"]), signature=unhex(a["sig"]))) for a in op["atts"]}
                mgr = managers.get(op["pk"])
                if mgr is None or mgr.database is not identity():
                    mgr = managers[op["pk"]] = PseudonymManager(identity(), public_key=pub(op["pk"]))
                state["compound"], state["compound_acked"] = op["index_of"], set()
                try:
                    mgr.add_credential(token, md, atts)
                finally:
                    state["compound"] = None
                for j in sorted(set(op["index_of"].values()) - state["compound_acked"]):
                    say({"t": "skip", "i": j})        # the call is over and never made this insert
                continue
            elif kind == "subst":
                # a disclosure of someone else's pseudonym, loaded the way IdentityCommunity does on a disclose message
                identity()
                import struct as _struct
                mds = b""
                for m in op["metas"]:
                    blob = unhex(m["tp"]) + unhex(m["json"]) + unhex(m["sig"])
                    mds += _struct.pack(">I", len(blob)) + blob
                atts_b = b"".join(unhex(a["mp"]) + unhex(a["sig"]) for a in op["atts"])
                auths = b"".join(_struct.pack(">H", len(unhex(a["auth"]))) + unhex(a["auth"]) for a in op["atts"])
                if op.get("damage"):
                    auths = auths + b"\x00\x40garbage"     # a damaged authorities section: parsing raises after the valid part
                state["compound"], state["compound_acked"] = op["index_of"], set()
                try:
                    im_box["im"].substantiate(pub(op["pk"]), mds, unhex(op["tokens"]), atts_b, auths)
                except Exception as e:  # noqa: BLE001 - the overlay's packet handler swallows (and logs) this
                    say({"t": "swallowed", "i": i, "exc": repr(e)[:120]})
                finally:
                    state["compound"] = None
                for j in sorted(set(op["index_of"].values()) - state["compound_acked"]):
                    say({"t": "skip", "i": j})
                continue
            elif kind == "token":
                if op["content"] is None:
                    token = Token(unhex(op["prev"]), content_hash=unhex(op["chash"]), signature=unhex(op["sig"]))
                else:
                    token = Token(unhex(op["prev"]), content=unhex(op["content"]), signature=unhex(op["sig"]))
                identity().insert_token(pub(op["pk"]), token)
            elif kind == "meta":
                identity().insert_metadata(pub(op["pk"]), Metadata(unhex(op["tp"]), unhex(op["json"]),
                                                                   signature=unhex(op["sig"])))
            elif kind == "att":
                identity().insert_attestation(pub(op["pk"]), pub(op["auth"]),
                                              Attestation(unhex(op["mp"]), signature=unhex(op["sig"])))
            elif kind == "blob":
                att = BonehAttestation.unserialize(unhex(op["blob"]), op["fmt"])
                wallet().insert_attestation(att, unhex(op["hash"]), BonehPrivateKey.unserialize(unhex(op["sk"])),
                                            op["fmt"])
            elif kind == "reopen":
                db = dbs[op["db"]]
                if db is not None:
                    try:
                        db.close()
                    except Exception as e:  # noqa: BLE001 - noted; durability is judged from the files
                        say({"t": "close_error", "exc": repr(e)[:200]})
                    dbs[op["db"]] = None
                    if op["db"] == "id":
                        im_box["im"] = None
                        managers.clear()
                (identity if op["db"] == "id" else wallet)()
            else:
                raise ValueError(kind)
        except sqlite3.IntegrityError as e:
            say({"t": "rej", "i": i, "exc": repr(e)})
            continue
        except Exception as e:  # noqa: BLE001
            # the library raised on a legal call: for the durability question this is where the process ends
            die({"mode": "error", "event": state["api"], "phase": "during", "name": f"{kind}: {e!r}"[:120]})
        if batch is not None and kind in ("token", "meta", "att"):
            batch.append(i)
            say({"t": "ret", "i": i})       # the call returned, the commit is deferred to the end of the block
            continue
        say({"t": "ack", "i": i})

    state["op"] = len(wl["ops"])
    for db in dbs.values():
        if db is not None:
            try:
                db.close()
            except Exception as e:  # noqa: BLE001 - noted for the parent; what was durable is judged from the files
                say({"t": "close_error", "exc": repr(e)[:200]})
    say({"t": "done", "api": state["api"], "sql": state["sql"], "events": names})
    return 0


if __name__ == "__main__":
    try:
        code = main(sys.argv[1:])
    except BaseException:  # noqa: BLE001
        import traceback
        try:
            with open(os.path.join(sys.argv[1], "err.txt"), "w") as f:
                f.write(traceback.format_exc())
        except Exception:  # noqa: BLE001
            pass
        traceback.print_exc()
        code = 4
    sys.stdout.flush()
    sys.stderr.flush()
    os._exit(code)
