"""
Shared plumbing for every check: case accounting, evidence, violations, known findings, replay
files, Hypothesis driving with collect-then-shrink, and process sharding.

Nothing in here knows about py-ipv8.
"""
from __future__ import annotations

import hashlib
import json
import multiprocessing
import os
import sys
import time
import traceback
from typing import Any, Callable, Iterable

ROOT = os.path.dirname(os.path.dirname(os.path.abspath(__file__)))
REPO = os.environ.get("VERIF_REPO", "/repo")
NPROC = int(os.environ.get("VERIF_PROCS", "16"))
# runs against a scratch copy of the repository (sensitivity audit) must not touch the committed evidence
OUT = ROOT if os.path.realpath(REPO) == "/repo" else os.path.join(ROOT, "scratch", "out")
DISTINCT_CAP = 3_000_000


class Violation(Exception):
    """
    Raised by an oracle. ``clause`` names the oracle clause (e.g. "L1"), ``site`` the normalised place the
    clause points at (class / packer / message id / operation) - together they form the root-cause signature.
    ``case`` is plain JSON data from which ``replay`` can re-execute the failing input.
    """

    def __init__(self, clause: str, site: str, msg: str, case: Any = None) -> None:
        super().__init__(f"[{clause}@{site}] {msg}")
        self.clause = clause
        self.site = site
        self.msg = msg
        self.case = case

    @property
    def sig(self) -> tuple[str, str]:
        return (self.clause, self.site)


class HarnessError(Exception):
    """
    Something is wrong with the machinery, not with the code under test (exit 2).
    """


def jsonable(x: Any) -> Any:
    """
    Convert a case descriptor to plain JSON data (bytes -> {"hex": ...}).
    """
    if isinstance(x, (bytes, bytearray, memoryview)):
        return {"hex": bytes(x).hex()}
    if isinstance(x, dict):
        return {str(k): jsonable(v) for k, v in x.items()}
    if isinstance(x, (list, tuple)):
        return [jsonable(v) for v in x]
    if isinstance(x, (set, frozenset)):
        return sorted((jsonable(v) for v in x), key=repr)
    if isinstance(x, float):
        if x != x or x in (float("inf"), float("-inf")):
            return {"float": repr(x)}
        return x
    if isinstance(x, (int, str, bool)) or x is None:
        return x
    return repr(x)


def unjson(x: Any) -> Any:
    """
    Inverse of ``jsonable`` for the encodings that need one.
    """
    if isinstance(x, dict):
        if set(x) == {"hex"}:
            return bytes.fromhex(x["hex"])
        if set(x) == {"float"}:
            return float(x["float"])
        return {k: unjson(v) for k, v in x.items()}
    if isinstance(x, list):
        return [unjson(v) for v in x]
    return x


def digest(x: Any) -> int:
    """
    64-bit digest of a case descriptor.
    """
    if not isinstance(x, (bytes, str)):
        x = json.dumps(jsonable(x), sort_keys=True, default=repr)
    if isinstance(x, str):
        x = x.encode()
    return int.from_bytes(hashlib.sha1(x).digest()[:8], "big")


def derive(seed: int, *labels: Any) -> int:
    """
    Derive an independent seed from VERIF_SEED and labels (shard index, sub-check name).
    """
    h = hashlib.sha256(repr((seed,) + labels).encode()).digest()
    return int.from_bytes(h[:8], "big") >> 1


class Ctx:
    """
    Per-run (and per-worker) accounting.
    """

    def __init__(self, pid: str, tier: str, seed: int) -> None:
        self.pid = pid
        self.tier = tier
        self.seed = seed
        self.quick = tier == "quick"
        self.evaluations = 0
        self.nontrivial: set[int] = set()
        self.nontrivial_capped = False
        self.samples: list[Any] = []
        self.sample_slots = 6
        self.hist: dict[str, int] = {}
        self.violations: dict[tuple[str, str], dict] = {}
        self.notes: dict[str, Any] = {}
        self.excluded_known = 0
        self.inconclusive: list[str] = []
        self.t0 = time.perf_counter()
        self.budget_s: float | None = None

    # ---- accounting ------------------------------------------------------------------------------
    def case(self, descriptor: Any, nontrivial: bool = True, cls: str | None = None, sample: Any = None) -> None:
        """
        Count one evaluated case. ``descriptor`` identifies the case for distinctness.
        """
        self.evaluations += 1
        if cls is not None:
            self.hist[cls] = self.hist.get(cls, 0) + 1
        if nontrivial:
            if len(self.nontrivial) < DISTINCT_CAP:
                d = descriptor if isinstance(descriptor, int) else digest(descriptor)
                if d not in self.nontrivial:
                    self.nontrivial.add(d)
                    if len(self.samples) < self.sample_slots:
                        self.samples.append(jsonable(sample if sample is not None else descriptor))
            else:
                self.nontrivial_capped = True

    def count(self, cls: str, n: int = 1) -> None:
        self.hist[cls] = self.hist.get(cls, 0) + n

    def note(self, key: str, value: Any) -> None:
        self.notes[key] = value

    def elapsed(self) -> float:
        return time.perf_counter() - self.t0

    def out_of_budget(self) -> bool:
        return self.budget_s is not None and self.elapsed() > self.budget_s

    # ---- violations ------------------------------------------------------------------------------
    def violation(self, v: Violation) -> None:
        """
        Record a violation; the first (or smaller) case per root-cause signature is kept.
        """
        case = jsonable(v.case)
        size = len(json.dumps(case, default=repr))
        old = self.violations.get(v.sig)
        if old is None or size < old["size"]:
            self.violations[v.sig] = {"clause": v.clause, "site": v.site, "msg": v.msg, "case": case, "size": size}

    def check(self, fn: Callable[[], None]) -> bool:
        """
        Run an oracle; record its violation instead of propagating. Returns True if it held.
        """
        try:
            fn()
        except Violation as v:
            self.violation(v)
            return False
        return True

    # ---- worker merge ----------------------------------------------------------------------------
    def export(self) -> dict:
        return {"evaluations": self.evaluations, "nontrivial": self.nontrivial, "capped": self.nontrivial_capped,
                "samples": self.samples, "hist": self.hist, "violations": self.violations, "notes": self.notes,
                "excluded_known": self.excluded_known, "inconclusive": self.inconclusive}

    def merge(self, other: dict) -> None:
        self.evaluations += other["evaluations"]
        room = DISTINCT_CAP - len(self.nontrivial)
        if len(other["nontrivial"]) > room:
            self.nontrivial_capped = True
        self.nontrivial |= other["nontrivial"]
        self.nontrivial_capped |= other["capped"]
        for s in other["samples"]:
            if len(self.samples) < self.sample_slots * 3:
                self.samples.append(s)
        for k, n in other["hist"].items():
            self.hist[k] = self.hist.get(k, 0) + n
        for sig, rec in other["violations"].items():
            old = self.violations.get(sig)
            if old is None or rec["size"] < old["size"]:
                self.violations[sig] = rec
        for k, val in other["notes"].items():
            if isinstance(val, (int, float)) and not isinstance(val, bool) and isinstance(self.notes.get(k), (int, float)):
                self.notes[k] += val
            elif isinstance(val, list) and isinstance(self.notes.get(k), list):
                self.notes[k] = (self.notes[k] + val)[:50]
            elif isinstance(val, dict) and isinstance(self.notes.get(k), dict):
                for kk, vv in val.items():
                    if isinstance(vv, (int, float)) and isinstance(self.notes[k].get(kk), (int, float)):
                        self.notes[k][kk] += vv
                    else:
                        self.notes[k].setdefault(kk, vv)
            else:
                self.notes.setdefault(k, val)
        self.excluded_known += other["excluded_known"]
        self.inconclusive += other["inconclusive"]


# ---- sharding --------------------------------------------------------------------------------------

def _worker(args: tuple) -> dict:
    fn, pid, tier, seed, shard, nshards, extra = args
    sub = Ctx(pid, tier, seed)
    sub.shard = shard
    sub.nshards = nshards
    try:
        fn(sub, shard, nshards, *extra)
    except Violation as v:
        sub.violation(v)
    except HarnessError as e:
        return {"harness_error": f"{e}"}
    except BaseException:
        return {"harness_error": traceback.format_exc()}
    return sub.export()


def shard_run(ctx: Ctx, fn: Callable, nshards: int | None = None, extra: tuple = ()) -> None:
    """
    Run ``fn(sub_ctx, shard_index, nshards, *extra)`` in ``nshards`` forked processes and merge their accounting.
    ``fn`` must be a module-level function.
    """
    nshards = nshards or NPROC
    jobs = [(fn, ctx.pid, ctx.tier, ctx.seed, i, nshards, extra) for i in range(nshards)]
    if nshards == 1 or os.environ.get("VERIF_INLINE"):
        results = [_worker(j) for j in jobs]
    else:
        mp = multiprocessing.get_context("fork")
        with mp.Pool(min(NPROC, nshards), maxtasksperchild=1) as pool:
            results = pool.map(_worker, jobs, chunksize=1)
    for r in results:
        if "harness_error" in r:
            raise HarnessError(r["harness_error"])
        ctx.merge(r)


# ---- Hypothesis driving ----------------------------------------------------------------------------

def hyp_run(ctx: Ctx, name: str, strategy: Any, body: Callable[[Any], None], max_examples: int,
            shrink_examples: int = 400, stateful_machine: Any = None) -> None:
    """
    Drive ``body(x)`` with Hypothesis. ``body`` raises ``Violation`` when an oracle fails.

    Collect-then-shrink: the generation pass never stops at a failure, it records one case per root-cause
    signature; afterwards each signature gets its own bounded shrink pass in which only that signature fails.
    """
    import hypothesis
    from hypothesis import HealthCheck, Phase, given, settings

    found: dict[tuple[str, str], Violation] = {}

    def collect(x: Any) -> None:
        try:
            body(x)
        except Violation as v:
            if v.sig not in found:
                found[v.sig] = v
            ctx.violation(v)

    common = dict(database=None, deadline=None, derandomize=False, report_multiple_bugs=False,
                  suppress_health_check=[HealthCheck.too_slow, HealthCheck.data_too_large,
                                         HealthCheck.large_base_example])
    gen = hypothesis.seed(derive(ctx.seed, ctx.pid, name, getattr(ctx, "shard", 0)))(
        settings(max_examples=max_examples, phases=[Phase.generate], **common)(given(strategy)(collect)))
    try:
        gen()
    except hypothesis.errors.FailedHealthCheck as e:
        raise HarnessError(f"hypothesis health check in {name}: {e}") from e
    except hypothesis.errors.Unsatisfiable as e:
        raise HarnessError(f"unsatisfiable strategy in {name}: {e}") from e

    for sig in list(found):
        def only(x: Any, sig: tuple = sig) -> None:
            try:
                body(x)
            except Violation as v:
                if v.sig == sig:
                    ctx.violation(v)
                    raise
        sh = hypothesis.seed(derive(ctx.seed, ctx.pid, name, "shrink", sig))(
            settings(max_examples=shrink_examples, phases=[Phase.generate, Phase.shrink], **common)(
                given(strategy)(only)))
        try:
            sh()
        except Violation:
            pass
        except Exception:  # shrinking is best effort; the collected case is already recorded
            pass


# ---- known findings ----------------------------------------------------------------------------------

def load_known() -> dict:
    p = os.path.join(ROOT, "known_findings.json")
    if not os.path.exists(p):
        return {"findings": [], "fixed": []}
    with open(p) as f:
        return json.load(f)


def is_known(pid: str, clause: str, site: str) -> dict | None:
    for k in load_known().get("findings", []):
        if k["property"] == pid and k["clause"] == clause and k["site"] == site:
            return k
    return None


# ---- evidence ----------------------------------------------------------------------------------------

def write_evidence(ctx: Ctx, level: str, rule: str, assumptions: list[str], exhaustive: bool | None = None,
                   unlisted_violations: int = 0) -> str:
    cov: dict[str, Any] = {
        "evaluations": ctx.evaluations,
        "distinct_nontrivial": len(ctx.nontrivial),
        "distinct_nontrivial_note": "" if len(ctx.nontrivial) >= 2 else "the run was cut short by violations",
        "rule": rule + (" [distinct count capped at %d: lower bound]" % DISTINCT_CAP if ctx.nontrivial_capped else ""),
        "samples": ctx.samples[:12],
        "classes": dict(sorted(ctx.hist.items())),
        "excluded_known_findings": ctx.excluded_known,
        "inconclusive": ctx.inconclusive,
    }
    if exhaustive is not None:
        cov["exhaustive"] = exhaustive
    cov.update(ctx.notes)
    ev = {
        "property_id": ctx.pid, "tier": ctx.tier, "seed": ctx.seed, "level": level, "coverage": cov,
        "assumptions": assumptions, "wall_s": round(ctx.elapsed(), 3), "violations": unlisted_violations,
    }
    os.makedirs(os.path.join(OUT, "evidence"), exist_ok=True)
    path = os.path.join(OUT, "evidence", f"{ctx.pid}.json")
    tmp = path + ".tmp"
    with open(tmp, "w") as f:
        json.dump(ev, f, indent=1, sort_keys=True, default=repr)
        f.write("\n")
    os.replace(tmp, path)
    return path


def write_replay(pid: str, rec: dict) -> str:
    d = os.path.join(OUT, "replays", pid)
    os.makedirs(d, exist_ok=True)
    name = "%s_%016x.json" % (rec["clause"], digest((rec["clause"], rec["site"])))
    path = os.path.join(d, name)
    with open(path, "w") as f:
        json.dump({"property": pid, "clause": rec["clause"], "site": rec["site"], "msg": rec["msg"],
                   "case": rec["case"]}, f, indent=1, default=repr)
        f.write("\n")
    return os.path.relpath(path, ROOT)


def chunks(seq: list, i: int, n: int) -> list:
    """
    The i-th of n interleaved slices.
    """
    return seq[i::n]


def prepare_repo_path() -> None:
    """
    Make the working tree under test the first import location.
    """
    if REPO not in sys.path:
        sys.path.insert(0, REPO)
    import ipv8  # noqa: F401
    got = os.path.dirname(os.path.dirname(os.path.abspath(ipv8.__file__)))
    if os.path.realpath(got) != os.path.realpath(REPO):
        raise HarnessError(f"ipv8 imported from {got}, expected {REPO}")
