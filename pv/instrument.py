"""
Run-time observation of message handlers without touching the repository.

Every function produced by ``lazy_wrapper*`` keeps the user handler in a closure cell named ``func``; the harness swaps
the cell content for a shim that records (overlay instance, message id, decorator kind, first argument) and calls
through. The decorator's own verification code stays untouched.
"""
from __future__ import annotations

from typing import Any, Callable

SIGNED_KINDS = ("lazy_wrapper", "lazy_wrapper_wd")


def handler_kind(handler: Any) -> tuple[str | None, Any]:
    """
    (decorator kind or None, the closure cell holding the inner handler or None). Other decorators stacked on top
    of the lazy wrapper (e.g. ``synchronized``) are looked through.
    """
    todo = [getattr(handler, "__func__", handler)]
    seen = set()
    while todo and len(seen) < 12:
        f = todo.pop(0)
        if id(f) in seen or not callable(f):
            continue
        seen.add(id(f))
        code = getattr(f, "__code__", None)
        if code is None:
            continue
        if code.co_qualname.startswith("lazy_wrapper") and "func" in code.co_freevars:
            kind = code.co_qualname.split(".")[0]
            return kind, f.__closure__[code.co_freevars.index("func")]
        if getattr(f, "__wrapped__", None) is not None:
            todo.append(f.__wrapped__)
        for cell in (f.__closure__ or ()):
            try:
                v = cell.cell_contents
            except ValueError:
                continue
            if callable(v) and hasattr(v, "__code__"):
                todo.append(v)
    return None, None


def trace_inner_handlers(overlay: Any, record: Callable[[Any, int, str, Any], None]) -> Callable[[], None]:
    """
    Install shims for every lazy-wrapped handler of ``overlay``'s class. Returns an undo function.
    """
    undo = []
    seen = set()
    for msg_id, handler in enumerate(overlay.decode_map):
        if handler is None:
            continue
        kind, cell = handler_kind(handler)
        if cell is None or id(cell) in seen:
            continue
        seen.add(id(cell))
        inner = cell.cell_contents
        f = getattr(handler, "__func__", handler)
        ids = [i for i, h in enumerate(overlay.decode_map) if h is not None and getattr(h, "__func__", h) is f]

        def shim(self: Any, first: Any, *args: Any, __inner: Any = inner, __ids: list = ids, __kind: str = kind,
                 **kwargs: Any) -> Any:
            record(self, __ids, __kind, first)
            return __inner(self, first, *args, **kwargs)
        cell.cell_contents = shim
        undo.append((cell, inner))

    def restore() -> None:
        for cell, inner in undo:
            cell.cell_contents = inner
    return restore


def declared_auth(overlay: Any) -> dict[int, str]:
    """
    msg id -> decorator kind ("lazy_wrapper", ..., or "plain") for every registered handler.
    """
    out = {}
    for msg_id, handler in enumerate(overlay.decode_map):
        if handler is None:
            continue
        kind, _ = handler_kind(handler)
        out[msg_id] = kind or "plain"
    return out
