"""
Entry point: ``python -m pv.runner <ID> quick|thorough`` or ``python -m pv.runner <ID> --replay <file>``.

Exit 0: property held on everything explored (known findings are printed, not failed).
Exit 1: ``VIOLATION property=<ID> replay=<path>`` for a violation not listed in known_findings.json.
Exit 2: harness error - never a verdict about the code.
"""
from __future__ import annotations

import glob
import importlib
import json
import logging
import os
import sys
import traceback

from . import core


def load_module(pid: str):
    hits = glob.glob(os.path.join(core.ROOT, "pv", "props", pid.lower() + "_*.py"))
    if len(hits) != 1:
        raise core.HarnessError(f"no unique check module for {pid}: {hits}")
    return importlib.import_module("pv.props." + os.path.basename(hits[0])[:-3])


def main(argv: list[str]) -> int:
    if len(argv) < 2:
        print(__doc__)
        return 2
    pid = argv[0].upper()
    seed = int(os.environ.get("VERIF_SEED", "1") or 1)
    logging.disable(logging.CRITICAL)  # the code under test logs rejected packets; that is not output of a check
    try:
        core.prepare_repo_path()
        mod = load_module(pid)
        if argv[1] == "--replay":
            path = argv[2]
            with open(path if os.path.isabs(path) else os.path.join(core.ROOT, path)) as f:
                data = json.load(f)
            ctx = core.Ctx(pid, "quick", seed)
            try:
                mod.replay(ctx, core.unjson(data["case"]))
            except core.Violation as v:
                print(f"reproduced: {v}")
                print(f"VIOLATION property={pid} replay={path}")
                return 1
            print("not reproduced: the saved case passes the oracle on this tree")
            return 0
        tier = os.environ.get("VERIF_TIER") or argv[1]
        if argv[1] in ("quick", "thorough"):
            tier = argv[1]
        if tier not in ("quick", "thorough"):
            raise core.HarnessError(f"unknown tier {tier}")
        ctx = core.Ctx(pid, tier, seed)
        # replay tier: saved regression cases (from repaired defects and sensitivity mutants) run first
        reg = sorted(glob.glob(os.path.join(core.ROOT, "regress", pid, "*.json")))
        for path in reg:
            with open(path) as f:
                data = json.load(f)
            try:
                mod.replay(ctx, core.unjson(data["case"]))
            except core.Violation as v:
                if v.case is None:
                    v.case = data["case"]
                ctx.violation(v)
        ctx.note("regression_cases_replayed", len(reg))
        mod.run(ctx)
        unlisted = 0
        lines = []
        for sig, rec in sorted(ctx.violations.items()):
            known = core.is_known(pid, rec["clause"], rec["site"])
            if known is not None:
                lines.append(f"KNOWN-FINDING: property={pid} {known['what']}")
            else:
                unlisted += 1
                rp = core.write_replay(pid, rec)
                lines.append(f"  {rec['clause']}@{rec['site']}: {rec['msg']}")
                lines.append(f"VIOLATION property={pid} replay={rp}")
        if not unlisted and (ctx.evaluations < 1 or len(ctx.nontrivial) < 2):
            raise core.HarnessError(f"check explored nothing non-trivial: {ctx.evaluations} cases, "
                                    f"{len(ctx.nontrivial)} non-trivial")
        core.write_evidence(ctx, mod.LEVEL, mod.RULE, mod.ASSUMPTIONS,
                            exhaustive=getattr(mod, "EXHAUSTIVE", None), unlisted_violations=unlisted)
        for line in lines:
            print(line)
        print(f"{pid} {tier} seed={seed}: {ctx.evaluations} cases, {len(ctx.nontrivial)} distinct non-trivial, "
              f"{unlisted} violation(s), {ctx.elapsed():.1f}s")
        return 1 if unlisted else 0
    except core.HarnessError as e:
        print(f"HARNESS-ERROR {pid}: {e}", file=sys.stderr)
        return 2
    except BaseException:
        print(f"HARNESS-ERROR {pid}:\n{traceback.format_exc()}", file=sys.stderr)
        return 2


if __name__ == "__main__":
    sys.exit(main(sys.argv[1:]))
