"""
C12 - the peer graph's lookups always agree with its membership.

Generated histories of Network operations (bounded-exhaustive over a reduced alphabet + Hypothesis-drawn long
ones) are executed on the real ``Network`` and on a reference model written from the property statement and the
method docstrings. The model is three-valued where the statement leaves behaviour open (see DESIGN 2/C12), so
that only behaviour the statement pins down can be flagged.
"""
from __future__ import annotations

import itertools
from functools import lru_cache

from .. import keypool
from ..core import Ctx, Violation, hyp_run, shard_run

PID = "C12"
LEVEL = "exploration"
EXHAUSTIVE = False
RULE = ("histories of add_verified_peer / discover_address / discover_services / remove_peer (with the stored object or with another Peer instance of the same key) / remove_by_address / "
        "query ops / snapshot over 3 peers, 7 addresses (3 IPv4, 2 IPv6, 2 plain tuples), 2 services, cache sizes from "
        "{1,2,500}, blacklists fixed at start: all words to depth 5 (quick) or 6 (thorough) over a 14-letter alphabet "
        "x 2 cache configurations, plus Hypothesis-drawn histories up to 200 ops. Non-trivial = a query op precedes "
        "a removal which precedes another query or a re-add, or an LRU cache overflowed; distinct = digest of "
        "(config, op list).")
ASSUMPTIONS = [
    "Peer objects are changed only through Network methods or before they are handed to the graph",
    "Behaviour the statement leaves open is accepted either way: services and known addresses of a removed peer, "
    "a peer with a mix of blacklisted and other addresses, get_introductions_from after an LRU eviction",
    "an address is walkable for a service if it was introduced for that service OR its introducer advertises the "
    "service (both are what 'advertised services imply'; the second is the case the repository's own "
    "test_get_walkable_by_service pins down for untagged introductions) - required only while the introducer's "
    "advertisement is certain (never removed since)",
    "single-threaded use (graph_lock is not exercised)",
]

NP, NS = 3, 2
SERVICES = [b"S" * 20, b"T" * 20]
YES, EITHER = 1, 2


@lru_cache(maxsize=None)
def _addr_universe() -> list:
    from ipv8.messaging.interfaces.udp.endpoint import UDPv4Address, UDPv6Address
    return [UDPv4Address("1.0.0.1", 1001), UDPv4Address("1.0.0.2", 1002), UDPv4Address("10.0.0.3", 1003),
            UDPv6Address("2001:db8::1", 2001), UDPv6Address("2001:db8::2", 2002),
            ("1.0.0.6", 1006), ("1.0.0.7", 1007)]


@lru_cache(maxsize=None)
def _pubkeys() -> list:
    return [keypool.key(i).pub() for i in range(NP)]


def mk_peer(i: int, addr_idxs: list[int]):
    from ipv8.peer import Peer
    p = Peer(_pubkeys()[i])
    for a in addr_idxs:
        p.add_address(_addr_universe()[a])
    return p


class Model:
    """
    Reference model. ``members``: key index -> {address class -> address index} for peers that must be members;
    ``maybe``: key indices whose membership is not pinned down by the statement.
    """

    def __init__(self, bl_addrs: list[int], bl_mids: list[int]) -> None:
        self.members: dict[int, dict[type, int]] = {}
        self.maybe: set[int] = set()
        self.known: dict[int, int] = {}            # address index -> YES / EITHER
        self.first_intro: dict[int, tuple] = {}    # address index -> (introducer, service idx|None, new_style)
        self.services: dict[tuple[int, int], int] = {}   # (peer, service) -> YES / EITHER
        self.bl_addrs = set(bl_addrs)
        self.bl_mids = set(bl_mids)
        self.overflow = False

    def cls_of(self, a: int) -> type:
        return _addr_universe()[a].__class__

    def owners(self, a: int) -> list[int]:
        return [p for p, addrs in self.members.items() if a in addrs.values()]

    def add(self, p: int, addrs: list[int]) -> None:
        if p in self.bl_mids:
            return
        if p in self.members:
            for a in addrs:
                self.members[p][self.cls_of(a)] = a
                self.known.setdefault(a, EITHER)
            return
        if p in self.maybe:
            # membership already uncertain: stays uncertain, addresses may or may not have been merged
            for a in addrs:
                self.known.setdefault(a, EITHER)
            return
        if not addrs:
            # a peer without any address: `all([])` - added, nothing becomes known
            self.members[p] = {}
            return
        bl = [a for a in addrs if a in self.bl_addrs]
        if bl and any(a in self.known for a in addrs):
            # one of its addresses may be on record already (an address update rather than a new identity): not
            # pinned down by the statement
            self.maybe.add(p)
            for a in addrs:
                self.known.setdefault(a, EITHER)
            return
        if bl:
            # a new identity with a blacklisted address - whichever of its addresses that is - never becomes verified
            return
        self.members[p] = {}
        for a in addrs:
            self.members[p][self.cls_of(a)] = a
            # whether a member's own address is also remembered as a known address once the member has moved away
            # from it is not pinned down by the statement (owned addresses are never walkable anyway)
            self.known.setdefault(a, EITHER)

    def discover(self, p: int, addrs: list[int], a: int, s: int | None, new_style: bool) -> None:
        if a not in self.bl_addrs:
            if a not in self.known:
                self.first_intro[a] = (p, s, new_style)
                self.known[a] = YES
            elif self.known[a] == EITHER:
                self.known[a] = YES
                self.first_intro.pop(a, None)
            else:
                # known already: the record of who introduced it (and for which service) stays while that introducer is
                # a verified peer, and passes to the new introducer once the old one is gone
                fi = self.first_intro.get(a)
                if fi is not None and fi != (p, s, new_style):
                    if fi[0] in self.members:
                        pass
                    elif fi[0] in self.maybe:
                        self.first_intro.pop(a, None)
                    else:
                        self.first_intro[a] = (p, s, new_style)
        self.add(p, addrs)

    def advertise(self, p: int, services: list[int]) -> None:
        for s in services:
            self.services[(p, s)] = YES

    def _forget(self, p: int) -> None:
        for s in range(NS):
            if (p, s) in self.services:
                self.services[(p, s)] = EITHER

    def remove_peer(self, p: int, addrs: list[int]) -> None:
        for a in list(self.members.get(p, {}).values()) + list(addrs):
            if a in self.known:
                self.known[a] = EITHER
                self.first_intro.pop(a, None)
        self.members.pop(p, None)
        self.maybe.discard(p)
        self._forget(p)

    def remove_by_address(self, a: int) -> None:
        self.known.pop(a, None)
        self.first_intro.pop(a, None)
        for p in self.owners(a):
            del self.members[p]
            self._forget(p)
        for p in list(self.maybe):
            # an uncertain member that may own this address stays uncertain; its services too
            self._forget(p)


class Run:
    """
    One history executed on the real graph and the model side by side.
    """

    def __init__(self, config: dict) -> None:
        from ipv8.peerdiscovery.network import Network
        self.config = config
        self.net = Network()
        self.net.reverse_ip_cache_size, self.net.reverse_intro_cache_size, self.net.reverse_service_cache_size = \
            config["caches"]
        A = _addr_universe()
        self.net.blacklist.extend(A[a] for a in config["bl_addrs"])
        self.net.blacklist_mids.extend(_pubkeys()[p].key_to_hash() for p in config["bl_mids"])
        self.model = Model(config["bl_addrs"], config["bl_mids"])
        self.trace: list[str] = []   # q = query happened, r = removal, a = add
        self.case = None

    # -- helpers -------------------------------------------------------------------------------------
    def kidx(self, peer) -> int:
        kb = peer.public_key.key_to_bin()
        for i, k in enumerate(_pubkeys()):
            if k.key_to_bin() == kb:
                return i
        return -1

    def aidx(self, addr) -> int:
        A = _addr_universe()
        for i, a in enumerate(A):
            if tuple(a) == tuple(addr):
                return i
        return -1

    def fail(self, clause: str, site: str, msg: str) -> None:
        raise Violation(clause, site, msg, self.case)

    def graph_members(self) -> set[int]:
        return {self.kidx(p) for p in self.net.verified_peers}

    def subject(self, p: int, addrs: list[int]):
        """
        The Peer object a caller would hand in: the graph's own object when it has one, else a fresh one.
        """
        hit = self.net.get_verified_by_public_key_bin(_pubkeys()[p].key_to_bin())
        if hit is not None and not addrs:
            return hit
        return mk_peer(p, addrs)

    # -- operations ----------------------------------------------------------------------------------
    def step(self, op: list) -> None:
        try:
            self._step(op)
        except Violation:
            raise
        except Exception as e:  # noqa: BLE001 - no peer-graph operation on legal arguments may raise
            self.fail("L0", f"raises:{op[0]}", f"{op[0]} raised {type(e).__name__}: {e}")

    def _step(self, op: list) -> None:
        kind = op[0]
        A = _addr_universe()
        if kind == "add":
            _, p, addrs = op
            self.net.add_verified_peer(mk_peer(p, addrs))
            self.model.add(p, addrs)
            self.trace.append("a")
            self.check_membership("add")
        elif kind == "discover":
            _, p, addrs, a, s, ns = op
            self.net.discover_address(mk_peer(p, addrs), A[a], None if s is None else SERVICES[s], bool(ns))
            self.model.discover(p, addrs, a, s, bool(ns))
            self.trace.append("a")
            self.check_membership("discover")
        elif kind == "services":
            p, ss = op[1], op[2]
            svc = [SERVICES[s] for s in ss]
            # the parameter is annotated Iterable: a list, (4th element 1) a one-shot iterator, or (4th element 2) a
            # set object that the caller keeps and passes again for other peers with the same services
            how = op[3] if len(op) > 3 else 0
            if how == 2:
                if not hasattr(self, "caller_sets"):
                    self.caller_sets = {}
                arg = self.caller_sets.setdefault(tuple(sorted(ss)), set(svc))
                # what is advertised is what the set holds at the time of the call (whoever changed it)
                ss = sorted(SERVICES.index(x) for x in arg)
            else:
                arg = iter(svc) if how else svc
            self.net.discover_services(self.subject(p, []), arg)
            self.model.advertise(p, ss)
        elif kind == "remove_peer":
            p = op[1]
            # callers may pass the graph's own object, or any other Peer instance of the same key (peers are equal by
            # public key) - with no address or with a different one
            if len(op) > 2 and op[2] is not None:
                subj = mk_peer(p, list(op[2]))
            else:
                subj = self.subject(p, [])
            addrs = [self.aidx(a) for a in subj.addresses.values()]
            self.net.remove_peer(subj)
            self.model.remove_peer(p, [a for a in addrs if a >= 0])
            self.trace.append("r")
            # quiet: the lookups that check_removed issues are themselves operations on the caches; a quiet removal is
            # followed by whatever the history does next, and judged at the next observation
            if len(op) > 3 and op[3]:
                self.check_membership("remove_peer")
            else:
                self.check_removed([p], "remove_peer")
        elif kind == "remove_addr":
            a = op[1]
            victims = self.model.owners(a)
            self.net.remove_by_address(A[a])
            self.model.remove_by_address(a)
            self.trace.append("r")
            if len(op) > 2 and op[2]:
                self.check_membership("remove_by_address")
            else:
                self.check_removed(victims, "remove_by_address")
        elif kind == "observe":
            self.observe_checked(op[1])
            self.trace.append("q")
        elif kind == "query":
            self.single_query(op[1:])
            self.trace.append("q")
        elif kind == "snapshot":
            self.check_snapshot()
        else:
            raise AssertionError(op)

    # -- oracles -------------------------------------------------------------------------------------
    def check_membership(self, site: str) -> None:
        got = self.graph_members()
        must = set(self.model.members)
        may = must | self.model.maybe
        if not must <= got:
            self.fail("L6", site, f"peers {sorted(must - got)} must be verified after {site} but are not in "
                                  f"verified_peers {sorted(got)}")
        if not got <= may:
            extra = got - may
            clause = "L7" if extra & self.model.bl_mids or any(
                True for p in extra) and (self.model.bl_addrs or self.model.bl_mids) else "L1"
            self.fail(clause, site, f"peers {sorted(extra)} are verified but must not be (blacklists: addrs "
                                    f"{sorted(self.model.bl_addrs)} mids {sorted(self.model.bl_mids)})")

    def check_removed(self, victims: list[int], site: str) -> None:
        A = _addr_universe()
        got = self.graph_members()
        for p in victims:
            if p in got:
                self.fail("L6", site, f"peer {p} still in verified_peers after {site}")
            kb = _pubkeys()[p].key_to_bin()
            if self.net.get_verified_by_public_key_bin(kb) is not None:
                self.fail("L6", site + ":by_key", f"peer {p} still returned by public-key lookup after {site}")
            for a in range(len(A)):
                hit = self.net.get_verified_by_address(A[a])
                if hit is not None and self.kidx(hit) == p:
                    self.fail("L6", site + ":by_address", f"peer {p} still returned for address {A[a]} after {site}")
            for s in range(NS):
                if p in {self.kidx(x) for x in self.net.get_peers_for_service(SERVICES[s])}:
                    self.fail("L6", site + ":service", f"peer {p} still listed for service {s} after {site}")
        self.check_membership(site)

    def observe(self, order: int) -> tuple:
        """
        The complete observation vector, queries issued in one of several fixed orders.
        """
        A = _addr_universe()
        net = self.net
        qs = []
        for p in range(NP):
            qs.append(("key", p))
            qs.append(("intros", p))
            qs.append(("services_of", p))
        for a in range(len(A)):
            qs.append(("addr", a))
        for s in range(NS):
            qs.append(("service", s))
            qs.append(("walk", s, 0))
            qs.append(("walk", s, 1))
        qs.append(("walk", None, 0))
        if order == 1:
            qs.reverse()
        elif order == 2:
            qs.sort(key=lambda q: (q[0] != "walk", repr(q)))
        out = {}
        for q in qs:
            out[q] = self.ask(q)
        return tuple(sorted(out.items(), key=repr))

    def ask(self, q: tuple):
        A = _addr_universe()
        net = self.net
        if q[0] == "key":
            hit = net.get_verified_by_public_key_bin(_pubkeys()[q[1]].key_to_bin())
            return None if hit is None else (self.kidx(hit), hit in net.verified_peers)
        if q[0] == "addr":
            hit = net.get_verified_by_address(A[q[1]])
            return None if hit is None else (self.kidx(hit), hit in net.verified_peers,
                                            tuple(A[q[1]]) in [tuple(x) for x in hit.addresses.values()])
        if q[0] == "service":
            res = net.get_peers_for_service(SERVICES[q[1]])
            return (frozenset(self.kidx(x) for x in res), len(res))
        if q[0] == "walk":
            res = net.get_walkable_addresses(None if q[1] is None else SERVICES[q[1]], bool(q[2]))
            return (frozenset(self.aidx(x) for x in res), len(res))
        if q[0] == "intros":
            return frozenset(self.aidx(x) for x in net.get_introductions_from(mk_peer(q[1], [])))
        if q[0] == "services_of":
            return frozenset(net.get_services_for_peer(mk_peer(q[1], [])))
        raise AssertionError(q)

    def single_query(self, q: list) -> None:
        self.ask(tuple(q))

    def observe_checked(self, order: int) -> None:
        net, model = self.net, self.model
        A = _addr_universe()
        for cache, size in ((net.reverse_ip_lookup, net.reverse_ip_cache_size),
                            (net.reverse_intro_lookup, net.reverse_intro_cache_size),
                            (net.reverse_service_lookup, net.reverse_service_cache_size)):
            if len(cache) >= size:
                model.overflow = True
        obs1 = dict(self.observe(order))
        obs2 = dict(self.observe((order + 1) % 3))
        # L5 purity: asking (in any order) never changes the answer
        for q in obs1:
            if q[0] == "intros":
                # get_introductions_from is issued (it touches an LRU cache) but its own answer is not one of the
                # lookups the statement names; its staleness after a removal is therefore not judged here
                continue
            if obs1[q] != obs2[q]:
                if q[0] == "addr" and obs1[q] and obs2[q] and all(obs1[q][1:]) and all(obs2[q][1:]):
                    continue   # several verified peers own this address: the docstring allows any one of them
                self.fail("L5", q[0], f"answer to {q} changed from {obs1[q]} to {obs2[q]} merely by querying")
        members = self.graph_members()
        self.check_membership("observe")
        # L1 by-key index == membership
        for p in range(NP):
            r = obs1[("key", p)]
            if (r is not None) != (p in members):
                self.fail("L1", "by_key", f"public-key lookup of peer {p} gives {r}, verified_peers has {sorted(members)}")
            if r is not None and (r[0] != p or not r[1]):
                self.fail("L1", "by_key", f"public-key lookup of peer {p} returns a non-member object {r}")
        # L2 by-address: a member owning the address iff one exists
        owners_now = {a: {self.kidx(x) for x in net.verified_peers
                          if tuple(A[a]) in [tuple(y) for y in x.addresses.values()]} for a in range(len(A))}
        for a in range(len(A)):
            r = obs1[("addr", a)]
            if r is None:
                if owners_now[a]:
                    self.fail("L2", "by_address", f"address {A[a]} is owned by verified peers {sorted(owners_now[a])} "
                                                  f"but the lookup returns None")
            else:
                if not r[1]:
                    self.fail("L2", "by_address", f"address lookup {A[a]} returns peer {r[0]} which is not verified")
                if not r[2]:
                    self.fail("L2", "by_address:stale_owner",
                              f"address lookup {A[a]} returns peer {r[0]} which no longer owns that address")
        # L3 peers per service
        for s in range(NS):
            got, n = obs1[("service", s)]
            if n != len(got):
                self.fail("L3", "service", f"get_peers_for_service({s}) lists a peer twice")
            lo = {p for p in members if model.services.get((p, s)) == YES}
            hi = {p for p in members if model.services.get((p, s)) in (YES, EITHER)}
            if not lo <= got:
                self.fail("L3", "service", f"service {s}: verified advertisers {sorted(lo - got)} missing from {sorted(got)}")
            if not got <= hi:
                self.fail("L3", "service", f"service {s}: {sorted(got - hi)} listed but never advertised it or not verified")
            # the same answer as the other lookups: what is listed for a service lives where the public-key lookup says
            for x in net.get_peers_for_service(SERVICES[s]):
                v = net.get_verified_by_public_key_bin(x.public_key.key_to_bin())
                if v is not None and v is not x and (dict(v.addresses) != dict(x.addresses) or v.address != x.address):
                    self.fail("L3", "service:other_object",
                              f"service {s} lists peer {self.kidx(x)} at {sorted(map(tuple, x.addresses.values()))}; the "
                              f"public-key lookup knows it at {sorted(map(tuple, v.addresses.values()))}")
        # L4 walkable addresses
        owned = {a for a in range(len(A)) if owners_now[a]}
        got, n = obs1[("walk", None, 0)]
        if n != len(got):
            self.fail("L4", "walkable", "an address is listed twice")
        lo = {a for a, k in model.known.items() if k == YES} - owned
        hi = set(model.known) - owned
        if -1 in got:
            self.fail("L4", "walkable", "an address that was never told to the graph is walkable")
        if not lo <= got:
            self.fail("L4", "walkable", f"known non-member addresses {sorted(lo - got)} are not walkable: {sorted(got)}")
        if not got <= hi:
            self.fail("L4", "walkable", f"addresses {sorted(got - hi)} are walkable but are owned by a verified peer "
                                        f"or unknown")
        for s in range(NS):
            providers = obs1[("service", s)][0]
            prov_addrs = {a for a in range(len(A)) if owners_now[a] & providers}
            for old in (0, 1):
                g, _ = obs1[("walk", s, old)]
                if g & prov_addrs:
                    self.fail("L4", "walkable:service", f"service {s}: addresses {sorted(g & prov_addrs)} of verified "
                                                        f"providers are reported walkable")
                if not g <= set(model.known):
                    self.fail("L4", "walkable:service", f"service {s}: unknown addresses {sorted(g - set(model.known))}")
                must = {a for a, fi in model.first_intro.items()
                        if fi[1] == s and model.known.get(a) == YES and a not in owned and not (old and fi[2])}
                if not must <= g:
                    self.fail("L4", "walkable:service", f"service {s}: addresses {sorted(must - g)} introduced for it "
                                                        f"are missing from {sorted(g)}")
                via = {a for a, fi in model.first_intro.items()
                       if model.services.get((fi[0], s)) == YES and model.known.get(a) == YES and a not in owned
                       and not (old and fi[2])} - prov_addrs
                if not via <= g:
                    self.fail("L4", "walkable:introducer_service",
                              f"service {s}: addresses {sorted(via - g)} were introduced by a peer that advertises the "
                              f"service, but are missing from {sorted(g)}")
        # introductions (only asserted without cache pressure)
        if self.config["caches"][1] >= 500:
            for p in range(NP):
                must = {a for a, fi in model.first_intro.items() if fi[0] == p and model.known.get(a) == YES}
                if not must <= obs1[("intros", p)]:
                    self.fail("L4", "introductions", f"addresses {sorted(must - obs1[('intros', p)])} introduced by "
                                                     f"peer {p} are missing from get_introductions_from")

    def check_snapshot(self) -> None:
        from ipv8.peerdiscovery.network import Network
        fresh = Network()
        snap = self.net.snapshot()
        fresh.load_snapshot(snap)
        expect = set()
        from ipv8.messaging.interfaces.udp.endpoint import UDPv4Address, UDPv6Address
        for peer in self.net.verified_peers:
            # the preferred address, by the documented interface order (IPv6, IPv4, plain tuple), from the addresses the
            # peer currently has - not from whatever the Peer object has cached as its preferred one
            for cls in (UDPv6Address, UDPv4Address, tuple):
                adr = peer.addresses.get(cls)
                if adr is not None:
                    if tuple(adr) != ("0.0.0.0", 0):
                        expect.add(tuple(adr))
                    break
        got = {tuple(a) for a in fresh.get_walkable_addresses()}
        if got != expect:
            self.fail("L8", "snapshot", f"snapshot of members with preferred addresses {sorted(expect)} reloads to "
                                        f"walkable {sorted(got)}")
        if fresh.verified_peers:
            self.fail("L8", "snapshot", "loading a snapshot created verified peers")


def nontrivial(run: Run) -> bool:
    t = "".join(run.trace)
    i = t.find("q")
    if i >= 0:
        j = t.find("r", i)
        if j >= 0 and (t.find("q", j) >= 0 or t.find("a", j) >= 0):
            return True
    return run.model.overflow


def execute(ctx: Ctx | None, config: dict, ops: list, final_order: int = 0) -> Run:
    run = Run(config)
    run.case = {"config": config, "ops": ops}
    for op in ops:
        run.step(op)
    run.step(["observe", final_order])
    run.trace.append("q")
    run.step(["snapshot"])
    if ctx is not None:
        ctx.case(run.case, nontrivial(run), cls="len%02d" % min(len(ops), 99) if len(ops) < 10 else "len10+")
    return run


# ---- bounded-exhaustive part -------------------------------------------------------------------------

ALPHABET = [
    ["add", 0, [0]], ["add", 1, [1]], ["add", 0, [2]], ["add", 1, [0, 3]],
    ["discover", 0, [0], 1, 0, 0], ["discover", 1, [1], 2, None, 1],
    ["services", 0, [0]], ["services", 1, [0]],
    ["remove_peer", 0], ["remove_peer", 1, []], ["remove_addr", 0], ["remove_addr", 1],
    ["observe", 0], ["observe", 1],
]
EX_CONFIGS = [
    {"caches": [500, 500, 500], "bl_addrs": [], "bl_mids": []},
    {"caches": [1, 1, 1], "bl_addrs": [], "bl_mids": []},
]


def _exhaustive_shard(ctx: Ctx, shard: int, nshards: int, depth: int) -> None:
    n = len(ALPHABET)
    for d in range(1, depth + 1):
        for k, word in enumerate(itertools.product(range(n), repeat=d)):
            if k % nshards != shard:
                continue
            # observing twice in a row or ending on an observe adds nothing: the run always ends with one
            if word[-1] >= 12:
                continue
            ops = [ALPHABET[i] for i in word]
            for config in EX_CONFIGS:
                try:
                    execute(ctx, config, ops, final_order=k % 3)
                except Violation as v:
                    ctx.violation(v)
    ctx.note("exhaustive_depth", depth)


# a second, focused alphabet: one peer, one service, removals that are not followed by the oracle's own lookups
FOCUS = [
    ["add", 0, [0]], ["add", 0, [2]], ["services", 0, [0]], ["query", "service", 0], ["query", "walk", 0, 0],
    ["remove_peer", 0, None, 1], ["remove_addr", 0, 1], ["add", 1, [0]], ["services", 0, [0], 1],
]


# a third one: two peers advertise through set objects the caller keeps (and passes again), then one advertises more
SHARED = [
    ["services", 0, [0], 2], ["services", 1, [0], 2], ["services", 0, [1], 2], ["services", 1, [1]],
    ["add", 0, [0]], ["add", 1, [1]], ["discover", 0, [0], 2, 0, 0], ["remove_peer", 0], ["observe", 0],
]


def _shared_shard(ctx: Ctx, shard: int, nshards: int, depth: int) -> None:
    n = len(SHARED)
    k = 0
    for d in range(2, depth + 1):
        for word in itertools.product(range(n), repeat=d):
            if any(word[i] == word[i + 1] for i in range(d - 1)) or word[-1] == n - 1 or \
                    not any(w in (0, 1, 2) for w in word):
                continue
            k += 1
            if k % nshards != shard:
                continue
            for config in EX_CONFIGS:
                try:
                    execute(ctx, config, [SHARED[i] for i in word], final_order=k % 3)
                except Violation as v:
                    ctx.violation(v)
    ctx.note("shared_depth", depth)


def _focus_shard(ctx: Ctx, shard: int, nshards: int, depth: int) -> None:
    n = len(FOCUS)
    k = 0
    for d in range(2, depth + 1):
        for word in itertools.product(range(n), repeat=d):
            if word[0] > 1 or any(word[i] == word[i + 1] for i in range(d - 1)):
                continue
            k += 1
            if k % nshards != shard:
                continue
            try:
                execute(ctx, EX_CONFIGS[0], [FOCUS[i] for i in word], final_order=k % 3)
            except Violation as v:
                ctx.violation(v)
    ctx.note("focus_depth", depth)


# ---- Hypothesis part ---------------------------------------------------------------------------------

def _strategies():
    from hypothesis import strategies as st
    NA = len(_addr_universe())
    peer = st.integers(0, NP - 1)
    addr = st.integers(0, NA - 1)
    addrs = st.lists(addr, max_size=3, unique_by=lambda a: _addr_universe()[a].__class__)
    addrs1 = st.lists(addr, min_size=1, max_size=3, unique_by=lambda a: _addr_universe()[a].__class__)
    svc = st.integers(0, NS - 1)
    q = st.one_of(
        st.tuples(st.just("key"), peer), st.tuples(st.just("addr"), addr), st.tuples(st.just("service"), svc),
        st.tuples(st.just("walk"), st.one_of(st.none(), svc), st.integers(0, 1)),
        st.tuples(st.just("intros"), peer)).map(lambda t: ["query", *t])
    op = st.one_of(
        st.tuples(st.just("add"), peer, addrs).map(list),
        st.tuples(st.just("add"), peer, addrs1).map(list),
        st.tuples(st.just("discover"), peer, addrs1, addr, st.one_of(st.none(), svc), st.integers(0, 1)).map(list),
        st.tuples(st.just("services"), peer, st.lists(svc, min_size=1, max_size=2, unique=True)).map(list),
        st.tuples(st.just("services"), peer, st.lists(svc, min_size=1, max_size=2, unique=True), st.just(1)).map(list),
        st.tuples(st.just("services"), peer, st.lists(svc, min_size=1, max_size=2, unique=True), st.just(2)).map(list),
        st.tuples(st.just("remove_peer"), peer).map(list),
        st.tuples(st.just("remove_peer"), peer, addrs).map(list),
        st.tuples(st.just("remove_peer"), peer, st.none() | addrs, st.just(1)).map(list),
        st.tuples(st.just("remove_addr"), addr).map(list),
        st.tuples(st.just("remove_addr"), addr, st.just(1)).map(list),
        st.tuples(st.just("observe"), st.integers(0, 2)).map(list),
        q, q,
        st.just(["snapshot"]),
    )
    config = st.fixed_dictionaries({
        "caches": st.lists(st.sampled_from([1, 2, 500]), min_size=3, max_size=3),
        "bl_addrs": st.lists(addr, max_size=2, unique=True),
        "bl_mids": st.lists(peer, max_size=1, unique=True),
    })
    config = st.one_of(config, st.just(EX_CONFIGS[0]), st.just(EX_CONFIGS[1]))
    return st.tuples(config, st.lists(op, max_size=200), st.integers(0, 2))


def _random_shard(ctx: Ctx, shard: int, nshards: int, n: int) -> None:
    def body(x):
        config, ops, order = x
        execute(ctx, config, ops, order)
    hyp_run(ctx, "histories", _strategies(), body, n)


def run(ctx: Ctx) -> None:
    depth = 4 if ctx.quick else 5
    if not ctx.quick and ctx.tier == "thorough":
        depth = 6
    shard_run(ctx, _exhaustive_shard, extra=(depth,))
    shard_run(ctx, _focus_shard, extra=(6 if ctx.quick else 7,))
    shard_run(ctx, _shared_shard, extra=(5 if ctx.quick else 6,))
    shard_run(ctx, _random_shard, extra=(1500 if ctx.quick else 20000,))
    ctx.note("alphabet", ALPHABET)


def replay(ctx: Ctx, case: dict) -> None:
    execute(None, case["config"], case["ops"])
    execute(None, case["config"], case["ops"], 1)
    execute(None, case["config"], case["ops"], 2)
