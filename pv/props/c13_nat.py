"""
C13 - introduced peers behind cone NATs become mutually reachable.

Real ``Community`` overlays (a minimal concrete subclass) run on ``pv.nodes.Node``s attached to a ``pv.simnet.SimNet``
with ``NatBox``es that enforce endpoint-independent mapping, full-cone / address-restricted / port-restricted
filtering, LAN segments (hosts behind one box talk over their private addresses), unroutable private addresses and
no hair-pinning. Requester A, introducer I (public) and 1..5 candidates (the configured peer B plus fillers) first
learn their WAN address through a real walk to I. Then A asks I for an introduction; the check (not the network)
delivers every datagram one at a time in a Hypothesis-drawn order, may let A walk early, and finally lets A walk to
every address it considers walkable, in a drawn order.

The oracle reads the simulator's ground truth (who sent what to which address, what a NAT dropped, which host got
it) plus ``get_peers()`` on both sides; the few payload fields it needs (identifier, introduced addresses, walker
addresses) are decoded by a small decoder written from the payload docstrings, not by the serializer under test.

Happens-before rule (DESIGN C13/N2): only walks that A issues after the introduced peer's puncture has left that
peer's NAT are required to get through; an earlier walk may legitimately be filtered.
"""
from __future__ import annotations

import itertools
import random
import socket
import struct

from .. import keypool  # noqa: F401  (identities come from the pool through pv.nodes)
from ..core import Ctx, HarnessError, Violation, hyp_run, shard_run

PID = "C13"
LEVEL = "exploration"
EXHAUSTIVE = False
RULE = ("configuration product enumerated completely: NAT kind of requester A x NAT kind of introduced peer B "
        "(none/full/addr/port) in different-NAT placement (16) + both behind one NAT box (3) = 19 placements x "
        "old-style (walk_to -> msg 246/245/250/249) / new-style (send_introduction_request -> 234/233/232/231) request "
        "x B known to the introducer as old-/new-style x 1..5 candidates at the introducer (B + fillers that are "
        "public, behind an own NAT, behind A's NAT or behind B's NAT) = 380 configurations; per configuration one FIFO "
        "schedule and N Hypothesis-drawn cases (N = 20 quick / 400 thorough): filler placements, seed of the "
        "introducer's random choice, 1..3 introduction rounds, delivery order of every datagram (puncture-request, "
        "puncture, introduction-response, walks, answers) one at a time, up to 2 early walks, order of the final "
        "walks. Whoever the introducer really introduces is judged with its own ground-truth placement. Non-trivial = "
        "the introduced peer was not yet connected to A and (A or it is behind an address-/port-restricted NAT, or "
        "both share a NAT box); distinct = digest of the whole case.")
ASSUMPTIONS = [
    "the NAT model of pv.simnet.NatBox: endpoint-independent mapping, cone filtering (full / address-restricted / "
    "port-restricted), direct delivery between hosts of one box over private addresses, private addresses unroutable "
    "from outside, no hair-pinning; symmetric NATs and multi-level NATs are outside the statement; the network outside the "
    "boxes is numbered publicly or (outer 1/2) from 10/8 resp. 172.16/12 - still one NAT level per host",
    "the same-host branch (address_is_lan, which inspects the real machine's interfaces) is not exercised: LAN address "
    "providers are emptied by the virtual loop",
    "no datagram loss, duplication or reordering beyond the drawn delivery order; no peer churn; A's walks are issued "
    "by the check through walk_to, or (walker > 0) by the stock RandomWalk strategy stepped by the check, which then "
    "keeps stepping for 5 virtual seconds after the exchange (walker 2: the introduced peer has sent A an "
    "introduction request of its own) - both must still be each other's verified peers",
    "where B's puncture goes when A and B share a WAN IP is not judged (LAN traffic needs no filter entry): the pinned "
    "tree sends it to the introducer's address, counted as class puncture_same_nat:*",
    "the hand-written field decoder for messages 245/233/250/232 (layout from payload.py docstrings and format lists)",
]

KINDS = ["none", "full", "addr", "port"]
ZERO = ("0.0.0.0", 0)
INTRO_REQ, INTRO_RESP, PUNCT_REQ, PUNCT = (246, 234), (245, 233), (250, 232), (249, 231)
I_ADDR = ("1.0.0.1", 8000)
COMMUNITY_ID = b"pv-c13-nat-overlay\x13\x01"
assert len(COMMUNITY_ID) == 20

_CLS = None


def overlay_class():
    """
    The minimal concrete Community (created lazily: ipv8 is importable only after prepare_repo_path()).
    """
    global _CLS
    if _CLS is None:
        from ipv8.community import Community

        class NatProbeCommunity(Community):
            community_id = COMMUNITY_ID

        _CLS = NatProbeCommunity
    return _CLS


# ---- independent field decoder -----------------------------------------------------------------------

def _ipv4(data: bytes, off: int) -> tuple[tuple, int]:
    host, port = struct.unpack_from(">4sH", data, off)
    return (socket.inet_ntoa(host), port), off + 6


def _ip_address(data: bytes, off: int) -> tuple[tuple, int]:
    if data[off] == 3:
        host, port = struct.unpack_from(">16sH", data, off + 1)
        return (socket.inet_ntop(socket.AF_INET6, host), port), off + 19
    if data[off] != 1:
        raise ValueError("address type %d is neither IPv4 nor IPv6" % data[off])
    return _ipv4(data, off + 1)


def decode(data: bytes) -> dict:
    """
    The fields of introduction-response / puncture-request datagrams the oracle needs.
    Layout: 22-byte prefix, message id, [2-byte length + public key when signed], 8-byte global time, payload.
    """
    mid = data[22]
    off = 23
    if mid in INTRO_RESP:
        klen, = struct.unpack_from(">H", data, off)
        off += 2 + klen
    off += 8
    rd = _ipv4 if mid in (245, 250) else _ip_address
    out: dict = {"mid": mid}
    if mid in INTRO_RESP:
        names = ["destination", "source_lan", "source_wan", "lan_intro", "wan_intro"]
    elif mid in PUNCT_REQ:
        names = ["lan_walker", "wan_walker"]
    else:
        raise ValueError(mid)
    for n in names:
        out[n], off = rd(data, off)
    if mid == 245:
        off += 1   # flag byte precedes the identifier in the old layout
    out["identifier"], = struct.unpack_from(">H", data, off)
    return out


def safe_decode(data: bytes) -> dict:
    try:
        return decode(data)
    except (ValueError, struct.error, IndexError) as e:
        raise HarnessError(f"field decoder cannot read message {data[22]}: {e!r}") from e


# ---- scenario ------------------------------------------------------------------------------------------

class Picks:
    """
    The drawn schedule: consumed one number per decision, FIFO (0) once exhausted.
    """

    def __init__(self, picks: list[int]) -> None:
        self.picks = list(picks)
        self.i = 0

    def next(self, n: int) -> int:
        if n <= 1:
            return 0
        v = self.picks[self.i] if self.i < len(self.picks) else 0
        self.i += 1
        return v % n


class Scenario:
    def __init__(self, case: dict, loop) -> None:
        from pv import nodes, simnet
        self.case = case
        self.net = net = simnet.SimNet(loop, auto=False)
        self.boxes: dict[str, simnet.NatBox] = {}
        self.all: list = []
        self.hist: list[str] = []
        self.pr_requester: dict[int, tuple] = {}      # puncture-request flight seq -> (requesting node, introducer)
        self.events: list[dict] = []
        self.picks = Picks(case["picks"])
        self.rw = None
        cls = overlay_class()

        def box(name: str, ip: str, kind: str):
            if name not in self.boxes:
                # pool: the box has a second external address and spreads its hosts over both (carrier / multi-WAN NAT)
                pool = (ip.rsplit(".", 1)[0] + ".77",) if case.get("pool") else ()
                self.boxes[name] = simnet.NatBox(net, ip, kind, pool=pool)
                net.add_nat(self.boxes[name])
            return self.boxes[name]

        def mk(idx: int, name: str, pub: tuple, priv: tuple, boxname: str | None, ip: str = "", kind: str = ""):
            if boxname is None:
                n = nodes.Node(net, idx, address=pub)
            else:
                n = nodes.Node(net, idx, address=priv)
                net.put_behind(n.raw_endpoint, box(boxname, ip, kind))
            n.name = name
            n.add(cls)
            if case.get("disc"):
                # a second overlay on the same endpoint and peer graph, as in the default configuration
                from ipv8.peerdiscovery.community import DiscoveryCommunity
                d = n.add(DiscoveryCommunity)
                d.my_estimated_lan = n.address
                d.my_estimated_wan = n.address
            # production start-up state: the WAN estimate starts out as the LAN estimate (the host's own address)
            n.overlay.my_estimated_lan = n.address
            n.overlay.my_estimated_wan = n.address
            if case.get("clock"):
                # a node that has been up for a while: its Lamport clock (one tick per message it ever created, shared by
                # all overlays on the key) is beyond what the 16-bit request identifiers can hold
                n.overlay.update_global_time([0, 65534, 65535, 65536, 70000, 2 ** 32 + 5][case["clock"]] + idx)
            self.all.append(n)
            return n

        nat_a, nat_b, place = case["natA"], case["natB"], case["place"]
        # outer: how the network outside the NAT boxes is numbered. 0: public addresses; 1 / 2: the outside addresses of the
        # boxes lie in 10/8 resp. 172.16/12 (an internetwork numbered from private space; the boxes are still one level)
        ext_a, ext_b = {0: ("2.0.0.1", "3.0.0.1"), 1: ("10.64.0.1", "10.65.0.1"),
                        2: ("172.20.0.1", "172.21.0.1")}[case.get("outer", 0)]
        self.I = mk(0, "I", I_ADDR, I_ADDR, None)
        self.A = mk(1, "A", ("2.0.0.1", 6001), ("192.168.1.10", 6001), None if nat_a == "none" else "A", ext_a,
                    nat_a)
        if place == "same":
            if nat_a == "none" or nat_b != nat_a:
                raise HarnessError(f"bad configuration {case}")
            self.B = mk(2, "B", ZERO, ("192.168.1.20", 6002), "A", ext_a, nat_a)
            b_box = "A"
        else:
            b_box = None if nat_b == "none" else "B"
            # alike: both home networks are numbered identically (same private address and port behind each router)
            b_priv = ("192.168.1.10", 6001) if case.get("alike") and nat_a != "none" else ("192.168.2.20", 6002)
            self.B = mk(2, "B", ("3.0.0.1", 6002), b_priv, b_box, ext_b, nat_b)
        a_box = None if nat_a == "none" else "A"
        self.fillers = []
        for j, (where, new) in enumerate(case["fillers"]):
            idx = 3 + j
            pub = (f"4.0.{j}.1", 6100 + j)
            if where == "withA" and a_box:
                f = mk(idx, f"F{j}", pub, ("192.168.1.%d" % (30 + j), 6100 + j), a_box)
            elif where == "withB" and b_box:
                prefix = "192.168.1." if b_box == "A" else "192.168.2."
                f = mk(idx, f"F{j}", pub, (prefix + str(40 + j), 6100 + j), b_box)
            elif where.startswith("own:"):
                f = mk(idx, f"F{j}", pub, ("192.168.%d.5" % (10 + j), 6100 + j), f"F{j}", f"5.0.{j}.1", where[4:])
            else:
                f = mk(idx, f"F{j}", pub, pub, None)
            f.new = bool(new)
            self.fillers.append(f)
        self.B.new = bool(case["b_new"])

    # -- ground truth ------------------------------------------------------------------------------------
    def box_of(self, n):
        return self.net.box_of(n.raw_endpoint)

    def pub(self, n) -> tuple:
        b = self.box_of(n)
        if b is None:
            return n.address
        return b.map_out.get(n.address)

    def same_box(self, a, b) -> bool:
        ba = self.box_of(a)
        return ba is not None and ba is self.box_of(b)

    def kind(self, n) -> str:
        b = self.box_of(n)
        return "none" if b is None else b.kind

    def node_of(self, origin):
        for n in self.all:
            if n.raw_endpoint is origin:
                return n
        return None

    def is_peer(self, a, b) -> bool:
        kb = b.my_peer.public_key.key_to_bin()
        return any(p.public_key.key_to_bin() == kb for p in a.overlay.get_peers())

    @staticmethod
    def mid(fl) -> int:
        return fl.data[22] if len(fl.data) > 22 and fl.data[1:22] == (b"\x02" + COMMUNITY_ID) else -1

    def fail(self, clause: str, site: str, msg: str) -> None:
        raise Violation(clause, site, msg, self.case)

    # -- delivery with the per-message clauses of N1 --------------------------------------------------------
    def deliver(self, fl) -> object | None:
        """
        Deliver one flight; returns the node that got it (None: filtered / unroutable). Applies N1 to what the
        receiver sends while handling it.
        """
        net = self.net
        counts = [len(n.raw_endpoint.received) for n in self.all]
        mark = len(net.log)
        net.deliver(fl)
        rcv = None
        for n, c in zip(self.all, counts):
            if len(n.raw_endpoint.received) > c:
                rcv = n
        emitted = net.log[mark:]
        sender = self.node_of(fl.origin)
        mid = self.mid(fl)
        self.events.append({"seq": fl.seq, "mid": mid, "from": getattr(sender, "name", "?"), "dst": fl.dst,
                            "to": getattr(rcv, "name", None)})
        if rcv is None:
            return None
        if mid in INTRO_REQ and sender is not None:
            resp = [f for f in emitted if self.mid(f) in INTRO_RESP]
            if not resp and any(self.mid(f) in PUNCT_REQ for f in emitted):
                self.fail("N1", "response", f"{rcv.name} asked a third peer to puncture towards {sender.name} "
                                            f"(puncture-request to {[f.dst for f in emitted if self.mid(f) in PUNCT_REQ]}) "
                                            f"but sent {sender.name} no introduction response")
            if resp:
                d = safe_decode(resp[0].data)
                if d["lan_intro"] != ZERO or d["wan_intro"] != ZERO:
                    prs = [f for f in emitted if self.mid(f) in PUNCT_REQ
                           and safe_decode(f.data)["identifier"] == d["identifier"]]
                    if not prs:
                        self.fail("N1", "puncture-request",
                                  f"{rcv.name} answered {sender.name}'s introduction request by introducing "
                                  f"lan={d['lan_intro']} wan={d['wan_intro']} but sent no puncture-request for it "
                                  f"(sent: {[self.mid(f) for f in emitted]})")
                    for f in prs:
                        self.pr_requester[f.seq] = (sender, rcv)
                        pd = safe_decode(f.data)
                        mine = {self.pub(sender), sender.address}
                        if pd["wan_walker"] not in mine and pd["lan_walker"] not in mine:
                            self.fail("N1", "puncture-request",
                                      f"{rcv.name}'s puncture-request names lan={pd['lan_walker']} wan="
                                      f"{pd['wan_walker']}, neither is an address of the requester {sender.name} "
                                      f"({sorted(mine)})")
        if mid in PUNCT_REQ and fl.seq in self.pr_requester:
            req, introducer = self.pr_requester[fl.seq]
            puncts = [f for f in emitted if self.mid(f) in PUNCT]
            if not puncts:
                self.fail("N1", "puncture", f"{rcv.name} got a puncture-request for {req.name} and sent no puncture")
            # the statement quantifies over a public introducer (one that sees the requester's WAN address)
            if req is not rcv and self.box_of(introducer) is None:
                if not self.same_box(req, rcv):
                    if not any(f.dst == self.pub(req) for f in puncts):
                        self.fail("N1", "puncture-target",
                                  f"{rcv.name} ({self.kind(rcv)}) punctured towards {[f.dst for f in puncts]}; the "
                                  f"filter entry that lets {req.name} in needs {self.pub(req)}")
                else:
                    dst = puncts[0].dst
                    where = ("requester_lan" if dst == req.address else "requester_wan" if dst == self.pub(req)
                             else "introducer" if dst == self.I.address else "other")
                    self.hist.append("puncture_same_nat:" + where)
        return rcv

    def drain_fifo(self) -> None:
        for _ in range(10000):
            if not self.net.inflight:
                return
            self.deliver(self.net.inflight[0])
        raise HarnessError("network does not settle")

    # -- phases ------------------------------------------------------------------------------------------------
    def peer_at(self, owner, other):
        kb = other.my_peer.public_key.key_to_bin()
        for p in owner.overlay.get_peers():
            if p.public_key.key_to_bin() == kb:
                return p
        raise HarnessError(f"{owner.name} does not know {other.name} after the set-up walk")

    def setup(self) -> None:
        from ipv8.messaging.interfaces.udp.endpoint import UDPv4Address
        random.seed(self.case["rseed"])
        target = UDPv4Address(*self.I.address)
        # A first (nobody to be introduced to yet), B last (its NAT has then only ever contacted I)
        new_only = self.case["rseed"] % 2 == 1
        for n in [self.A, *self.fillers, self.B]:
            if n is not self.A and n.new and new_only:
                # a node whose ONLY contact with the introducer is a new-style request (built with the public API)
                n.overlay.endpoint.send(target, n.overlay.create_introduction_request(target, new_style=True))
                self.drain_fifo()
                continue
            n.overlay.walk_to(target)
            self.drain_fifo()
            if n is not self.A and n.new:
                n.overlay.send_introduction_request(self.peer_at(n, self.I))
                self.drain_fifo()
        if self.case.get("disc"):
            # afterwards every candidate also contacts the introducer in the discovery overlay (which registers the
            # same key with a fresh Peer object that knows the source address only)
            for n in [*self.fillers, self.B]:
                n.overlays[1].walk_to(target)
                self.drain_fifo()
        for n in [self.A, *self.fillers, self.B]:
            if not self.is_peer(self.I, n) or not self.is_peer(n, self.I):
                raise HarnessError(f"set-up walk of {n.name} to the introducer did not connect them")
        if self.case.get("stale"):
            # an earlier session: the candidates verified A when it still lived at another port (before its restart / its
            # NAT's new mapping). The introducer has no such record; the old address answers nobody.
            from ipv8.peer import Peer
            pub_a = self.pub(self.A)
            old = (pub_a[0], 19000 + self.case["stale"])
            for n in [*self.fillers, self.B]:
                ghost = Peer(self.A.my_peer.public_key.key_to_bin(), UDPv4Address(*old))
                n.network.add_verified_peer(ghost)
                n.network.discover_services(ghost, [n.overlay.community_id])
            self.hist.append("stale_record_of_requester")
        dual = self.case.get("dual", 0) if self.case["style"] == "old" and self.case["rounds"] == 1 else 0
        if dual:
            # the introducer has also heard from some candidates over IPv6 (dual-stack peers: IPv6 is then their
            # preferred address, which an IPv4-only / old-style answer cannot carry)
            from ipv8.messaging.interfaces.udp.endpoint import UDPv6Address
            from ipv8.peer import Peer
            for j, n in enumerate([*self.fillers, self.B][:1 if dual == 1 else None]):
                self.I.network.add_verified_peer(Peer(n.my_peer.public_key.key_to_bin(),
                                                      UDPv6Address("2001:db8::%x" % (j + 1), 7000 + j)))
            self.hist.append("dual_stack_candidates:%d" % dual)
            # (an outside address from private space is never taken for the own WAN address: nothing to learn then)
            if not self.case.get("outer") and tuple(n.overlay.my_estimated_wan) != tuple(self.pub(n)):
                raise HarnessError(f"{n.name} did not learn its WAN address: {n.overlay.my_estimated_wan} vs {self.pub(n)}")

    def round(self, rno: int) -> dict:
        """
        One introduction under a drawn schedule. Returns a summary for the case accounting.
        """
        from ipv8.messaging.interfaces.udp.endpoint import UDPv4Address
        net, A, I = self.net, self.A, self.I
        if net.inflight:
            raise HarnessError("flights left over before the round")
        connected_before = {n.name for n in self.all if n is not A and self.is_peer(A, n)}
        mark = len(net.log)
        if self.case["style"] == "new":
            A.overlay.send_introduction_request(self.peer_at(A, I))
        else:
            A.overlay.walk_to(UDPv4Address(*I.address))
        reqs = net.log[mark:]
        # (a later old-style round may turn new-style by itself: the introduced peer can re-introduce I as new-style)
        if len(reqs) != 1 or self.mid(reqs[0]) not in INTRO_REQ or (
                rno == 0 and self.mid(reqs[0]) != (234 if self.case["style"] == "new" else 246)):
            raise HarnessError(f"unexpected request flights {[self.mid(f) for f in reqs]} for style {self.case['style']}")
        self.hist.append("request_msg:%d" % self.mid(reqs[0]))
        m2 = len(net.log)
        if self.deliver(reqs[0]) is not I:
            raise HarnessError("A's introduction request did not reach the public introducer")
        emitted = net.log[m2:]
        irs = [f for f in emitted if self.mid(f) in INTRO_RESP]
        if not irs:
            self.drain_fifo()
            return {"what": "no_response", "nontrivial": False}
        ir = safe_decode(irs[0].data)
        handed = [a for a in (ir["lan_intro"], ir["wan_intro"]) if a != ZERO]
        if not handed:
            self.drain_fifo()
            return {"what": "no_introduction", "nontrivial": False}
        prs = [f for f in emitted if self.mid(f) in PUNCT_REQ and f.seq in self.pr_requester]
        pr = prs[0]                    # exists: deliver() has applied N1 to this answer

        X = None
        punct_seq = None
        early_left = self.case["early"]
        walks: list = []               # A's walk flights of this round
        walk_mark = len(net.log)

        def collect_walks() -> None:
            nonlocal walk_mark
            for f in net.log[walk_mark:]:
                if f.origin is A.raw_endpoint and self.mid(f) in INTRO_REQ:
                    walks.append(f)
            walk_mark = len(net.log)

        got: dict[int, object] = {}    # flight seq -> receiving node

        def step(allow_early: bool) -> bool:
            nonlocal X, punct_seq, early_left
            flights = sorted(net.inflight, key=lambda f: f.seq)
            walkable = sorted(tuple(a) for a in A.overlay.get_walkable_addresses()) if allow_early and early_left else []
            n = len(flights) + (1 if walkable else 0)
            if n == 0:
                return False
            k = self.picks.next(n)
            if walkable:
                k -= 1                 # the early walk is action 0 while it is available
            if k >= 0:
                fl = flights[k]
                m = len(net.log)
                rcv = self.deliver(fl)
                got[fl.seq] = rcv
                if fl is pr:
                    if rcv is None or rcv is A or rcv is I:
                        self.fail("N1", "puncture-request",
                                  f"the puncture-request for the introduction {handed} went to {fl.dst}, where "
                                  f"{'nobody' if rcv is None else rcv.name} received it")
                    X = rcv
                    ps = [f for f in net.log[m:] if self.mid(f) in PUNCT]
                    punct_seq = ps[0].seq
            else:
                early_left -= 1
                addr = walkable[self.picks.next(len(walkable))]
                A.overlay.walk_to(UDPv4Address(*addr))
            collect_walks()
            return True

        for _ in range(2000):
            if not step(True):
                break
        else:
            raise HarnessError("schedule does not terminate")
        if X is None:
            raise HarnessError("puncture-request was never scheduled")
        # final walks: every address A considers walkable, in the drawn order
        walkable = sorted(tuple(a) for a in A.overlay.get_walkable_addresses())
        perms = list(itertools.islice(itertools.permutations(range(len(walkable))), 24))
        order = perms[self.case["order"] % len(perms)] if walkable else ()
        if self.case.get("walker"):
            # A's contact attempts are made by the stock RandomWalk strategy (it remembers what it walked to)
            if self.rw is None:
                from ipv8.peerdiscovery.discovery import RandomWalk
                self.rw = RandomWalk(A.overlay, timeout=3.0, window_size=0, reset_chance=0)
            for _ in range(4 * len(walkable)):
                if not set(map(tuple, A.overlay.get_walkable_addresses())) - set(map(tuple, self.rw.intro_timeouts)):
                    break
                self.rw.take_step()
        else:
            for i in order:
                A.overlay.walk_to(UDPv4Address(*walkable[i]))
        collect_walks()
        lose = bool(self.case.get("lose_first")) and rno == 0 and self.case.get("walker") and not self.fillers \
            and X.name not in connected_before
        if lose:
            # every contact attempt of this round is lost on the way (one unlucky moment); judged is what follows
            for fl in list(net.inflight):
                if fl in walks:
                    net.drop(fl)
        for _ in range(2000):
            if not step(False):
                break
        else:
            raise HarnessError("schedule does not terminate")
        if lose:
            return {"what": "lost_on_purpose", "nontrivial": True, "X_node": X, "lost": True,
                    "desc": f"A[{self.kind(A)}] -> {X.name}[{self.kind(X)}], {self.case['style']}-style",
                    "clause": "N3" if self.same_box(A, X) else "N2"}

        # ---- N2 / N3 ----------------------------------------------------------------------------------------
        same = self.same_box(A, X)
        clause = "N3" if same else "N2"
        restricted = self.kind(A) in ("addr", "port") or self.kind(X) in ("addr", "port")
        summary = {"what": "introduced", "X": X.name, "kindX": self.kind(X), "same": same,
                   "nontrivial": (restricted or same) and X.name not in connected_before,
                   "early_dropped": 0}
        if X.name in connected_before:
            summary["what"] = "already_connected"
            return summary
        x_addr = X.address if same else self.pub(X)     # the only address of X that is reachable from A
        a_addr = A.address if same else self.pub(A)
        desc = (f"A[{self.kind(A)}] -> {X.name}[{self.kind(X)}], {'same NAT' if same else 'different NATs'}, "
                f"{self.case['style']}-style, handed out {handed}")
        required = [w for w in walks if w.seq > punct_seq]
        summary["early_dropped"] = sum(1 for w in walks if w.seq < punct_seq and got.get(w.seq) is not X
                                       and w.dst == x_addr)
        if x_addr not in handed:
            self.fail(clause, "addresses", f"{desc}: none of the addresses handed out is the one that works "
                                           f"({'LAN' if same else 'WAN'} address {x_addr})")
        to_x = [w for w in required if w.dst == x_addr]
        if not to_x and not any(got.get(w.seq) is X for w in walks):
            self.fail(clause, "walk", f"{desc}: A never walked to {x_addr} after the introduction; it walked to "
                                      f"{[w.dst for w in walks]}")
        if not any(got.get(w.seq) is X for w in walks):
            box = self.box_of(X)
            dropped = [(f.src, f.dst) for f in (box.dropped if box else []) if f in walks]
            self.fail(clause, "walk", f"{desc}: the puncture left {X.name}'s NAT (seq {punct_seq}) yet none of A's "
                                      f"later walks {[(w.seq, w.dst) for w in required]} reached {X.name}; filtered "
                                      f"at its NAT: {dropped}")
        mine = [e for e in self.events if e["seq"] > reqs[0].seq and e["from"] == X.name and e["mid"] in INTRO_RESP]
        answers = [e for e in mine if e["to"] == "A"]
        if not answers:
            lost = mine
            self.fail(clause, "response", f"{desc}: {X.name}'s introduction-response did not come back to A "
                                          f"(sent to {[e['dst'] for e in lost]}, expected {a_addr})")
        if same and (answers[0]["dst"] != A.address or not any(got.get(w.seq) is X and w.dst == X.address
                                                                for w in walks)):
            self.fail("N3", "lan", f"{desc}: the exchange did not run over the LAN addresses")
        if not self.is_peer(A, X):
            self.fail(clause, "peers", f"{desc}: {X.name} is not in A.get_peers() after the exchange")
        if not self.is_peer(X, A):
            self.fail(clause, "peers", f"{desc}: A is not in {X.name}.get_peers() after the exchange")
        summary["X_node"], summary["desc"], summary["clause"] = X, desc, clause
        return summary

    async def aftermath(self, summary: dict) -> None:
        """
        "... so both END UP as verified peers of each other": the introduced peer contacts its new peer A in turn (what
        its own walk does), A's walker keeps stepping while its unanswered probes time out. Both must still be each
        other's verified peers afterwards.
        """
        import asyncio
        X, A = summary.pop("X_node", None), self.A
        if X is None or not self.case.get("walker") or self.rw is None:
            return
        if summary.pop("lost", False):
            # A's attempts were lost. Its walker gives up on the silent addresses (3 s), asks again, is introduced to the
            # only candidate again and contacts it: within 15 virtual seconds both are each other's verified peers
            for _ in range(30):
                await asyncio.sleep(0.5)
                self.rw.take_step()
                self.drain_fifo()
                if self.is_peer(A, X) and self.is_peer(X, A):
                    break
            self.hist.append("aftermath:lost_then_retried")
            if not (self.is_peer(A, X) and self.is_peer(X, A)):
                self.fail(summary["clause"], "reintroduction",
                          f"{summary['desc']}: the first contact attempts were lost; 15 s of walking later (the introducer "
                          f"has only this candidate) A walkable={sorted(tuple(a) for a in A.overlay.get_walkable_addresses())}, "
                          f"{X.name} in A.get_peers(): {self.is_peer(A, X)}, A in {X.name}.get_peers(): {self.is_peer(X, A)}")
            return
        if self.case["walker"] > 1:
            X.overlay.send_introduction_request(self.peer_at(X, A))
            self.drain_fifo()
        def both(when: str) -> None:
            for a, b in ((A, X), (X, A)):
                if not self.is_peer(a, b):
                    self.fail(summary["clause"], "peers:kept",
                              f"{summary['desc']}: both were verified peers of each other after the exchange; {when} (A's "
                              f"walker kept stepping{', ' + X.name + ' had sent A a request of its own' if self.case['walker'] > 1 else ''}"
                              f") {b.name} is no longer in {a.name}.get_peers()")
        for k in range(10):
            await asyncio.sleep(0.5)
            self.rw.take_step()
            both("%.1f s later" % (0.5 * (k + 1)))
            self.drain_fifo()
            both("%.1f s later" % (0.5 * (k + 1)))
        self.hist.append("aftermath:walker%d" % self.case["walker"])


def execute(ctx: Ctx | None, case: dict) -> list[dict]:
    from pv import vloop
    out: list[dict] = []
    hist: list[str] = []

    async def main(loop):
        sc = Scenario(case, loop)
        try:
            sc.setup()
            for r in range(case["rounds"]):
                out.append(sc.round(r))
                await sc.aftermath(out[-1])
                for k in ("X_node", "desc", "clause", "lost"):
                    out[-1].pop(k, None)
        except (Violation, HarnessError):
            raise
        except Exception as e:  # noqa: BLE001
            import traceback
            frames = traceback.extract_tb(e.__traceback__)
            lib = [f for f in frames if "/ipv8/" in f.filename and "/pv/" not in f.filename]
            if not lib or "/pv/" in frames[-1].filename:
                raise
            # the library call that makes a contact attempt (walk_to / send_introduction_request / a walker step) raised:
            # that attempt reaches nobody
            raise Violation("N3", "attempt_raises:" + lib[-1].name,
                            f"a contact attempt raised {type(e).__name__}: {e} (in {lib[0].name} -> {lib[-1].name}); nothing "
                            f"was sent, so the introduced peer is never reached", case) from None
        finally:
            hist.extend(sc.hist)
        if sc.net.escaped:
            raise HarnessError(f"exception escaped notify_listeners: {sc.net.escaped[0][3]!r}")

    saved = random.getstate()
    try:
        vloop.run(main)
    except Violation:
        if ctx is not None:
            ctx.case(case, True, cls="%s-%s-%s" % (case["natA"], case["natB"], case["place"]))
        raise
    finally:
        random.setstate(saved)
        if ctx is not None:
            for h in hist:
                ctx.count(h)
    if ctx is not None:
        nt = any(s["nontrivial"] for s in out)
        for s in out:
            if s["what"] == "introduced":
                ctx.count("introduced:%s:%s" % (s["kindX"], "same" if s["same"] else "diff"))
                if s["early_dropped"]:
                    ctx.count("early_walk_filtered_before_puncture")
            else:
                ctx.count(s["what"])
        ctx.case(case, nt, cls="%s-%s-%s%s" % (case["natA"], case["natB"], case["place"],
                                               "-alike" if case.get("alike") and case["place"] == "diff"
                                               and "none" not in (case["natA"], case["natB"]) else ""))
    return out


# ---- generation ----------------------------------------------------------------------------------------------

def configurations() -> list[dict]:
    out = []
    places = [(a, b, "diff") for a in KINDS for b in KINDS] + [(a, a, "same") for a in KINDS[1:]]
    for (a, b, place), style, b_new, k in itertools.product(places, ["old", "new"], [0, 1], range(1, 6)):
        out.append({"natA": a, "natB": b, "place": place, "style": style, "b_new": b_new, "k": k})
    return out


def base_case(cfg: dict, idx: int) -> dict:
    return {"natA": cfg["natA"], "natB": cfg["natB"], "place": cfg["place"], "style": cfg["style"],
            "b_new": cfg["b_new"], "fillers": [["pub", 0]] * (cfg["k"] - 1), "rseed": idx, "rounds": 1,
            "picks": [], "early": 0, "order": 0, "alike": (idx // 5) % 2, "disc": (idx // 10) % 2,
            "pool": (idx // 20) % 2, "walker": (idx // 2) % 3,
            "dual": (idx // 3) % 3, "lose_first": (idx // 4) % 2, "outer": (idx // 7) % 3, "clock": (idx // 3) % 6, "stale": (idx // 5) % 2}


def _strategy(cfg: dict):
    from hypothesis import strategies as st
    where = st.sampled_from(["pub", "own:full", "own:addr", "own:port", "withA", "withB"])
    filler = st.tuples(where, st.integers(0, 1)).map(list)
    k = cfg["k"]
    return st.fixed_dictionaries({
        "fillers": st.lists(filler, min_size=k - 1, max_size=k - 1),
        "rseed": st.integers(0, 65535),
        "rounds": st.integers(1, min(3, k)),
        "picks": st.one_of(st.lists(st.integers(0, 11), max_size=60),
                           st.lists(st.integers(0, 11), min_size=12, max_size=60)),
        "early": st.integers(0, 2),
        "order": st.integers(0, 23),
        "alike": st.integers(0, 1),
        "disc": st.integers(0, 1),
        "pool": st.sampled_from([0, 0, 1]),
        "walker": st.sampled_from([0, 0, 1, 2, 2]),
        "dual": st.sampled_from([0, 0, 1, 1, 2]),
        "lose_first": st.sampled_from([0, 0, 1]),
        "outer": st.sampled_from([0, 0, 0, 1, 2]),
        "clock": st.sampled_from([0, 0, 1, 2, 3, 4, 5]),
        "stale": st.sampled_from([0, 0, 1]),
    })


def _shard(ctx: Ctx, shard: int, nshards: int, n: int) -> None:
    cfgs = configurations()
    for idx, cfg in enumerate(cfgs):
        if idx % nshards != shard:
            continue
        try:
            execute(ctx, base_case(cfg, idx))
        except Violation as v:
            ctx.violation(v)

        def body(x: dict, cfg: dict = cfg) -> None:
            case = {"natA": cfg["natA"], "natB": cfg["natB"], "place": cfg["place"], "style": cfg["style"],
                    "b_new": cfg["b_new"], **x}
            execute(ctx, case)
        hyp_run(ctx, "cfg%03d" % idx, _strategy(cfg), body, n, shrink_examples=150)


def run(ctx: Ctx) -> None:
    shard_run(ctx, _shard, extra=(20 if ctx.quick else 400,))
    ctx.note("placements", 19)
    ctx.note("configurations", len(configurations()))


def replay(ctx: Ctx, case: dict) -> None:
    execute(None, case)
