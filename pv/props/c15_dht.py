"""
C15 - DHT values are stored only for authorised writers and read back authentic.

Part W (write side, protocol level). A target node T (``DHTCommunity`` or ``DHTDiscoveryCommunity``) and four
requester endpoints (three pool keys, one of them living at two addresses) are real community instances on
``pv.nodes.Node`` under ``pv.vloop``; every packet is packed and signed by production code. An op list (find / store / store_peer /
rotate / advance / maintain / grow / lookup; expanded from Hypothesis-drawn parameters) is interpreted inside one
``vloop.run``. The oracle never asks T whether a token is good: it records the tokens T hands out in its
find-responses (parsed from the wire with ``struct``), counts T's secret rotations (the periodic task is re-registered
through a counting shim with the same period) and applies the statement: *valid iff issued to the same key and the
same address under one of the two most recent secrets*. Every step is judged as a transition of T's observable
state (``Storage.items`` of every storage, ``DHTDiscoveryCommunity.store``, datagrams T sent):

* S1  a find, a clock advance, a rotation or a store(-peer) request that is not (valid token AND within the
      documented limits 170 bytes / 8 values AND, for store-peer, target == sender mid) leaves the state identical
      and is not answered with a store(-peer)-response;
* S2  an accepted request (all values well formed -> a response is required; otherwise the response is what tells
      acceptance) leaves every well-formed value retrievable: per (key, signer) the entry afterwards is the
      request's value unless an entry with a higher version was there; a find over the wire returns exactly what is
      stored (paged by 8);
* S3  per (key, signer) the version never decreases;
* S4  a value whose signature does not verify is never stored under the claimed signer;
* S5  after a maintenance run no entry older than the lifetime T assigned to it (``Value.max_age``, which must be
      within 0..3600) is left; an entry younger than its lifetime survives maintenance.

Part R (read side). A client runs the real ``find_values`` against 1-4 real server nodes whose storages were filled
directly with a drawn mixture (authentic signed values of several versions, unsigned values, forged ones - flipped
data, bumped version, foreign public key, broken signature - and undecodable bytes). What the servers really
offered is parsed from the find-responses on the wire and classified by an independent parser + the signature
primitive of the crypto extension; the reported ``(data, public_key)`` pairs must verify, be the highest version
offered for that key, and every signer with an authentic offer must be reported exactly once. A lookup that raises
(the pinned decoder raises on undecodable value bytes, e.g. an empty value) reports nothing and therefore attributes
nothing: it is counted (``R:lookup_raised_*``), not flagged - availability is outside the statement.

Part M (pure ``Storage`` machine). put / get / paged get / items_older_than / clean / advance on the real ``Storage``
under virtual time against a dict model (bounded-exhaustive over a small alphabet + Hypothesis).
"""
from __future__ import annotations

import asyncio
import hashlib
import itertools
import struct
from functools import lru_cache
from typing import Any

from .. import keypool, vloop
from ..core import Ctx, HarnessError, Violation, hyp_run, shard_run

PID = "C15"
LEVEL = "exploration"
EXHAUSTIVE = False
RULE = ("[R: the reader or a server may itself be one of the value signers] W: target T in {DHTCommunity, DHTDiscoveryCommunity} + 4 requester endpoints (keys k0..k2; k0 at two "
        "addresses; any (key, source address) combination can be produced by injecting a really signed packet from "
        "another endpoint's address) + an observer; op lists of 3..40 (quick) / 3..70 (thorough) ops expanded by a "
        "seeded PRNG from Hypothesis-drawn (seed, length, variant, warm-up, initial table size), optionally opened by "
        "0-2 short directed scenarios (own-key refresh, table growth between two stores at a far key, version race, "
        "token carried across rotations); the recorded case is the explicit op list (greedily minimised on failure): "
        "find(identity, key, force_nodes); store(identity, token class in {fresh, previous epoch, older, other key, "
        "other key at same address, same key at other address, random, issued to the same requester by another node}, key in {T's node id, its complement, "
        "sha1(pk of signer 0), constant}, 0..10 values from {unsigned of length 0/1/5/169(=170 bytes)/170(=171), "
        "signed by k0..k2 with version in {0,1,2,3,2^32-1}, signed by the real serialize_value (version = clock), "
        "signed with 24 data bytes (171), forged: flipped data / bumped version / foreign pk / broken signature / "
        "truncated, undecodable: empty, unknown type, short}); store_peer(identity, token class, target in {own mid, "
        "other mid, arbitrary}); rotate; advance(dt in 0.7 .. 7203 s); maintain; grow (T learns 1..4 more nodes, which "
        "shortens lifetimes at far keys); lookup (paged find over the wire). Non-trivial = a store(-peer) with a "
        "token that is not a fresh valid one, or a well-formed value hitting an existing (key, signer) entry, or one "
        "key holding entries with different lifetimes / a maintenance run over a key with both expired and live "
        "entries. R: 1..4 servers x up to 10 stored byte strings each (see module docstring); non-trivial = some "
        "signer offered in >= 2 versions or a forged/undecodable value offered next to an authentic one. M: words "
        "over a 12-letter alphabet to depth 5 (quick) / 6 (thorough) + Hypothesis words up to 40 ops over 2 keys, 4 "
        "ids (one equal to the key), versions 0..3, lifetimes {0,10,100,1000}; non-trivial = clean ran over a key "
        "with both expired and live values, or a put met an existing id. distinct = digest of the case.")
ASSUMPTIONS = [
    "sign/verify of the crypto extension (ipv8_rust_tunnels) is correct; it is called directly, not through ipv8.keyvault",
    "the value wire format is the documented one: type byte 0 + raw data | type byte 1 + varlenH data + uint32 version "
    "+ varlenH public key, followed by a signature over everything before it",
    "a token is identified by its 20 bytes; T's rotation count is observed by re-registering the periodic "
    "token_maintenance / value_maintenance tasks through counting shims with the production period",
    "the lifetime of an entry is the max_age T recorded for it (bounded by MAX_ENTRY_AGE = 3600); how it is derived "
    "from the number of closer nodes is not judged",
    "equal version: keeping the old or taking the new entry are both accepted; a request containing a value that "
    "does not decode or verify may be dropped as a whole (no response) or processed (response) - both accepted",
    "requests of one sender are spaced by 0.613 s so that the rate limiter (10 queries / 5 s) never triggers",
    "an entry whose age equals its lifetime to within 1 ms may or may not survive maintenance",
]

# documented limits (community.py constants named in the statement), transcribed - not imported
MAX_ENTRY_SIZE = 170
MAX_VALUES_IN_STORE = 8
MAX_VALUES_IN_FIND = 8
MAX_ENTRY_AGE = 3600
EPS = 1e-3
SPACING = 0.613
MSG_STORE_REQ, MSG_STORE_RESP, MSG_FIND_REQ, MSG_FIND_RESP, MSG_STOREPEER_REQ, MSG_STOREPEER_RESP = 3, 4, 5, 6, 7, 8

HOMES = [(0, 0), (1, 1), (2, 2), (0, 3)]          # (key index, address index) pairs that are real endpoints
ADVANCES = [0.7, 31.3, 299.3, 301.1, 601.7, 899.9, 901.3, 1801.1, 3599.3, 3601.3, 7203.1]
VERSIONS = [0, 1, 2, 3, 2 ** 32 - 1]
TOKEN_CLASSES = ["fresh", "prev", "old", "otherkey", "otherkey_sameaddr", "otheraddr", "random", "othernode"]


# ======================================================================================================
# independent value codec and classification
# ======================================================================================================

@lru_cache(maxsize=None)
def _sk(i: int):
    return keypool.key(i)


@lru_cache(maxsize=None)
def _pk(i: int) -> bytes:
    return keypool.key(i).pub().key_to_bin()


def signer_pk(s: int) -> bytes:
    """
    Public key of value signer ``s`` (0..2) = requester key ``s`` = pool key ``s + 1``.
    """
    return _pk(s + 1)


def mid_of(pk: bytes) -> bytes:
    return hashlib.sha1(pk).digest()


def enc_unsigned(data: bytes) -> bytes:
    return b"\x00" + data


def enc_signed_msg(data: bytes, version: int, pk: bytes) -> bytes:
    return b"\x01" + struct.pack(">H", len(data)) + data + struct.pack(">I", version) + struct.pack(">H", len(pk)) + pk


@lru_cache(maxsize=None)
def enc_signed(s: int, data: bytes, version: int, pk_of: int | None = None) -> bytes:
    """
    A value signed by signer ``s``; ``pk_of`` puts another signer's public key inside (a forgery).
    """
    m = enc_signed_msg(data, version, signer_pk(s if pk_of is None else pk_of))
    return m + _sk(s + 1).signature(m)


@lru_cache(maxsize=65536)
def classify(v: bytes) -> tuple:
    """
    ("u", data) | ("s", data, version, pk) | ("forged", data, version, pk) | ("malformed",)
    """
    from ipv8_rust_tunnels import PublicKey as RustPublicKey
    if len(v) == 0:
        return ("malformed",)
    if v[0] == 0:
        return ("u", v[1:])
    if v[0] != 1:
        return ("malformed",)
    try:
        off = 1
        dl, = struct.unpack_from(">H", v, off)
        off += 2
        data = v[off:off + dl]
        if len(data) != dl:
            return ("malformed",)
        off += dl
        ver, = struct.unpack_from(">I", v, off)
        off += 4
        kl, = struct.unpack_from(">H", v, off)
        off += 2
        pk = v[off:off + kl]
        if len(pk) != kl:
            return ("malformed",)
        off += kl
    except struct.error:
        return ("malformed",)
    try:
        rk = RustPublicKey(pk)
        sl = rk.get_signature_length()
    except BaseException:  # noqa: BLE001 - whatever the extension raises for a key it cannot load
        return ("malformed",)
    if len(v) - off < sl:
        return ("malformed",)
    try:
        ok = bool(rk.verify(v[-sl:], v[:-sl]))
    except BaseException:  # noqa: BLE001
        ok = False
    return ("s", data, ver, pk) if ok else ("forged", data, ver, pk)


def entry_id(v: bytes) -> bytes | None:
    """
    The (key-local) identity under which a well-formed value is filed: the signer for signed values, the content
    for unsigned ones.
    """
    c = classify(v)
    if c[0] == "u":
        return hashlib.sha1(v).digest()
    if c[0] == "s":
        return hashlib.sha1(c[3]).digest()
    return None


def build_value(spec: list, real_signed: Any = None) -> bytes:
    """
    Value bytes from a JSON-able spec. ``real_signed(s, data)`` produces a value through the production
    ``serialize_value`` of signer ``s`` (only available inside a protocol run).
    """
    kind = spec[0]
    if kind == "u":                                   # ["u", seed, data length]
        _, seed, n = spec
        return enc_unsigned((b"%d" % seed + b"u" * n)[:n] if n else b"")
    if kind == "s":                                   # ["s", signer, version, data seed]
        _, s, ver, seed = spec
        return enc_signed(s, b"d%d" % seed, ver)
    if kind == "t":                                   # ["t", signer, data seed]: production serializer, version = clock
        _, s, seed = spec
        if real_signed is None:
            return enc_signed(s, b"t%d" % seed, 1_700_000_000)
        return real_signed(s, b"t%d" % seed)
    if kind == "sbig":                                # ["sbig", signer, version, data length]: 147 + n bytes
        _, s, ver, n = spec
        return enc_signed(s, b"B" * n, ver)
    if kind == "f":                                   # ["f", how, signer, version, data seed]
        _, how, s, ver, seed = spec
        good = enc_signed(s, b"d%d" % seed, ver)
        if how == "flipdata":
            return good[:3] + bytes([good[3] ^ 1]) + good[4:]
        if how == "bumpversion":
            m = enc_signed_msg(b"d%d" % seed, min(ver + 1, 2 ** 32 - 1) if ver < 2 ** 32 - 1 else 7, signer_pk(s))
            return m + good[-64:]
        if how == "foreignpk":
            return enc_signed((s + 1) % 3, b"d%d" % seed, ver, pk_of=s)
        if how == "badsig":
            return good[:-1] + bytes([good[-1] ^ 0x80])
        if how == "zerosig":
            return good[:-64] + bytes(64)
        if how == "truncated":
            return good[:-5]
        raise AssertionError(how)
    if kind == "g":                                   # ["g", which]: undecodable bytes
        return {"empty": b"", "type2": b"\x02abc", "short": b"\x01\x00", "type1junk": b"\x01" + b"\xff" * 40,
                "badkey": enc_signed_msg(b"x", 1, b"not a key") + bytes(64)}[spec[1]]
    if kind == "raw":                                 # ["raw", bytes]
        return bytes(spec[1])
    raise AssertionError(spec)


def hx(b: bytes | None) -> str:
    return "None" if b is None else (b.hex() if len(b) <= 12 else b[:6].hex() + ".." + b[-3:].hex() + f"[{len(b)}]")


def describe(v: bytes) -> str:
    c = classify(v)
    if c[0] == "u":
        return f"unsigned[{len(v)}B]"
    if c[0] in ("s", "forged"):
        who = next((f"signer{s}" for s in range(3) if signer_pk(s) == c[3]), "unknown key")
        return f"{'signed' if c[0] == 's' else 'FORGED'}({who}, v{c[2]}, {c[1]!r})[{len(v)}B]"
    return f"undecodable({hx(v)})"


# ======================================================================================================
# wire parsing (struct only)
# ======================================================================================================

def wire_body(data: bytes) -> tuple[int, bytes, bytes] | None:
    """
    (msg id, sender public key, payload+signature) of a signed ez-packed datagram.
    """
    if len(data) < 25:
        return None
    klen, = struct.unpack_from(">H", data, 23)
    return data[22], data[25:25 + klen], data[25 + klen:]


def wire_ident(body: bytes) -> int:
    return struct.unpack_from(">I", body, 0)[0]


def wire_find_response(body: bytes) -> tuple[int, bytes, list[bytes]]:
    """
    (identifier, token, values) of a find-response payload.
    """
    ident, token = struct.unpack_from(">I20s", body, 0)
    off = 24
    n = body[off]
    off += 1
    vals = []
    for _ in range(n):
        ln, = struct.unpack_from(">H", body, off)
        off += 2
        vals.append(bytes(body[off:off + ln]))
        off += ln
    return ident, token, vals


# ======================================================================================================
# Part W - write side
# ======================================================================================================

class WriteRun:
    """
    One op list against one target node.
    """

    def __init__(self, case: dict) -> None:
        self.case = case
        self.variant = case["variant"]
        self.epoch = 0
        self.issued: list[dict] = []
        self.pending: list[Violation] = []
        self.flags: set[str] = set()
        self.counts: dict[str, int] = {}
        self.ident = 1000
        self.grown = 0
        self.last_maint: float | None = None
        self.extra: list[Violation] = []

    # ---- plumbing --------------------------------------------------------------------------------------
    def fail(self, clause: str, site: str, msg: str) -> None:
        raise Violation(clause, site, msg, self.case)

    def count(self, k: str) -> None:
        self.counts[k] = self.counts.get(k, 0) + 1

    def raise_pending(self) -> None:
        if self.pending:
            v = self.pending[0]
            self.pending = []
            raise v

    def next_ident(self) -> int:
        self.ident += 1
        return self.ident

    async def setup(self, loop: Any) -> None:
        from ipv8.dht.community import DHTCommunity
        from ipv8.dht.discovery import DHTDiscoveryCommunity
        from ipv8.dht.routing import Node as DHTNode
        from ipv8.messaging.interfaces.udp.endpoint import UDPv4Address
        from ipv8.peer import Peer

        from ..nodes import Node
        from ..simnet import SimNet
        self.loop = loop
        self.DHTNode, self.V4 = DHTNode, UDPv4Address
        cls = DHTDiscoveryCommunity if self.variant == "discovery" else DHTCommunity
        self.net = SimNet(loop)
        self.T = Node(self.net, 0)
        self.tov = self.T.add(cls)
        # same period as production, but every run is seen by the harness
        self.tov.cancel_pending_task("token_maintenance")
        self.tov.register_task("token_maintenance", self.rotate_hook, interval=300)
        self.tov.cancel_pending_task("value_maintenance")
        self.tov.register_task("value_maintenance", self.maint_hook, interval=3600)
        if self.variant == "discovery":
            # T announcing itself (and then pinging its hosts every 25 s) is client traffic that no clause looks at
            self.tov.cancel_pending_task("store_peer")
        # the fourth requester is key k0 again, on the SAME host as the first (same IP, other port): a token is bound
        # to the whole address, not to the IP or to whatever the node id is derived from
        self.R = [Node(self.net, 1), Node(self.net, 2), Node(self.net, 3),
                  Node(self.net, 4, address=(f"1.0.0.2", 8004), key_index=1)]
        self.O = Node(self.net, 5)
        for n in [*self.R, self.O]:
            n.add(cls).cancel_all_pending_tasks()       # requesters are tools of the harness: no traffic of their own
        self.addr = [n.address for n in self.R]
        self.home = {(0, 0): self.R[0].overlay, (1, 1): self.R[1].overlay, (2, 2): self.R[2].overlay,
                     (0, 3): self.R[3].overlay}
        self.signer_ov = [self.R[0].overlay, self.R[1].overlay, self.R[2].overlay]
        tpk = self.T.key.pub().key_to_bin()
        self.tpeer = Peer(tpk, UDPv4Address(*self.T.address))
        self.tnode = DHTNode(tpk, UDPv4Address(*self.T.address))
        tid = self.tnode.id
        self.keys = [tid, bytes(b ^ 0xFF for b in tid), mid_of(signer_pk(0)), b"\x15" * 20]
        self.mids = [mid_of(signer_pk(k)) for k in range(3)]
        self.model = self.snap()
        self.pmodel = self.peer_snap()
        for _ in range(int(self.case.get("grow", 0))):
            self.grow_one()
        if self.case.get("warm"):
            for k, a in HOMES:
                await self.op_find(k, a, 3, 0)

    def grow_one(self) -> None:
        if self.grown >= 12:
            return
        j = self.grown
        self.grown += 1
        node = self.DHTNode(_pk(6 + j), self.V4(f"2.0.0.{j + 1}", 9000 + j))
        self.tov.get_routing_table(node).add(node)

    # ---- observation -----------------------------------------------------------------------------------
    def snap(self) -> dict:
        out: dict = {}
        for cls, st in self.tov.storages.items():
            for key, vals in st.items.items():
                if vals:
                    out[(cls.__name__, bytes(key))] = [(bytes(v.id), bytes(v.data), v.version, v.max_age, v.last_update)
                                                       for v in vals]
        return out

    def peer_snap(self) -> dict:
        store = getattr(self.tov, "store", None)
        if store is None:
            return {}
        return {bytes(k): [(n.public_key.key_to_bin(), tuple(n.address)) for n in nodes]
                for k, nodes in store.items() if nodes}

    @staticmethod
    def pshow(snap: dict) -> str:
        def who(pk: bytes) -> str:
            return next((f"k{i}" for i in range(3) if signer_pk(i) == pk), hx(pk))
        return "{" + ", ".join(f"{hx(k)}: {[who(pk) + '@' + '%s:%d' % tuple(ad[:2]) for pk, ad in v]}"
                               for k, v in sorted(snap.items())) + "}"

    def by_id(self, snap: dict) -> dict:
        out = {}
        for skey, vals in snap.items():
            for (id_, data, ver, max_age, lu) in vals:
                if (skey, id_) in out:
                    self.fail("S2", "Storage:duplicate_id", f"two entries with the same id {hx(id_)} under key "
                                                            f"{hx(skey[1])}: {describe(out[(skey, id_)][0])} and "
                                                            f"{describe(data)}")
                out[(skey, id_)] = (data, ver, max_age, lu)
        return out

    def responses(self, mark: int, msg_id: int, ident: int) -> list:
        out = []
        for fl in self.net.log[mark:]:
            if fl.src != self.T.address or len(fl.data) < 30 or fl.data[22] != msg_id:
                continue
            wb = wire_body(fl.data)
            if wb is not None and len(wb[2]) >= 4 and wire_ident(wb[2]) == ident:
                out.append((fl.dst, wb[2]))
        return out

    def unchanged(self, site: str, what: str) -> None:
        """
        S1: the stored state is exactly what it was after the last judged transition.
        """
        now = self.snap()
        if now != self.model:
            self.fail("S1", site, f"{what}: Storage.items changed although no authorised store happened: "
                                  f"{self.diff(self.model, now)}")
        pnow = self.peer_snap()
        if pnow != self.pmodel and not self.peer_only_removed(self.pmodel, pnow):
            self.fail("S1", site + ":peer_store", f"{what}: the peer store changed: {self.pshow(self.pmodel)} -> "
                                                  f"{self.pshow(pnow)}")
        self.pmodel = pnow

    @staticmethod
    def peer_only_removed(old: dict, new: dict) -> bool:
        # ping_all drops peers that were silent for 60 s: removals need no authorisation
        return all(all(e in old.get(k, []) for e in v) for k, v in new.items())

    def diff(self, a: dict, b: dict) -> str:
        ia, ib = {}, {}
        for d, src in ((ia, a), (ib, b)):
            for skey, vals in src.items():
                for e in vals:
                    d[(skey[1], e[0])] = e[1:]
        parts = []
        for k in sorted(set(ia) | set(ib)):
            if ia.get(k) != ib.get(k):
                def show(e: tuple | None) -> str:
                    return "absent" if e is None else f"{describe(e[0])} max_age={e[2]} t={e[3] - vloop.EPOCH:.3f}"
                parts.append(f"key {hx(k[0])} id {hx(k[1])}: {show(ia.get(k))} -> {show(ib.get(k))}")
        return "; ".join(parts[:4]) or "order of entries changed"

    # ---- token model -----------------------------------------------------------------------------------
    def token_valid(self, token: bytes, k: int, a: int) -> bool:
        """
        Valid iff T issued these bytes to the same key and the same address under one of its two most recent secrets.
        """
        return any(r["token"] == token and r["k"] == k and r["a"] == a and r["epoch"] >= self.epoch - 1
                   for r in self.issued)

    def token_story(self, token: bytes, k: int, a: int) -> str:
        recs = [r for r in self.issued if r["token"] == token]
        if not recs:
            return "a token T never issued"
        r = recs[-1]
        parts = []
        if r["k"] != k:
            parts.append(f"issued to key k{r['k']} (sender is k{k})")
        if r["a"] != a:
            parts.append(f"issued to address #{r['a']} (sender is at #{a})")
        age = self.epoch - r["epoch"]
        parts.append(f"issued {age} rotation(s) ago")
        return "a token " + ", ".join(parts)

    def pick_token(self, k: int, a: int, tcls: str, idx: int) -> bytes:
        cur = self.epoch
        if tcls == "othernode":
            # what ANOTHER DHT node of the same process hands to this very requester (same key, same address) right now
            other = [self.O, *self.R][idx % 5].overlay
            return other.generate_token(self.DHTNode(signer_pk(k), self.V4(*self.addr[a])))
        pool = {
            "fresh": [r for r in self.issued if (r["k"], r["a"]) == (k, a) and r["epoch"] == cur],
            "prev": [r for r in self.issued if (r["k"], r["a"]) == (k, a) and r["epoch"] == cur - 1],
            "old": [r for r in self.issued if (r["k"], r["a"]) == (k, a) and r["epoch"] <= cur - 2],
            "otherkey": [r for r in self.issued if r["k"] != k and r["k"] < 3 and r["epoch"] >= cur - 1],
            "otherkey_sameaddr": [r for r in self.issued if r["k"] != k and r["k"] < 3 and r["a"] == a
                                  and r["epoch"] >= cur - 1],
            "otheraddr": [r for r in self.issued if r["k"] == k and r["a"] != a and r["epoch"] >= cur - 1],
            "random": [],
        }[tcls]
        if not pool:
            return hashlib.sha1(b"no such token %d" % idx).digest()
        # the most recent ones first: idx 0 = the token handed out last
        return pool[-1 - (idx % len(pool))]["token"]

    # ---- sending ---------------------------------------------------------------------------------------
    async def pace(self) -> None:
        await asyncio.sleep(SPACING)
        for _ in range(4):
            await asyncio.sleep(0)
        self.raise_pending()

    async def emit(self, k: int, a: int, payload: Any) -> int:
        mark = len(self.net.log)
        epoch0 = self.epoch
        ov = self.home.get((k, a))
        if ov is not None:
            ov.ez_send(self.tpeer, payload)
        else:
            # key k speaking from an address where it does not live: a really signed packet with a spoofed source
            self.net.inject(self.addr[a], self.T.address, self.signer_ov[k].ezr_pack(payload.msg_id, payload))
        await self.net.settle()
        if self.epoch != epoch0:
            raise HarnessError("a secret rotation fell into the same instant as a request")
        return mark

    # ---- periodic hooks --------------------------------------------------------------------------------
    def rotate_hook(self) -> None:
        self.epoch += 1
        try:
            self.tov.token_maintenance()
        except Exception as e:  # noqa: BLE001 - judged: production runs this as an interval task that ends with the exception
            self.pending.append(Violation(
                "S1", "token_maintenance:raises",
                f"the periodic secret rotation raised {type(e).__name__}: {e} (T remembered {len(self.tov.tokens)} token(s) of other "
                f"nodes): in production the interval task ends here, T never rotates its secrets again and every token it "
                f"ever issued stays valid beyond the validity window", self.case))

    def maint_hook(self) -> None:
        try:
            self.maintain()
        except Violation as v:
            self.pending.append(v)

    def maintain(self) -> None:
        before = self.by_id(self.model)
        tm = self.loop.time()
        self.tov.value_maintenance()
        after_snap = self.snap()
        after = self.by_id(after_snap)
        self.last_maint = tm
        self.count("maintenance")
        expired_keys, live_keys = set(), set()
        for (skey, id_), e in before.items():
            age = tm - e[3]
            if age > e[2] + EPS:
                expired_keys.add(skey)
            elif age < e[2] - EPS:
                live_keys.add(skey)
        if expired_keys & live_keys:
            self.flags.add("mixed_expiry")
        problems = []
        for (skey, id_), e in sorted(before.items()):
            age = tm - e[3]
            got = after.get((skey, id_))
            if got is not None and got != e:
                problems.append(("S1", "value_maintenance", f"maintenance changed the entry {describe(e[0])} under key "
                                                            f"{hx(skey[1])}"))
            if age > e[2] + EPS and got is not None:
                live = [describe(x[0]) + f" (age {tm - x[3]:.1f} of {x[2]})" for (sk, _), x in sorted(before.items())
                        if sk == skey and tm - x[3] < x[2] - EPS]
                problems.append(("S5", "Storage.clean", f"after value_maintenance the entry {describe(e[0])} under key "
                                                        f"{hx(skey[1])} is still stored although its age {age:.1f} s "
                                                        f"exceeds its lifetime {e[2]} s (live entries under the same "
                                                        f"key: {live})"))
            if age < e[2] - EPS and got is None:
                problems.append(("S2", "Storage.clean:live_removed", f"value_maintenance removed {describe(e[0])} under "
                                                                     f"key {hx(skey[1])} at age {age:.1f} s of {e[2]} s"))
        for k2 in sorted(set(after) - set(before)):
            problems.append(("S1", "value_maintenance", f"maintenance created an entry under key {hx(k2[0][1])}"))
        self.model = after_snap          # continue behind the finding
        if problems:
            c, s, m = problems[0]
            for c2, s2, m2 in problems[1:]:
                if (c2, s2) != (c, s):
                    self.pending.append(Violation(c2, s2, m2, self.case))
            self.fail(c, s, m)

    # ---- operations ------------------------------------------------------------------------------------
    async def step(self, op: list) -> None:
        kind = op[0]
        if kind == "find":
            await self.op_find(op[1], op[2], op[3], op[4])
        elif kind == "store":
            await self.op_store(*op[1:])
        elif kind == "store_peer":
            await self.op_store_peer(*op[1:])
        elif kind == "rotate":
            self.rotate_hook()
            self.unchanged("token_maintenance", "after a secret rotation")
        elif kind == "advance":
            await asyncio.sleep(op[1])
            for _ in range(4):
                await asyncio.sleep(0)
            self.raise_pending()
            self.unchanged("background", f"while {op[1]} s passed")
        elif kind == "maintain":
            self.maintain()
        elif kind == "grow":
            for _ in range(op[1]):
                self.grow_one()
        elif kind == "lookup":
            await self.op_lookup(op[1])
        else:
            raise AssertionError(op)
        self.raise_pending()

    async def op_find(self, k: int, a: int, key_idx: int, force: int) -> None:
        from ipv8.dht.payload import FindRequestPayload
        await self.pace()
        ident = self.next_ident()
        key = self.keys[key_idx]
        mark = await self.emit(k, a, FindRequestPayload(ident, self.addr[a], key, 0, bool(force)))
        for dst, body in self.responses(mark, MSG_FIND_RESP, ident):
            _, token, vals = wire_find_response(body)
            self.issued.append({"token": token, "k": k, "a": a, "epoch": self.epoch})
            self.count("token_issued")
            stored = {e[1] for skey, es in self.model.items() if skey[1] == key for e in es}
            for v in vals:
                if v not in stored:
                    self.fail("S2", "on_find_request", f"find-response for key {hx(key)} carries {describe(v)} which "
                                                       f"is not stored under that key")
        self.unchanged("on_find_request", "after a find-request")

    def real_signed(self, s: int, data: bytes) -> bytes:
        return self.signer_ov[s].serialize_value(data, sign=True)

    async def arrange(self, k: int, a: int, tcls: str) -> None:
        """
        Bring about the situation the token class names (the requester asks for a token, secrets rotate, another
        identity asks for a token) unless a matching token is already around. Part of the case: deterministic.
        """
        cur = self.epoch
        mine = [r for r in self.issued if (r["k"], r["a"]) == (k, a)]
        if tcls == "fresh" and not any(r["epoch"] == cur for r in mine):
            await self.op_find(k, a, 3, 0)
        elif tcls == "prev" and not any(r["epoch"] == cur - 1 for r in mine):
            await self.op_find(k, a, 3, 0)
            self.rotate_hook()
        elif tcls == "old" and not any(r["epoch"] <= cur - 2 for r in mine):
            await self.op_find(k, a, 3, 0)
            self.rotate_hook()
            self.rotate_hook()
        elif tcls == "otherkey" and not any(r["k"] != k and r["k"] < 3 and r["epoch"] >= cur - 1 for r in self.issued):
            await self.op_find((k + 1) % 3, (k + 1) % 3, 3, 0)
        elif tcls == "otherkey_sameaddr" and not any(r["k"] != k and r["k"] < 3 and r["a"] == a and r["epoch"] >= cur - 1
                                                     for r in self.issued):
            await self.op_find((k + 1) % 3, a, 3, 0)
        elif tcls == "otheraddr" and not any(r["k"] == k and r["a"] != a and r["epoch"] >= cur - 1 for r in self.issued):
            await self.op_find(k, (a + 1) % 4, 3, 0)

    async def op_store(self, k: int, a: int, tcls: str, tidx: int, arrange: int, key_idx: int, specs: list) -> None:
        from ipv8.dht.payload import StoreRequestPayload
        if arrange:
            await self.arrange(k, a, tcls)
        await self.pace()
        key = self.keys[key_idx]
        values = [build_value(s, self.real_signed) for s in specs]
        token = self.pick_token(k, a, tcls, tidx)
        valid = self.token_valid(token, k, a)
        fresh = valid and any(r["token"] == token and r["epoch"] == self.epoch for r in self.issued)
        too_big = [v for v in values if len(v) > MAX_ENTRY_SIZE]
        too_many = len(values) > MAX_VALUES_IN_STORE
        if not fresh:
            self.flags.add("nonfresh_token")
        ident = self.next_ident()
        t = self.loop.time()
        mark = await self.emit(k, a, StoreRequestPayload(ident, token, key, values))
        resp = self.responses(mark, MSG_STORE_RESP, ident)
        story = self.token_story(token, k, a)
        if not valid or too_big or too_many:
            if not valid:
                site, why = "check_token", f"presented {story}"
                self.count("store:rejected:token")
            elif too_big:
                site, why = "on_store_request:MAX_ENTRY_SIZE", f"carried a value of {len(too_big[0])} bytes"
                self.count("store:rejected:size")
            else:
                site, why = "on_store_request:MAX_VALUES_IN_STORE", f"carried {len(values)} values"
                self.count("store:rejected:count")
            now = self.snap()
            if now != self.model:
                self.fail("S1", site, f"store-request from k{k}@#{a} {why}, yet Storage.items changed: "
                                      f"{self.diff(self.model, now)}")
            if resp:
                self.fail("S1", site + ":response", f"store-request from k{k}@#{a} {why}, yet T answered with a "
                                                    f"store-response")
            self.unchanged("on_store_request", "after a rejected store-request")
            return
        self.judge_accepted(key, values, t, bool(resp), k, a)

    def judge_accepted(self, key: bytes, values: list[bytes], t: float, responded: bool, k: int, a: int) -> None:
        infos = [classify(v) for v in values]
        clean = all(i[0] in ("u", "s") for i in infos)
        who = f"store-request from k{k}@#{a} with a valid token"
        if clean and not responded:
            self.fail("S2", "on_store_request:no_response", f"{who} and {len(values)} well-formed value(s) within the "
                                                            f"limits was not answered")
        strict = responded
        self.count("store:accepted" if responded else "store:dropped_with_bad_value")
        before = self.by_id(self.model)
        after_snap = self.snap()
        after = self.by_id(after_snap)
        skey = ("UDPv4Address", key)
        # candidates per id: "old" = entry untouched, ("new", bytes, version) = written by this request
        poss: dict[bytes, set] = {}
        for v, info in zip(values, infos):
            if info[0] not in ("u", "s"):
                continue
            id_ = entry_id(v)
            ver = 0 if info[0] == "u" else info[2]
            old = before.get((skey, id_))
            if old is not None:
                self.flags.add("version_conflict")
            cur = poss.setdefault(id_, {"old"})
            new = set()
            for c in cur:
                cver = (old[1] if old is not None else None) if c == "old" else c[2]
                if cver is None or ver > cver:
                    new.add(("new", v, ver))
                elif ver == cver:
                    new.add(c)
                    new.add(("new", v, ver))
                else:
                    new.add(c)
                if not strict:
                    new.add(c)
            poss[id_] = new
        fresh_ages = set()
        for id_, cands in sorted(poss.items()):
            old = before.get((skey, id_))
            got = after.get((skey, id_))
            wanted = sorted(describe(c[1]) for c in cands if c != "old")
            if got is None:
                if old is None and "old" in cands:
                    continue
                if old is not None:
                    self.fail("S2", "Storage.put:entry_lost", f"{who}: the entry {describe(old[0])} under key {hx(key)} "
                                                              f"disappeared")
                self.fail("S2", "Storage.put:not_stored", f"{who} was answered, but none of {wanted} is stored under "
                                                          f"key {hx(key)}")
            if got[3] == t:                                   # written by this request
                fresh_ages.add(got[2])
                if ("new", got[0], got[1]) in cands:
                    continue
                if old is not None and got[1] < old[1]:
                    self.fail("S3", "Storage.put", f"{who}: under key {hx(key)} the stored {describe(old[0])} was "
                                                   f"replaced by the older {describe(got[0])}")
                self.fail("S2", "Storage.put:wrong_value", f"{who}: under key {hx(key)} the entry is now "
                                                           f"{describe(got[0])} (version {got[1]}), expected one of "
                                                           f"{wanted}" + (f" or the untouched {describe(old[0])}"
                                                                          if "old" in cands and old else ""))
            else:                                             # not written by this request
                if old is not None and got == old and "old" in cands:
                    continue
                if old is not None and got == old:
                    self.fail("S2", "Storage.put:newer_not_stored",
                              f"{who}: under key {hx(key)} the entry is still {describe(old[0])} although the request "
                              f"carried the newer {wanted}")
                self.fail("S1", "Storage.put:foreign_change", f"{who}: entry id {hx(id_)} under key {hx(key)} changed "
                                                              f"to {describe(got[0])} with a timestamp that is not the "
                                                              f"request's")
        bad = {v for v, i in zip(values, infos) if i[0] not in ("u", "s")}
        for (sk, id_), got in sorted(after.items()):
            if sk == skey and id_ in poss:
                continue
            if before.get((sk, id_)) == got:
                continue
            if got[0] in bad:
                self.fail("S4", "add_value:forged_stored", f"{who}: {describe(got[0])} was stored under key {hx(sk[1])} "
                                                           f"(version {got[1]}) although it does not verify/decode")
            self.fail("S1", "on_store_request:collateral", f"{who} for key {hx(key)}: unrelated entry id {hx(id_)} under "
                                                           f"key {hx(sk[1])} changed: {self.diff(self.model, after_snap)}")
        for k2 in sorted(set(before) - set(after)):
            if not (k2[0] == skey and k2[1] in poss):
                self.fail("S1", "on_store_request:collateral", f"{who} for key {hx(key)}: entry id {hx(k2[1])} under key "
                                                               f"{hx(k2[0][1])} disappeared")
        if len(fresh_ages) > 1:
            self.fail("S5", "on_store_request:max_age", f"values of one request got different lifetimes {fresh_ages}")
        for m in fresh_ages:
            if not 0 <= m <= MAX_ENTRY_AGE:
                self.fail("S5", "on_store_request:max_age", f"lifetime {m} outside 0..{MAX_ENTRY_AGE}")
        self.model = after_snap
        for sk, es in after_snap.items():
            if len({e[3] for e in es}) > 1:
                self.flags.add("lifetimes")
        self.unchanged("on_store_request", "after a store-request")

    async def op_store_peer(self, k: int, a: int, tcls: str, tidx: int, arrange: int, target_sel: int) -> None:
        from ipv8.dht.payload import StorePeerRequestPayload
        if arrange:
            await self.arrange(k, a, tcls)
        await self.pace()
        target = [self.mids[k], self.mids[(k + 1) % 3], self.keys[3]][target_sel]
        token = self.pick_token(k, a, tcls, tidx)
        valid = self.token_valid(token, k, a)
        if not (valid and any(r["token"] == token and r["epoch"] == self.epoch for r in self.issued)):
            self.flags.add("nonfresh_token")
        ident = self.next_ident()
        pbefore = self.peer_snap()
        mark = await self.emit(k, a, StorePeerRequestPayload(ident, token, target))
        resp = self.responses(mark, MSG_STOREPEER_RESP, ident)
        pafter = self.peer_snap()
        ok = valid and target == self.mids[k] and self.variant == "discovery"
        story = self.token_story(token, k, a)
        if not ok:
            site = "on_store_peer_request:token" if not valid else "on_store_peer_request:target"
            why = f"presented {story}" if not valid else (f"asked to be stored under {hx(target)} which is not its own "
                                                         f"mid" if target != self.mids[k] else "went to a plain DHT node")
            self.count("store_peer:rejected")
            if pafter != pbefore:
                self.fail("S1", site, f"store-peer-request from k{k}@#{a} {why}, yet the peer store changed: "
                                      f"{self.pshow(pbefore)} -> {self.pshow(pafter)}")
            if resp:
                self.fail("S1", site + ":response", f"store-peer-request from k{k}@#{a} {why}, yet T answered with a "
                                                    f"store-peer-response")
        else:
            self.count("store_peer:accepted")
            if not resp:
                self.fail("S2", "on_store_peer_request:no_response", f"store-peer-request from k{k}@#{a} with a valid "
                                                                     f"token for its own mid was not answered")
            pk = signer_pk(k)
            if not any(e[0] == pk for e in pafter.get(target, [])):
                self.fail("S2", "on_store_peer_request:not_stored", f"accepted store-peer-request of k{k}: peer not in "
                                                                    f"store[{hx(target)}]: {self.pshow(pafter)}")
            for tk in sorted(set(pbefore) | set(pafter)):
                added = [e for e in pafter.get(tk, []) if e not in pbefore.get(tk, [])]
                gone = [e for e in pbefore.get(tk, []) if e not in pafter.get(tk, [])]
                if gone or [e for e in added if not (tk == target and e[0] == pk and e[1] == tuple(self.addr[a]))]:
                    self.fail("S1", "on_store_peer_request:collateral", f"accepted store-peer-request of k{k}@#{a} "
                                                                        f"changed store[{hx(tk)}]: "
                                                                        f"{self.pshow(pbefore)} -> {self.pshow(pafter)}")
        self.pmodel = pafter
        self.unchanged("on_store_peer_request", "after a store-peer-request")

    async def op_lookup(self, key_idx: int) -> None:
        """
        S2 over the wire: paging through find-responses returns exactly what is stored.
        """
        key = self.keys[key_idx]
        stored = [e[1] for skey, es in self.model.items() if skey[1] == key for e in es]
        got: list[bytes] = []
        offset = 0
        for _ in range(8):
            await self.pace()
            mark = len(self.net.log)
            res = await self.O.overlay._send_find_request(self.tnode, key, False, offset)  # noqa: SLF001
            await self.net.settle()
            for fl in self.net.log[mark:]:
                wb = wire_body(fl.data) if fl.src == self.T.address and fl.data[22] == MSG_FIND_RESP else None
                if wb is not None:
                    self.issued.append({"token": wire_find_response(wb[2])[1], "k": 9, "a": 9, "epoch": self.epoch})
            if res is None:
                self.fail("S2", "on_find_request:no_response", f"find-request of the observer for key {hx(key)} offset "
                                                               f"{offset} was not answered")
            page = list(res.get("values", []))
            if len(page) > MAX_VALUES_IN_FIND:
                self.fail("S2", "on_find_request:page", f"find-response carries {len(page)} values")
            got += page
            if len(page) < MAX_VALUES_IN_FIND:
                break
            offset += len(page)
        self.count("lookup")
        if sorted(got) != sorted(stored):
            missing = [describe(v) for v in stored if v not in got]
            extra = [describe(v) for v in got if v not in stored]
            self.fail("S2", "on_find_request:retrieve", f"paging through find-responses for key {hx(key)} gives "
                                                        f"{len(got)} values, stored are {len(stored)}; missing "
                                                        f"{missing}, extra/duplicated {extra}")
        self.unchanged("on_find_request", "after a lookup")

    # ---- driver ----------------------------------------------------------------------------------------
    async def main(self, loop: Any) -> None:
        await self.setup(loop)
        try:
            first: Violation | None = None
            for op in self.case["ops"]:
                try:
                    await self.step(op)
                except Violation as v:
                    # continue behind the finding on a resynchronised model; the first one is reported
                    if first is None:
                        first = v
                    else:
                        self.extra.append(v)
                    self.model = self.snap()
                    self.pmodel = self.peer_snap()
                    self.pending = []
            try:
                for i, key in enumerate(self.keys):
                    if any(skey[1] == key for skey in self.model):
                        await self.op_lookup(i)
            except Violation as v:
                if first is None:
                    first = v
                else:
                    self.extra.append(v)
            if self.net.escaped:
                self.counts["escaped_exceptions"] = len(self.net.escaped)
            if first is not None:
                raise first
        finally:
            for n in [self.T, *self.R, self.O]:
                await n.unload()


def write_case(ctx: Ctx | None, case: dict) -> None:
    r = WriteRun(case)
    err: Violation | None = None
    try:
        vloop.run(r.main)
    except Violation as v:
        err = v
    except vloop.Deadlock as e:
        raise HarnessError(f"deadlock in write case: {e}") from e
    if ctx is not None:
        nt = bool(r.flags)
        ctx.case(case, nt, cls=f"W/{r.variant}/" + ("+".join(sorted(r.flags)) if nt else "trivial"))
        for k, n in r.counts.items():
            ctx.count("W:" + k, n)
        for v in r.extra:
            ctx.violation(v)
    if err is not None:
        raise err
    if ctx is None and r.extra:
        raise r.extra[0]


# ======================================================================================================
# Part R - read side
# ======================================================================================================

READ_KEY = b"\x52" * 20


class ReadRun:
    def __init__(self, case: dict) -> None:
        self.case = case
        self.nontrivial = False
        self.counts: dict[str, int] = {}

    def fail(self, clause: str, site: str, msg: str) -> None:
        raise Violation(clause, site, msg, self.case)

    async def main(self, loop: Any) -> None:
        from ipv8.dht import DHTError
        from ipv8.dht.community import DHTCommunity
        from ipv8.messaging.interfaces.udp.endpoint import UDPv4Address

        from ..nodes import Node
        from ..simnet import SimNet
        net = SimNet(loop)
        # who: 0 = the reader / a server is a bystander; 1..3 = it is itself value signer who-1 (reads its own announcement,
        # is handed values that name its own key)
        client = Node(net, 0, key_index=self.case.get("client_key", 0))
        cov = client.add(DHTCommunity)
        servers = []
        all_nodes = [client]
        try:
            for i, spec in enumerate(self.case["servers"]):
                sn = Node(net, 10 + i, key_index=(spec.get("key") if spec.get("key") != self.case.get("client_key", 0) else None) or None)
                all_nodes.append(sn)
                sov = sn.add(DHTCommunity)
                st = sov.get_storage(client.public_peer())     # the storage that serves IPv4 requesters
                for j, vs in enumerate(spec["vals"]):
                    v = build_value(vs)
                    if spec["direct"]:
                        # a server that does not check what it stores (or lies): any bytes, each in its own slot
                        st.put(READ_KEY, v, id_=hashlib.sha1(b"slot%d" % j).digest(), version=0, max_age=3600)
                    else:
                        try:
                            sov.add_value(READ_KEY, v, st)
                        except Exception:  # noqa: BLE001 - an honest server refusing a bad value
                            pass
                servers.append(sn)
            for sn in servers:
                cov.on_node_discovered(sn.key.pub().key_to_bin(), UDPv4Address(*sn.address))
            await net.settle()
            mark = len(net.log)
            crashed: BaseException | None = None
            result: tuple | None = None
            try:
                result = await cov.find_values(READ_KEY)
            except DHTError:
                result = None
                self.counts["R:dht_error"] = 1
            except Exception as e:  # noqa: BLE001
                crashed = e
            await net.settle()
            # what was offered, as seen on the wire
            server_addrs = {sn.address for sn in servers}
            seen: list[bytes] = []
            for fl in net.log[mark:]:
                if fl.src in server_addrs and fl.dst == client.address and fl.data[22] == MSG_FIND_RESP:
                    wb = wire_body(fl.data)
                    if wb is not None:
                        seen += wire_find_response(wb[2])[2]
            self.judge(seen, result, crashed)
            # the lookup caches what it found at a node that had nothing: that node must not file a forgery
            for sn, spec in zip(servers, self.case["servers"]):
                if spec["direct"]:
                    continue
                for st in sn.overlay.storages.values():
                    for val in st.items.get(READ_KEY, []):
                        c = classify(bytes(val.data))
                        if c[0] not in ("u", "s"):
                            self.fail("S4", "add_value:forged_stored", f"server {sn.idx} filed {describe(val.data)} "
                                                                       f"(version {val.version})")
                        if c[0] == "s" and (val.id != hashlib.sha1(c[3]).digest() or val.version != c[2]):
                            self.fail("S4", "add_value:misfiled", f"server {sn.idx} filed {describe(val.data)} under id "
                                                                  f"{hx(val.id)} version {val.version}")
        finally:
            for n in all_nodes:
                await n.unload()

    def judge(self, seen: list[bytes], result: tuple | None, crashed: BaseException | None) -> None:
        best: dict[bytes, tuple[int, set]] = {}
        unsigned = set()
        n_bad = 0
        versions: dict[bytes, set] = {}
        for v in seen:
            c = classify(v)
            if c[0] == "u":
                unsigned.add(c[1])
            elif c[0] == "s":
                _, data, ver, pk = c
                versions.setdefault(pk, set()).add(ver)
                if pk not in best or ver > best[pk][0]:
                    best[pk] = (ver, {data})
                elif ver == best[pk][0]:
                    best[pk][1].add(data)
            else:
                n_bad += 1
        self.nontrivial = any(len(vs) > 1 for vs in versions.values()) or (n_bad > 0 and bool(best))
        offered = sorted(describe(v) for v in set(seen))
        if crashed is not None:
            # nothing is reported, so nothing is attributed: outside the statement (an availability matter). Counted.
            self.counts["R:lookup_raised_on_undecodable_value"] = 1
            if best:
                self.counts["R:lookup_raised_although_authentic_offered"] = 1
            self.nontrivial = False
            return
        if result is None:
            return
        self.counts["R:reported"] = len(result)
        reported_pks = []
        for item in result:
            data, pk = item
            if pk is None:
                if data not in unsigned:
                    self.fail("S4", "post_process_values:unsigned", f"reported unsigned data {data!r} was not offered; "
                                                                    f"offered: {offered}")
                continue
            reported_pks.append(pk)
            who = next((f"signer{s}" for s in range(3) if signer_pk(s) == pk), f"key {hx(pk)}")
            if pk not in best:
                self.fail("S4", "unserialize_value:forged_attributed", f"reported {data!r} as signed by {who}, but no "
                                                                       f"offered value verifies under that key; "
                                                                       f"offered: {offered}")
            ver, datas = best[pk]
            if data not in datas:
                authentic = {c[1]: c[2] for c in map(classify, seen) if c[0] == "s" and c[3] == pk}
                if data in authentic:
                    self.fail("S4", "post_process_values:not_highest", f"reported {data!r} (version {authentic[data]}) for "
                                                                       f"{who} although version {ver} {sorted(datas)} "
                                                                       f"was offered; offered: {offered}")
                self.fail("S4", "unserialize_value:forged_attributed", f"reported {data!r} as signed by {who}; that "
                                                                       f"data never verified under the key; offered: "
                                                                       f"{offered}")
        for pk in best:
            n = reported_pks.count(pk)
            who = next((f"signer{s}" for s in range(3) if signer_pk(s) == pk), f"key {hx(pk)}")
            if n == 0:
                self.fail("S4", "post_process_values:signer_missing", f"authentic value of {who} was offered but nothing "
                                                                      f"is reported for that key; offered: {offered}; "
                                                                      f"reported: {result}")
            if n > 1:
                self.fail("S4", "post_process_values:signer_duplicated", f"{n} results for {who}: {result}")


def read_case(ctx: Ctx | None, case: dict) -> None:
    r = ReadRun(case)
    err: Violation | None = None
    try:
        vloop.run(r.main)
    except Violation as v:
        err = v
    except vloop.Deadlock as e:
        raise HarnessError(f"deadlock in read case: {e}") from e
    if ctx is not None:
        ctx.case(case, r.nontrivial, cls="R/" + ("nt" if r.nontrivial else "trivial"))
        for k, n in r.counts.items():
            ctx.count(k, n)
    if err is not None:
        raise err


# ======================================================================================================
# Part M - pure Storage machine
# ======================================================================================================

M_KEYS = [b"\xA0" * 20, b"\xB1" * 20]
M_AGES = [0, 10, 100, 1000]


def m_id(key_idx: int, sel: int) -> bytes | None:
    # 0: no id (content hash), 1/2: two signers, 3: the id that equals the key (a signer storing under its own hash)
    return [None, b"\x01" * 20, b"\x02" * 20, M_KEYS[key_idx]][sel]


async def storage_case(case: dict, info: dict | None = None) -> None:
    """
    ops: ["put", key, idsel, data, version, age_idx] | ["get", key] | ["page", key, limit] | ["older", min_age] |
         ["clean"] | ["adv", dt]
    """
    from ipv8.dht.storage import Storage
    loop = asyncio.get_running_loop()
    st = Storage()
    model: dict[tuple[int, bytes], dict] = {}
    info = info if info is not None else {}

    def fail(clause: str, site: str, msg: str) -> None:
        raise Violation(clause, site, msg, case)

    def now() -> float:
        return loop.time()

    def observe(key_idx: int) -> list:
        return list(st.get(M_KEYS[key_idx]))

    def check_all(site: str) -> None:
        for ki in range(len(M_KEYS)):
            got = sorted(observe(ki))
            want = sorted(e["data"] for (k, _), e in model.items() if k == ki)
            if got != want:
                fail("S2", site, f"get(key{ki}) = {got}, model has {want}")

    for op in case["ops"]:
        kind = op[0]
        if kind == "put":
            _, ki, sel, d, ver, ai = op
            data = b"v%d" % d
            id_ = m_id(ki, sel)
            eff = id_ or hashlib.sha1(data).digest()
            old = model.get((ki, eff))
            st.put(M_KEYS[ki], data, id_=id_, max_age=M_AGES[ai], version=ver)
            vals = [v for v in st.items[M_KEYS[ki]] if v.id == eff]
            if len(vals) != 1:
                fail("S2", "Storage.put", f"{len(vals)} entries with id {hx(eff)} after put")
            cur = vals[0]
            new = {"data": data, "ver": ver, "t": now(), "age": M_AGES[ai]}
            if old is not None:
                info["conflict"] = True
            if old is None or ver > old["ver"]:
                want = [new]
            elif ver == old["ver"]:
                want = [new, old]
            else:
                want = [old]
            seen = {"data": bytes(cur.data), "ver": cur.version, "t": cur.last_update, "age": cur.max_age}
            if seen not in want:
                if old is not None and seen["ver"] < old["ver"]:
                    fail("S3", "Storage.put", f"put(version {ver}) over stored version {old['ver']}: stored version is now "
                                              f"{seen['ver']}")
                fail("S2", "Storage.put", f"after put(data={data!r}, version={ver}, max_age={M_AGES[ai]}) over {old}: "
                                          f"entry is {seen}, expected one of {want}")
            model[(ki, eff)] = seen
            check_all("Storage.put")
        elif kind == "get":
            check_all("Storage.get")
        elif kind == "page":
            _, ki, limit = op
            full = observe(ki)
            pages: list = []
            start = 0
            while True:
                p = st.get(M_KEYS[ki], starting_point=start, limit=limit)
                if len(p) > limit:
                    fail("S2", "Storage.get:limit", f"get(limit={limit}) returned {len(p)} values")
                pages += p
                if len(p) < limit:
                    break
                start += limit
            if pages != full:
                fail("S2", "Storage.get:paging", f"pages of {limit} give {pages}, get() gives {full}")
        elif kind == "older":
            _, min_age = op
            got = sorted(st.items_older_than(min_age))
            want = sorted((M_KEYS[k], e["data"]) for (k, _), e in model.items() if now() - e["t"] > min_age + EPS)
            maybe = sorted((M_KEYS[k], e["data"]) for (k, _), e in model.items() if now() - e["t"] > min_age - EPS)
            if not (all(x in got for x in want) and all(x in maybe for x in got)):
                fail("S5", "Storage.items_older_than", f"items_older_than({min_age}) = {got}, model {want}")
        elif kind == "clean":
            ages = {k: now() - e["t"] for k, e in model.items()}
            for ki in range(len(M_KEYS)):
                ex = [k for k in model if k[0] == ki and ages[k] > model[k]["age"] + EPS]
                lv = [k for k in model if k[0] == ki and ages[k] < model[k]["age"] - EPS]
                if ex and lv:
                    info["mixed"] = True
            st.clean()
            for ki in range(len(M_KEYS)):
                # by id (two ids may carry equal data); the multiset returned by get() is compared below
                got_ids = {bytes(v.id) for v in st.items.get(M_KEYS[ki], [])}
                for k in sorted(k for k in model if k[0] == ki):
                    e = model[k]
                    if ages[k] > e["age"] + EPS and k[1] in got_ids:
                        fail("S5", "Storage.clean", f"after clean() key{ki} still holds {e['data']!r} of age "
                                                    f"{ages[k]:.1f} s, lifetime {e['age']} s; all entries: "
                                                    f"{[(m['data'], round(ages[kk], 1), m['age']) for kk, m in model.items() if kk[0] == ki]}")
                    if ages[k] < e["age"] - EPS and k[1] not in got_ids:
                        fail("S2", "Storage.clean:live_removed", f"clean() removed {e['data']!r} of age {ages[k]:.1f} s, "
                                                                 f"lifetime {e['age']} s")
            for k in list(model):
                if ages[k] > model[k]["age"] + EPS:
                    del model[k]
                elif ages[k] >= model[k]["age"] - EPS and k[1] not in {bytes(v.id) for v in
                                                                        st.items.get(M_KEYS[k[0]], [])}:
                    del model[k]
            check_all("Storage.clean")
        elif kind == "adv":
            await asyncio.sleep(op[1])
        else:
            raise AssertionError(op)
    check_all("Storage.get")


def storage_hyp_case(ctx: Ctx | None, case: dict) -> None:
    info: dict = {}
    err: Violation | None = None

    async def main(loop: Any) -> None:
        await storage_case(case, info)
    try:
        vloop.run(main)
    except Violation as v:
        err = v
    if ctx is not None:
        ctx.case(case, bool(info), cls="M/" + ("+".join(sorted(info)) or "trivial"))
    if err is not None:
        raise err


M_ALPHABET = [
    ["put", 0, 1, 1, 1, 1], ["put", 0, 1, 2, 2, 2], ["put", 0, 1, 3, 0, 3], ["put", 0, 2, 4, 1, 2],
    ["put", 0, 3, 5, 1, 1], ["put", 0, 3, 6, 1, 3], ["put", 0, 0, 7, 0, 2], ["put", 0, 0, 8, 0, 1],
    ["adv", 11], ["adv", 101], ["clean"], ["page", 0, 2],
]


def _exhaustive_storage(ctx: Ctx, shard: int, nshards: int, depth: int) -> None:
    n = len(M_ALPHABET)

    async def main(loop: Any) -> None:
        for d in range(1, depth + 1):
            for i, word in enumerate(itertools.product(range(n), repeat=d)):
                if ((i * 0x9E3779B1) >> 12) % nshards != shard:     # a plain i % nshards would depend on the last letters only
                    continue
                if word[0] >= 8 or word[-1] in (8, 9):      # starts without a value / ends on a clock tick
                    continue
                case = {"kind": "storage", "ops": [M_ALPHABET[w] for w in word]}
                info: dict = {}
                try:
                    await storage_case(case, info)
                except Violation as v:
                    ctx.violation(v)
                ctx.case(case, bool(info), cls="M/" + ("+".join(sorted(info)) or "trivial"))
    vloop.run(main)
    ctx.note("storage_exhaustive_depth", depth)


# ======================================================================================================
# strategies
# ======================================================================================================

GOOD_VALUES = ([["u", seed, n] for seed in (0, 1) for n in (0, 5)] + [["u", 2, 1], ["u", 3, 169]]
               + [["s", s_, v, seed] for s_ in range(3) for v in VERSIONS for seed in (0, 1)]
               + [["s", 0, v, seed] for v in (0, 1, 2, 3) for seed in (0, 1, 2)]
               + [["t", s_, 0] for s_ in range(3)] + [["sbig", 0, 1, 23], ["sbig", 1, 3, 23]])
FORGED_VALUES = [["f", how, s_, v, 0] for how in ("flipdata", "bumpversion", "foreignpk", "badsig", "zerosig", "truncated")
                 for s_ in (0, 1) for v in (1, 2 ** 32 - 1)]
GARBAGE_VALUES = [["g", w] for w in ("empty", "type2", "short", "type1junk", "badkey")]
BIG_VALUES = [["u", 0, 170], ["u", 1, 300], ["sbig", 0, 1, 24]]


def _value_specs():
    from hypothesis import strategies as st
    return (st.sampled_from(GOOD_VALUES), st.sampled_from(FORGED_VALUES), st.sampled_from(GARBAGE_VALUES),
            st.sampled_from(BIG_VALUES))


def _pick(rng: Any, weighted: list) -> Any:
    total = sum(w for w, _ in weighted)
    x = rng.random() * total
    for w, item in weighted:
        x -= w
        if x < 0:
            return item
    return weighted[-1][1]


def expand_write(seed: int, n_ops: int, variant: str, warm: bool, grow: int) -> dict:
    """
    The op list of a write case, expanded deterministically from Hypothesis-drawn parameters (a flat Hypothesis list
    strategy yields mostly 4-10 ops with few stores). The case that is recorded and replayed is the explicit list.
    """
    import random
    rng = random.Random(seed)
    focus_key = _pick(rng, [(4, 1), (3, 2), (1, 0), (2, 3)])
    kinds = [(45, "store"), (6, "find"), (8 if variant == "discovery" else 2, "store_peer"), (8, "rotate"),
             (14, "advance"), (8, "maintain"), (4, "grow"), (7, "lookup")]

    def ident() -> tuple:
        return rng.choice(HOMES) if rng.random() < 0.75 else (rng.randrange(3), rng.randrange(4))

    def tcls() -> str:
        return _pick(rng, [(45, "fresh"), (15, "prev"), (8, "old"), (8, "otherkey"), (8, "otherkey_sameaddr"),
                           (8, "otheraddr"), (8, "random"), (8, "othernode")])

    def key() -> int:
        return focus_key if rng.random() < 0.6 else rng.randrange(4)

    def values() -> list:
        shape = _pick(rng, [(50, "good"), (18, "mixed"), (8, "many"), (8, "big"), (8, "toomany"), (4, "empty"),
                            (4, "toomany_small")])
        good = lambda: rng.choice(GOOD_VALUES)   # noqa: E731
        if shape == "good":
            return [good() for _ in range(rng.randint(1, 4))]
        if shape == "mixed":
            return [_pick(rng, [(2, good), (2, lambda: rng.choice(FORGED_VALUES)),
                                (1, lambda: rng.choice(GARBAGE_VALUES))])() for _ in range(rng.randint(1, 4))]
        if shape == "many":
            return [good() for _ in range(rng.randint(5, 8))]
        if shape == "big":
            out = [good() for _ in range(rng.randint(0, 2))]
            out.insert(rng.randint(0, len(out)), rng.choice(BIG_VALUES))
            return out
        if shape == "toomany":
            return [good() for _ in range(rng.randint(9, 10))]
        if shape == "toomany_small":
            return [["u", rng.randrange(4), 5] for _ in range(9)]
        return []

    def scenario() -> list:
        """
        Short directed openings (parameters drawn): the situations the non-triviality rule names.
        """
        k, a = rng.choice(HOMES)
        k2, a2 = rng.choice(HOMES)
        gaps = [899.9, 1801.1, 3599.3, 301.1, 31.3]
        which = rng.randrange(4)
        if which == 0:      # a signer refreshes the value filed under its own key hash while other values age there
            return [["store", k, a, "fresh", 0, 1, 2, [rng.choice(GOOD_VALUES) for _ in range(rng.randint(1, 3))]],
                    ["advance", rng.choice(gaps)],
                    ["store", k2, a2, "fresh", 0, 1, 2, [["s", 0, rng.choice([1, 2, 3]), rng.randrange(2)]]],
                    ["advance", rng.choice(gaps)], ["maintain"]]
        if which == 1:      # T learns more nodes between two stores at a far key: the later value lives shorter
            return [["store", k, a, "fresh", 0, 1, 1, [rng.choice(GOOD_VALUES)]], ["grow", rng.randint(1, 3)],
                    ["store", k2, a2, "fresh", 0, 1, 1, [rng.choice(GOOD_VALUES) for _ in range(rng.randint(1, 2))]],
                    ["advance", rng.choice(gaps + [901.3, 601.7])], ["maintain"]]
        if which == 2:      # version race of one signer under one key, different writers
            s_, kk = rng.randrange(3), key()
            vs = [rng.choice(VERSIONS) for _ in range(3)]
            return [["store", k, a, "fresh", 0, 1, kk, [["s", s_, vs[0], 0]]],
                    ["store", k2, a2, rng.choice(["fresh", "prev"]), 0, 1, kk, [["s", s_, vs[1], 1]]],
                    ["store", k, a, "fresh", 0, 1, kk, [["s", s_, vs[2], 2], ["s", s_, vs[0], 1]]], ["lookup", kk]]
        # a token carried across rotations
        return [["find", k, a, 3, 0], ["rotate"], ["store", k, a, "fresh", 0, 0, key(), [rng.choice(GOOD_VALUES)]],
                ["rotate"], ["store", k, a, "fresh", 0, 0, key(), [rng.choice(GOOD_VALUES)]]]

    ops: list = []
    n_scen = _pick(rng, [(5, 0), (3, 1), (2, 2)])
    for _ in range(n_scen):
        ops += scenario()
    for _ in range(n_ops):
        kind = _pick(rng, kinds)
        if kind == "store":
            k, a = ident()
            ops.append(["store", k, a, tcls(), 0 if rng.random() < 0.8 else rng.randint(1, 2),
                        1 if rng.random() < 0.85 else 0, key(), values()])
        elif kind == "find":
            k, a = ident()
            ops.append(["find", k, a, key(), rng.randrange(2)])
        elif kind == "store_peer":
            k, a = ident()
            ops.append(["store_peer", k, a, tcls(), 0, 1 if rng.random() < 0.85 else 0, _pick(rng, [(3, 0), (1, 1), (1, 2)])])
        elif kind == "advance":
            ops.append(["advance", rng.choice(ADVANCES)])
        elif kind == "grow":
            ops.append(["grow", rng.randint(1, 4)])
        elif kind == "lookup":
            ops.append(["lookup", key()])
        else:
            ops.append([kind])
        if n_scen and rng.random() < 0.04:
            ops += scenario()
    return {"kind": "write", "variant": variant, "warm": bool(warm), "grow": grow, "ops": ops}


def _write_strategy(max_ops: int):
    from hypothesis import strategies as st
    return st.tuples(st.integers(0, 2 ** 32 - 1), st.integers(3, max_ops), st.sampled_from(["dht", "dht", "discovery"]),
                     st.sampled_from([True, True, True, False]), st.sampled_from([0, 0, 2, 3, 4, 6])
                     ).map(lambda t: expand_write(*t))


_MINIMISED: set = set()


def minimise_write(case: dict, v: Violation, budget: int = 120) -> Violation:
    """
    Greedy one-at-a-time removal of ops (then of values inside store ops) that keeps the same signature.
    """
    best, best_v = case, v
    runs = 0

    def still(c: dict) -> Violation | None:
        nonlocal runs
        runs += 1
        try:
            write_case(None, c)
        except Violation as w:
            return w if w.sig == v.sig else None
        return None

    i = len(best["ops"]) - 1
    while i >= 0 and runs < budget:
        cand = dict(best, ops=best["ops"][:i] + best["ops"][i + 1:])
        w = still(cand)
        if w is not None:
            best, best_v = cand, w
        i -= 1
    for field, val in (("grow", 0), ("warm", False)):
        if best[field] != val and runs < budget:
            cand = dict(best, **{field: val})
            w = still(cand)
            if w is not None:
                best, best_v = cand, w
    for i, op in enumerate(best["ops"]):
        if op[0] != "store":
            continue
        j = len(op[7]) - 1
        while j >= 0 and runs < budget:
            cur = best["ops"][i]
            cand_op = [*cur[:7], cur[7][:j] + cur[7][j + 1:]]
            cand = dict(best, ops=best["ops"][:i] + [cand_op] + best["ops"][i + 1:])
            w = still(cand)
            if w is not None:
                best, best_v = cand, w
            j -= 1
    return best_v


def write_body(ctx: Ctx, case: dict) -> None:
    try:
        write_case(ctx, case)
    except Violation as v:
        if v.sig not in _MINIMISED:
            _MINIMISED.add(v.sig)
            v = minimise_write(case, v)
        raise v


def _read_strategy():
    from hypothesis import strategies as st
    _, forged, garbage, _ = _value_specs()
    signed = st.sampled_from([["s", s_, v, seed] for s_ in (0, 1) for v in VERSIONS for seed in (0, 1, 2)])
    unsigned = st.sampled_from([["u", seed, n] for seed in (0, 1, 2, 3) for n in (0, 1, 5)])
    quiet_garbage = st.just(["g", "type2"])      # skipped by the decoder without raising
    value = st.one_of(signed, signed, signed, signed, unsigned, forged, forged, quiet_garbage)
    loud = st.one_of(signed, signed, forged, garbage)
    server = st.fixed_dictionaries({"direct": st.sampled_from([True, True, False]),
                                    "key": st.sampled_from([0, 0, 0, 1, 2]),
                                    "vals": st.one_of(st.lists(value, max_size=10), st.lists(value, min_size=2, max_size=8),
                                                      st.lists(loud, max_size=4))})
    return st.fixed_dictionaries({"kind": st.just("read"), "client_key": st.sampled_from([0, 0, 1, 2, 3]),
                                  "servers": st.lists(server, min_size=1, max_size=4, unique_by=lambda sv: sv["key"] or id(sv))})


def _storage_strategy():
    from hypothesis import strategies as st
    ki = st.integers(0, 1)
    op = st.one_of(
        st.tuples(st.just("put"), ki, st.integers(0, 3), st.integers(0, 5), st.integers(0, 3), st.integers(0, 3)).map(list),
        st.tuples(st.just("put"), ki, st.integers(0, 3), st.integers(0, 5), st.integers(0, 3), st.integers(0, 3)).map(list),
        st.tuples(st.just("put"), st.just(0), st.integers(1, 3), st.integers(0, 5), st.integers(0, 3),
                  st.integers(1, 3)).map(list),
        st.just(["get", 0]),
        st.tuples(st.just("page"), ki, st.integers(1, 3)).map(list),
        st.tuples(st.just("older"), st.sampled_from([0, 5, 10, 50, 100, 500])).map(list),
        st.just(["clean"]), st.just(["clean"]),
        st.tuples(st.just("adv"), st.sampled_from([0.5, 5, 11, 50, 101, 500, 1001])).map(list),
        st.tuples(st.just("adv"), st.sampled_from([0.5, 5, 11, 50, 101, 500, 1001])).map(list),
    )
    return st.fixed_dictionaries({"kind": st.just("storage"), "ops": st.lists(op, min_size=1, max_size=40)})


# ======================================================================================================
# driver
# ======================================================================================================

def _shard(ctx: Ctx, shard: int, nshards: int, n_write: int, n_read: int, n_storage: int, max_ops: int,
           depth: int) -> None:
    slots = ctx.sample_slots
    ctx.sample_slots = 2          # evidence samples: two of each part instead of six of whichever runs first
    hyp_run(ctx, "write", _write_strategy(max_ops), lambda c: write_body(ctx, c), n_write, shrink_examples=6)
    ctx.sample_slots = 4
    hyp_run(ctx, "read", _read_strategy(), lambda c: read_case(ctx, c), n_read)
    ctx.sample_slots = slots
    hyp_run(ctx, "storage", _storage_strategy(), lambda c: storage_hyp_case(ctx, c), n_storage)
    _exhaustive_storage(ctx, shard, nshards, depth)


def run(ctx: Ctx) -> None:
    if ctx.quick:
        shard_run(ctx, _shard, extra=(48, 120, 300, 40, 5))
    else:
        shard_run(ctx, _shard, extra=(600, 1500, 5000, 70, 6))


def replay(ctx: Ctx, case: dict) -> None:
    kind = case.get("kind")
    if kind == "write":
        write_case(None, case)
    elif kind == "read":
        read_case(None, case)
    elif kind == "storage":
        storage_hyp_case(None, case)
    else:
        raise HarnessError(f"unknown case kind {kind!r}")
