"""
C14 - the DHT routing table stays a valid Kademlia tree.

Part A (routing table). Generated histories of ``RoutingTable.add`` (fresh nodes, duplicates = address updates),
attribute changes the community makes on stored nodes (``failed``, ``last_response``, ``last_queries``), clock
ticks, ``remove_bad_nodes``, ``closest_nodes`` and ``Bucket.generate_id`` are executed on the real table. After
every mutating step the whole tree is re-read with a walker that uses nothing of ``Trie`` but the node attributes
and is judged against the statement (T1-T4); ``closest_nodes`` is compared with a brute-force sort over everything
that is stored (T5); generated refresh ids must lie in their bucket (T6); T7 is the membership bookkeeping that the
method docstrings pin down (see RULE).

Part B (generic trie). ``Trie`` against a ``dict`` model: all operation words over set/del on every binary key up
to a length bound, followed by a complete observation (``[]``, ``values``, the three longest-prefix lookups with and
without default, ``suffixes``) on every key one character longer than the bound; plus Hypothesis-drawn long words
on longer keys.

Time: ``ipv8.dht.routing.time`` is replaced by a fixed, manually advanced clock while a history runs, so that
GOOD / UNKNOWN / BAD all occur without sleeping and nothing depends on the wall clock.
"""
from __future__ import annotations

import hashlib
import itertools
import random
from functools import lru_cache

from .. import keypool
from ..core import Ctx, Violation, hyp_run, shard_run

PID = "C14"
LEVEL = "exploration"
EXHAUSTIVE = False
RULE = ("[plus part D: real DHTCommunity nodes learnt from requests, PingChurn steps, neighbours that move to another IP; A's tables audited from outside] A: histories expanded from (Hypothesis-drawn 62-bit seed, length, own-id kind, clustering level, operation "
        "mix): add of nodes whose 20-byte ids are uniform / share exactly L leading bits with our own id (L uniform "
        "0..159, or small, or beyond the current depth) / share a long prefix with an id offered before / repeat an id "
        "offered before (address update) / are real Node ids of pool keys; rtt from {0,..,2.5}, failed 0..5, "
        "last_response and last query ages around the 15-minute edge; attribute changes on stored nodes; clock ticks; "
        "remove_bad_nodes; closest_nodes(target uniform / clustered / equal or near to a stored id, k 1..20, optional "
        "exclude_node); generate_id on every bucket under a drawn random.seed. Up to 300 steps (quick) / 2000 steps "
        "(thorough). Non-trivial = at least one split happened and some closest_nodes target lay outside the bucket "
        "that holds our own id; distinct = digest of (own id, op list). "
        "B: every word over {set k, del k} for all binary keys k with len(k) <= 1 to depth 6, <= 2 to depth 4 and "
        "<= 3 to depth 3 (quick); <= 1 to depth 8, <= 2 to depth 6, <= 3 to depth 4, <= 4 to depth 3 (thorough), each "
        "followed by a complete observation on all keys one character longer; plus Hypothesis words up to 60 ops on "
        "keys up to length 6/7 including keys with a character outside the alphabet. Non-trivial = a stored key was "
        "deleted while a proper prefix or extension of it was stored, or a stored key was overwritten.")
ASSUMPTIONS = [
    "a node's id does not change while it is stored (harness nodes have fixed ids; pool-key nodes keep their IP)",
    "nodes with different ids have different public keys (Peer equality is by public key and closest_nodes collects "
    "into a set; one key under two ids - a peer that changed its IP - is not generated, the statement is silent)",
    "live = not BAD = fewer than 2 consecutive failures (Node.status; BEP-5 wording of the docstring); GOOD versus "
    "UNKNOWN never changes an expected answer because stored ids are unique",
    "which node is evicted from a full bucket is implementation policy: only 'nodes disappear from the bucket the "
    "new id belongs to, only when that bucket was full and the new node got in' is asserted",
    "Trie values are truthy objects (ValueType is 'normally Bucket'); whether the empty key counts as a prefix in "
    "the longest-prefix lookups is accepted either way (both callers in routing.py compensate for it)",
    "random.randint returning exactly 2**(160-len(prefix)) in generate_id (probability 2**-160) is not explored",
    "single-threaded use (RoutingTable.lock is not exercised)",
]

K = 8                      # MAX_BUCKET_SIZE as documented in routing.py
NOW0 = 1_700_000_000.0
FULL = 1 << 160
RTTS = [0, 0, 0, 0, 0, 0, 0.01, 0.05, 0.1, 0.1, 0.2, 0.2, 0.4, 1.0, 2.5]
FAILS = [0, 0, 0, 0, 0, 0, 0, 1, 1, 2, 2, 3, 5]          # when the community updates a stored node
FAILS_NEW = [0] * 16 + [1, 1, 2, 3]                        # a node that is being offered
AGES = [None, None, 1, 60, 899, 900, 901, 5000]


# ======================================================================================================
# Part A - routing table
# ======================================================================================================

class _Clock:
    """
    Stand-in for the ``time`` module inside ipv8.dht.routing.
    """

    def __init__(self, now: float) -> None:
        self.now = now

    def time(self) -> float:
        return self.now


@lru_cache(maxsize=None)
def _hnode_cls():
    from ipv8.dht.routing import Node

    class HNode(Node):
        """
        A real Node; only the ``id`` property is replaced by a fixed identifier.
        """

        _hid = b""

        @property
        def id(self) -> bytes:
            return self._hid

    return HNode


@lru_cache(maxsize=None)
def _pool_pub(i: int):
    return keypool.key(i).pub()


_BIN: dict[bytes, str] = {}


def binstr(node_id: bytes) -> str:
    s = _BIN.get(node_id)
    if s is None:
        s = "".join(f"{b:08b}" for b in node_id)
        if len(_BIN) < 200_000:
            _BIN[node_id] = s
    return s


def mk_node(idhex, keyidx: int, port: int):
    """
    ``idhex`` None: a plain ``Node`` with pool key ``keyidx`` at its fixed IP (id from calc_node_id).
    Otherwise a harness node with that id and a public key that is a function of the id.
    """
    from ipv8.dht.routing import Node
    from ipv8.messaging.interfaces.udp.endpoint import UDPv4Address
    if idhex is None:
        return Node(_pool_pub(keyidx), UDPv4Address(f"10.0.{keyidx}.1", port))
    nid = bytes.fromhex(idhex)
    node = _hnode_cls()(b"LibNaCLPK:" + hashlib.sha512(nid).digest(), UDPv4Address(f"10.1.{nid[0]}.{nid[19]}", port))
    node._hid = nid
    return node


def set_status(node, now: float, failed: int, resp_age, qry_age) -> None:
    node.failed = failed
    node.last_response = 0 if resp_age is None else now - resp_age
    if qry_age is not None:
        node.last_queries.append(now - qry_age)


def model_status(node, now: float) -> str:
    """
    Status from the docstring of Node.status (used for the histogram only).
    """
    if node.failed >= 2:
        return "BAD"
    responded = node.last_response > 0
    last_query = node.last_queries[-1] if node.last_queries else 0
    if (responded and now - node.last_response < 900) or (responded and now - last_query < 900):
        return "GOOD"
    return "UNKNOWN"


class TableRun:
    """
    One history on a real RoutingTable.
    """

    def __init__(self, my: bytes, case: dict) -> None:
        from ipv8.dht import routing
        self.routing = routing
        self.case = case
        self.step_no = 0
        self.clock = _Clock(NOW0)
        self.my = my
        self.mybin = binstr(my)
        self.rt = routing.RoutingTable(my)
        self.offered: list = []
        self.specs: list = []
        self.buckets: list = []
        self.contents: dict = {}
        self.splits = 0
        self.evictions = 0
        self.rejected = 0
        self.updates = 0
        self.outside_queries = 0
        self.queries = 0
        self.nonzero_genid = 0
        self.statuses: dict[str, int] = {}
        self.since_full = 0
        self.deferred: list[Violation] = []
        self.buckets, self.contents = self.check_tree("init", full=True)

    # -- plumbing ------------------------------------------------------------------------------------
    def fail(self, clause: str, site: str, msg: str) -> None:
        case = dict(self.case)
        case["ops"] = self.case["ops"][:self.step_no + 1]
        raise Violation(clause, site, msg, case)

    def defer(self, clause: str, site: str, msg: str) -> None:
        """
        A failed answer of a read-only operation: recorded, the history goes on (raised when it is over).
        """
        try:
            self.fail(clause, site, msg)
        except Violation as v:
            if all(v.sig != d.sig for d in self.deferred):
                self.deferred.append(v)

    def walk(self) -> list:
        """
        (key, value) of every valued trie node, by the node attributes only, sorted by key.
        """
        out = []
        stack = [("", self.rt.trie.root)]
        while stack:
            key, node = stack.pop()
            if node.value is not None:
                out.append((key, node.value))
            for ch, child in node.children.items():
                stack.append((key + ch, child))
        out.sort(key=lambda kv: kv[0])
        return out

    def owner_key(self, idbin: str, buckets: list):
        for key, _ in buckets:
            if idbin.startswith(key):
                return key
        return None

    # -- T1..T4 --------------------------------------------------------------------------------------
    def check_tree(self, site: str, full: bool = False, focus: tuple = ()) -> tuple:
        rt = self.rt
        buckets = self.walk()
        total = 0
        for key, b in buckets:
            if not isinstance(b, self.routing.Bucket):
                self.fail("T1", site, f"trie key {key!r} holds {type(b).__name__}, not a Bucket")
            if b.prefix_id != key:
                self.fail("T1", site, f"bucket stored under trie key {key!r} has prefix_id {b.prefix_id!r}")
            if len(key) > 160 or key.strip("01"):
                self.fail("T1", site, f"bucket prefix {key!r} is not a binary string of at most 160 bits")
            total += 1 << (160 - len(key))
        for (a, _), (b, _) in zip(buckets, buckets[1:]):
            if b.startswith(a):
                self.fail("T1", site, f"bucket prefixes are not prefix-free: {a!r} and {b!r} both exist")
        if total != FULL:
            keys = [k for k, _ in buckets]
            self.fail("T1", site, f"buckets do not cover the identifier space: prefixes {keys[:12]}"
                                  f"{'...' if len(keys) > 12 else ''} add up to {total / FULL:.6g} of it")
        listed = rt.trie.values()
        if sorted(id(b) for b in listed) != sorted(id(b) for _, b in buckets):
            self.fail("T1", site + ":values", f"trie.values() lists {len(listed)} buckets, the tree holds "
                                              f"{len(buckets)}")
        for key, _ in buckets:
            if key and not self.mybin.startswith(key[:-1]):
                self.fail("T4", site, f"bucket {key!r} exists, so bucket {key[:-1]!r} was split although our own id "
                                      f"{self.mybin[:len(key) + 2]}... does not lie in it")
        contents: dict = {}
        for key, b in buckets:
            if len(b.nodes) > K:
                self.fail("T3", site, f"bucket {key!r} holds {len(b.nodes)} nodes, capacity is {K}")
            for nid, node in b.nodes.items():
                if not isinstance(nid, bytes) or len(nid) != 20 or node.id != nid:
                    self.fail("T2", site, f"bucket {key!r} stores a node with id {node.id.hex()} under key "
                                          f"{nid.hex() if isinstance(nid, bytes) else nid!r}")
                if not binstr(nid).startswith(key):
                    self.fail("T2", site, f"node {nid.hex()} ({binstr(nid)[:len(key) + 2]}...) sits in bucket {key!r} "
                                          f"which does not own its id")
                if node.bucket is not b:
                    other = getattr(node.bucket, "prefix_id", None)
                    self.fail("T2", site + ":node.bucket", f"node {nid.hex()} sits in bucket {key!r} but node.bucket "
                                                           f"is the bucket object with prefix {other!r}")
                if nid in contents:
                    self.fail("T2", site, f"node id {nid.hex()} is stored in two buckets")
                contents[nid] = node
        self.since_full += 1
        if full or self.since_full >= 25:
            self.since_full = 0
            focus = tuple(contents)
        self.check_resolution(site, buckets, contents, focus)
        return buckets, contents

    def check_resolution(self, site: str, buckets: list, contents: dict, ids) -> None:
        """
        T2, seen through the table's own lookup: the bucket the table resolves for a stored id is the one holding it.
        """
        rt = self.rt
        by_key = dict(buckets)
        for nid in ids:
            node = contents.get(nid)
            if node is None:
                continue
            key = self.owner_key(binstr(nid), buckets)
            got = rt.get_bucket(nid)
            if got is not by_key[key]:
                self.fail("T2", site + ":get_bucket", f"get_bucket({nid.hex()}) resolves to bucket "
                                                      f"{getattr(got, 'prefix_id', got)!r}, the node sits in {key!r}")
            if rt.get(nid) is not node or not rt.has(nid):
                self.fail("T2", site + ":get", f"stored node {nid.hex()} is not found by get()/has()")

    # -- operations ----------------------------------------------------------------------------------
    def ref(self, r):
        """
        The stored object for the id of the r-th offered node if there is one, else the offered object.
        """
        if r is None or not self.offered:
            return None
        node = self.offered[r % len(self.offered)]
        return self.contents.get(node.id, node)

    def exclude_ref(self, r):
        """
        What a caller passes as ``exclude_node``: the requesting peer as a freshly built Node (as the community does),
        or - every other time - the stored object itself.
        """
        if r is None or not self.offered:
            return None
        if r % 2:
            return self.ref(r)
        return mk_node(*self.specs[r % len(self.specs)])

    def guarded(self, clause: str, site: str, fn):
        try:
            return fn()
        except Violation:
            raise
        except Exception as e:  # noqa: BLE001 - every input is admissible, so raising is a failure of the table
            self.fail(clause, site + ":raises", f"{type(e).__name__}: {e}")

    def step(self, op: list) -> None:
        kind = op[0]
        if kind == "add":
            self.op_add(op)
        elif kind == "readd":
            # the very Node object that was stored before and has left the table since (removed as BAD, or evicted) is
            # offered again, its failure count reset - what the DHT overlay does with a node that answers after all
            gone = [n for n in self.offered if n.id not in self.contents]
            if gone:
                self.op_add(["add", None, 0, 0, op[2], 0, op[3], op[4]], node=gone[op[1] % len(gone)])
        elif kind == "touch":
            node = self.ref(op[1])
            if node is not None:
                set_status(node, self.clock.now, op[2], op[3], op[4])
        elif kind == "tick":
            self.clock.now += op[1]
        elif kind == "rmbad":
            self.op_rmbad()
        elif kind == "closest":
            self.op_closest(op)
        elif kind == "genid":
            self.op_genid(op)
        else:
            raise AssertionError(op)

    def op_add(self, op: list, node=None) -> None:
        _, idhex, keyidx, port, rtt, failed, resp_age, qry_age = op
        n = node if node is not None else mk_node(idhex, keyidx, port)
        n.rtt = rtt
        set_status(n, self.clock.now, failed, resp_age, qry_age)
        if node is None:
            self.offered.append(n)
            self.specs.append((idhex, keyidx, port))
        else:
            self.readds = getattr(self, "readds", 0) + 1
        nid = n.id
        before, pre_buckets = self.contents, self.buckets
        owner = self.owner_key(binstr(nid), pre_buckets)
        owner_fill = len(dict(pre_buckets)[owner].nodes)
        st = model_status(n, self.clock.now)
        self.statuses[st] = self.statuses.get(st, 0) + 1
        ret = self.guarded("T1", "add", lambda: self.rt.add(n))
        buckets, contents = self.check_tree("add", focus=(nid,))
        new_keys = {k for k, _ in buckets} - {k for k, _ in pre_buckets}
        if new_keys:
            self.check_resolution("add", buckets, contents,
                                  [i for i in contents if self.owner_key(binstr(i), buckets) in new_keys])
        # T7 bookkeeping
        for i, obj in contents.items():
            if i in before:
                if obj is not before[i]:
                    self.fail("T7", "add", f"the object stored for id {i.hex()} was replaced")
            elif not (i == nid and obj is n):
                self.fail("T7", "add", f"id {i.hex()} appeared in the table without being added")
        present = nid in contents
        if (ret is not None) != present:
            self.fail("T7", "add:result", f"add returned {ret!r} but the id is {'stored' if present else 'not stored'}")
        if present and ret is not contents[nid]:
            self.fail("T7", "add:result", "add returned an object that is not the stored node for that id")
        lost = [i for i in before if i not in contents]
        if nid in before:
            self.updates += 1
            if tuple(contents[nid].address) != tuple(n.address):
                self.fail("T7", "add:update", f"re-adding id {nid.hex()} with address {tuple(n.address)} left the "
                                              f"stored address {tuple(contents[nid].address)}")
            if lost:
                self.fail("T7", "add:update", f"an address update removed nodes {[i.hex() for i in lost]}")
        elif lost:
            if not present:
                self.fail("T7", "add:lost", f"add did not store the node but removed {[i.hex() for i in lost]}")
            if owner_fill < K or not all(binstr(i).startswith(owner) for i in lost):
                self.fail("T7", "add:lost", f"add of {nid.hex()} into bucket {owner!r} ({owner_fill} nodes) removed "
                                            f"{[i.hex() for i in lost]}")
            self.evictions += len(lost)
        if not present:
            self.rejected += 1
        self.splits += len(buckets) - len(pre_buckets)
        self.buckets, self.contents = buckets, contents

    def op_rmbad(self) -> None:
        before = self.contents
        bad = {i for i, o in before.items() if o.failed >= 2}
        removed = self.guarded("T1", "remove_bad_nodes", lambda: self.rt.remove_bad_nodes())
        buckets, contents = self.check_tree("remove_bad_nodes")
        got = sorted(o.id for o in removed)
        if got != sorted(bad) or any(o is not before.get(o.id) for o in removed):
            self.fail("T7", "remove_bad_nodes", f"returned {[i.hex() for i in got]}, the BAD nodes were "
                                                f"{[i.hex() for i in sorted(bad)]}")
        if set(contents) != set(before) - bad:
            self.fail("T7", "remove_bad_nodes", f"left {len(contents)} nodes, expected the {len(before) - len(bad)} "
                                                f"nodes that are not BAD")
        self.buckets, self.contents = buckets, contents

    def op_closest(self, op: list) -> None:
        _, thex, k, excl_ref = op
        target = bytes.fromhex(thex)
        excl = self.exclude_ref(excl_ref)
        t = int.from_bytes(target, "big")
        live = [o for o in self.contents.values() if o.failed < 2 and (excl is None or o.id != excl.id)]
        live.sort(key=lambda o: int.from_bytes(o.id, "big") ^ t)
        exp = live[:k]
        if k == K and excl is None:
            got = self.guarded("T5", "closest_nodes", lambda: self.rt.closest_nodes(target))
        else:
            got = self.guarded("T5", "closest_nodes",
                               lambda: self.rt.closest_nodes(target, max_nodes=k, exclude_node=excl))
        self.queries += 1
        if len(self.buckets) > 1 and not self.mybin.startswith(self.owner_key(binstr(target), self.buckets)):
            self.outside_queries += 1
        if [o.id for o in got] != [o.id for o in exp] or any(a is not b for a, b in zip(got, exp)):
            gi, ei = [o.id.hex()[:10] for o in got], [o.id.hex()[:10] for o in exp]
            what = "wrong order" if sorted(gi) == sorted(ei) else "wrong set"
            self.defer("T5", "closest_nodes", f"closest_nodes({thex[:10]}.., k={k}, exclude="
                                             f"{excl.id.hex()[:10] if excl else None}) over {len(live)} live of "
                                             f"{len(self.contents)} stored nodes in {len(self.buckets)} buckets: "
                                             f"{what}: got {gi}, brute force says {ei}")

    def op_genid(self, op: list) -> None:
        from ipv8.dht import routing
        mode = op[2] if len(op) > 2 else 0
        random.seed(op[1])
        saved = routing.random
        if mode:
            # the random source is an input too: every bounded draw comes out at its lower (1) / upper (2) bound, or
            # one below the upper bound (3)
            routing.random = _BoundRandom(mode)
        try:
            for key, b in self.buckets:
                g = self.guarded("T6", "Bucket.generate_id", lambda b=b: b.generate_id())
                if "1" in key:
                    self.nonzero_genid += 1
                if not isinstance(g, bytes) or len(g) != 20:
                    self.defer("T6", "Bucket.generate_id", f"bucket {key!r} generated {g!r}, not a 20-byte id")
                elif not binstr(g).startswith(key):
                    self.defer("T6", "Bucket.generate_id", f"bucket {key!r} generated id {g.hex()} "
                                                          f"({binstr(g)[:len(key) + 2]}...) which lies outside the bucket")
        finally:
            routing.random = saved


class _BoundRandom:
    """
    Stands in for the ``random`` module inside ipv8.dht.routing: bounded draws return a bound.
    """

    def __init__(self, mode: int) -> None:
        self.mode = mode

    def randint(self, a: int, b: int) -> int:
        return a if self.mode == 1 else b if self.mode == 2 else max(a, b - 1)

    def randrange(self, start: int, stop: int | None = None) -> int:
        if stop is None:
            start, stop = 0, start
        return start if self.mode == 1 else stop - 1 if self.mode == 2 else max(start, stop - 2)

    def getrandbits(self, k: int) -> int:
        return 0 if self.mode == 1 else (1 << k) - 1 if self.mode == 2 else max(0, (1 << k) - 2)

    def __getattr__(self, name: str):
        return getattr(random, name)


def execute_table(ctx: Ctx | None, case: dict) -> TableRun:
    from ipv8.dht import routing
    saved = routing.time
    run = None
    try:
        routing.time = _Clock(NOW0)
        run = TableRun(bytes.fromhex(case["my"]), case)
        routing.time = run.clock
        for i, op in enumerate(case["ops"]):
            run.step_no = i
            run.step(op)
        run.step_no = max(0, len(case["ops"]) - 1)
        run.check_tree("final", full=True)
        if run.deferred:
            if ctx is not None:
                for v in run.deferred[1:]:
                    ctx.violation(v)
            raise run.deferred[0]
    finally:
        routing.time = saved
        if ctx is not None and run is not None:
            nb = len(run.buckets)
            ctx.case(case, run.splits > 0 and run.outside_queries > 0,
                     cls="buckets:" + ("1" if nb <= 1 else "2-8" if nb <= 8 else "9-32" if nb <= 32 else "33+"),
                     sample={"my": case["my"], "steps": len(case["ops"]), "buckets": nb, "stored": len(run.contents),
                             "splits": run.splits, "evictions": run.evictions, "rejected_adds": run.rejected,
                             "updates": run.updates, "closest_queries": run.queries,
                             "targets_outside_own_bucket": run.outside_queries, "first_ops": case["ops"][:3]})
            for k, v in run.statuses.items():
                ctx.count("added_status:" + k, v)
            ctx.count("splits", run.splits)
            ctx.count("evictions", run.evictions)
            ctx.count("rejected_adds", run.rejected)
            ctx.count("address_updates", run.updates)
            ctx.count("closest_queries", run.queries)
            ctx.count("closest_targets_outside_own_bucket", run.outside_queries)
            ctx.count("generate_id_on_bucket_with_nonzero_prefix", run.nonzero_genid)
            ctx.count("max_depth>=%d" % (10 * (max((len(k) for k, _ in run.buckets), default=0) // 10)))
    return run


# ---- history generation ----------------------------------------------------------------------------

def clustered(base: int, nbits: int, tail: int) -> int:
    """
    An id sharing exactly ``nbits`` leading bits with ``base``.
    """
    flip = 1 << (159 - nbits)
    keep = (FULL - 1) ^ ((flip << 1) - 1)
    return (base & keep) | ((base ^ flip) & flip) | (tail & (flip - 1))


def gen_case(seed: int, steps: int, mykind: int, cluster: int, mix: int) -> dict:
    rng = random.Random(seed)
    my = [rng.getrandbits(160), 0, FULL - 1, int("a5" * 20, 16)][mykind]
    p_cluster = [0.2, 0.6, 0.9, 0.98][cluster]
    #          add  touch tick rmbad closest genid readd
    weights = [[55, 10, 4, 4, 22, 5, 4], [80, 3, 1, 1, 12, 3, 2], [40, 25, 6, 10, 15, 4, 8]][mix]
    ids: list[int] = []
    adds: list = []        # the add op that first introduced ids[i] (same length as ids)
    ops: list = []
    shared = [0] * 160     # shared[d] = offered ids sharing at least d leading bits with our own id

    def hexid(v: int) -> str:
        return f"{v:040x}"

    def status_args(new: bool = True) -> list:
        return [rng.choice(FAILS_NEW if new else FAILS), rng.choice(AGES), rng.choice(AGES)]

    def depth() -> int:
        # depth the own-id path would have if nothing were ever evicted: the bucket at depth d on our path
        # splits once it has seen more than K ids sharing at least d bits with us
        d = 0
        while d < 159 and shared[d] > K:
            d += 1
        return d

    def note_id(v: int) -> None:
        n = 160 - (v ^ my).bit_length()
        for i in range(min(n, 159) + 1):
            shared[i] += 1

    def an_id() -> int:
        r = rng.random()
        if r < p_cluster:
            how = rng.random()
            if how < 0.25:
                n = rng.randint(0, 159)
            elif how < 0.65:
                n = rng.randint(0, min(159, depth() + 1))        # crowd the sibling buckets along our path
            else:
                n = min(159, depth() + rng.randint(0, 6))        # at or just beyond the current depth of the tree
            return clustered(my, n, rng.getrandbits(160))
        if r < p_cluster + (1 - p_cluster) * 0.4 and ids:
            # crowd a bucket away from our own id: long common prefix with an id offered before
            return clustered(rng.choice(ids), rng.randint(3, 159), rng.getrandbits(160))
        return rng.getrandbits(160)

    for _ in range(steps):
        kind = rng.choices(range(7), weights)[0]
        if kind == 0:
            r = rng.random()
            port = rng.randint(1024, 65535)
            if r < 0.08 and ids:
                # same id again (same public key): an address update
                i = rng.randrange(len(ids))
                src = adds[i]
                ops.append(["add", src[1], src[2], port, rng.choice(RTTS), *status_args()])
                ids.append(ids[i])
                adds.append(ops[-1])
                note_id(ids[i])
            elif r < 0.16:
                # a burst of good nodes that all share exactly as many bits with our own id as the leaf on our path is
                # deep: they fill that leaf from the far half, the split leaves the near half empty and the far half
                # full - the newcomers after that must be turned away without splitting off our path
                d = min(159, depth())
                for _b in range(rng.randint(9, 12)):
                    v = clustered(my, d, rng.getrandbits(160))
                    ops.append(["add", hexid(v), 0, rng.randint(1024, 65535), rng.choice(RTTS), 0, 0, 0])
                    ids.append(v)
                    adds.append(ops[-1])
                    note_id(v)
            elif r < 0.20:
                keyidx = rng.randrange(keypool.size())
                ops.append(["add", None, keyidx, port, rng.choice(RTTS), *status_args()])
                ids.append(int.from_bytes(mk_node(None, keyidx, port).id, "big"))
                adds.append(ops[-1])
                note_id(ids[-1])
            else:
                v = an_id()
                ops.append(["add", hexid(v), 0, port, rng.choice(RTTS), *status_args()])
                ids.append(v)
                adds.append(ops[-1])
                note_id(v)
        elif kind == 1:
            ops.append(["touch", rng.randrange(1 << 16), *status_args(False)])
        elif kind == 2:
            ops.append(["tick", rng.choice([1, 30, 450, 900, 4000])])
        elif kind == 3:
            ops.append(["rmbad"])
        elif kind == 4:
            r = rng.random()
            earlier = [o for o in ops if o[0] == "closest"]
            if earlier and rng.random() < 0.3:
                # the very same question again (same target, k and exclusion) - after whatever happened in between,
                # e.g. nodes that went BAD without any table operation
                ops.append(list(rng.choice(earlier[-6:])))
                continue
            if r < 0.25 or not ids:
                t = rng.getrandbits(160)
            elif r < 0.5:
                t = clustered(my, rng.randint(0, 159), rng.getrandbits(160))
            elif r < 0.6:
                t = my
            elif r < 0.75:
                t = rng.choice(ids)
            else:
                t = clustered(rng.choice(ids), rng.randint(0, 159), rng.getrandbits(160))
            k = rng.choice([1, 2, 7, 8, 8, 9, 20, rng.randint(1, 20), rng.randint(1, 20)])
            ops.append(["closest", hexid(t), k, rng.randrange(1 << 16) if rng.random() < 0.35 else None])
        elif kind == 5:
            ops.append(["genid", rng.getrandbits(32), rng.choice([0, 0, 1, 2, 2, 3])])
        else:
            ops.append(["readd", rng.randrange(1 << 16), rng.choice(RTTS), rng.choice(AGES), rng.choice(AGES)])
    return {"kind": "table", "my": hexid(my), "ops": ops}


# ---- shrinking of a failing history (delta debugging on the op list) --------------------------------

_MINIMISED: dict[tuple, int] = {}


def _fails_with(case: dict, sig: tuple) -> Violation | None:
    try:
        execute_table(None, case)
    except Violation as v:
        return v if v.sig == sig else None
    return None


def minimise(v: Violation, budget: int = 160) -> Violation:
    case = v.case
    ops = list(case["ops"])
    if len(ops) <= 3 or _MINIMISED.get(v.sig, 1 << 30) <= len(ops):
        return v
    best = v
    chunk = max(1, len(ops) // 2)
    while chunk >= 1 and budget > 0:
        i = 0
        progressed = False
        while i < len(ops) and budget > 0:
            trial = ops[:i] + ops[i + chunk:]
            if not trial:
                i += chunk
                continue
            budget -= 1
            hit = _fails_with({**case, "ops": trial}, v.sig)
            if hit is not None:
                ops = list(hit.case["ops"])
                best = hit
                progressed = True
            else:
                i += chunk
        if chunk == 1 and not progressed:
            break
        chunk = chunk // 2 if chunk > 1 else (1 if progressed else 0)
    _MINIMISED[v.sig] = min(_MINIMISED.get(v.sig, 1 << 30), len(best.case["ops"]))
    return best


def _table_shard(ctx: Ctx, shard: int, nshards: int, n: int, max_steps: int, name: str = "tables") -> None:
    from hypothesis import strategies as st

    strategy = st.tuples(st.integers(0, (1 << 62) - 1),
                         st.one_of(st.integers(1, 40), st.integers(40, max_steps), st.integers(40, max_steps),
                                   st.just(max_steps)),
                         st.integers(0, 3), st.integers(0, 3), st.integers(0, 2))

    def body(x) -> None:
        case = gen_case(*x)
        try:
            execute_table(ctx, case)
        except Violation as v:
            raise minimise(v) from None

    hyp_run(ctx, name, strategy, body, n, shrink_examples=40)


# ======================================================================================================
# Part B - generic trie against a dict model
# ======================================================================================================

def keys_upto(n: int) -> list[str]:
    return [""] + ["".join(w) for d in range(1, n + 1) for w in itertools.product("01", repeat=d)]


def _call(fn):
    try:
        return ("ok", fn())
    except KeyError:
        return ("KeyError", None)
    except Exception as e:  # noqa: BLE001
        return (type(e).__name__, str(e))


class TrieRun:
    """
    One operation word on a real Trie and a dict.
    """

    def __init__(self, case: dict) -> None:
        from ipv8.dht.trie import Trie
        self.case = case
        self.trie = Trie("01")
        self.model: dict[str, int] = {}
        self.found: list[Violation] = []
        self.nontrivial = False

    def flag(self, clause: str, site: str, msg: str, upto: int | None = None) -> None:
        case = dict(self.case)
        if upto is not None:
            case["ops"] = self.case["ops"][:upto + 1]
        self.found.append(Violation(clause, site, msg, case))

    def run(self) -> None:
        model, trie = self.model, self.trie
        for i, (kind, key) in enumerate(self.case["ops"]):
            if kind == "set":
                valid = not key.strip("01")
                if key in model:
                    self.nontrivial = True
                res = _call(lambda: trie.__setitem__(key, i + 1))
                if valid:
                    model[key] = i + 1
                    if res[0] != "ok":
                        self.flag("TR1", "Trie.__setitem__", f"storing key {key!r} raised {res[0]}", i)
                elif res[0] != "DHTError":
                    self.flag("TR1", "Trie.__setitem__", f"key {key!r} has a character outside the alphabet; "
                                                         f"expected DHTError, got {res}", i)
            else:
                res = _call(lambda: trie.__delitem__(key))
                if key in model:
                    if any(k != key and (k.startswith(key) or key.startswith(k)) for k in model):
                        self.nontrivial = True
                    del model[key]
                    if res[0] != "ok":
                        self.flag("TR1", "Trie.__delitem__", f"deleting the stored key {key!r} (other keys: "
                                                             f"{sorted(model)}) raised {res[0]}", i)
                elif res[0] != "KeyError":
                    self.flag("TR1", "Trie.__delitem__", f"deleting the missing key {key!r} gave {res}, expected "
                                                         f"KeyError", i)
        self.observe()

    def observe(self) -> None:
        model, trie = self.model, self.trie
        vals = _call(trie.values)
        if vals[0] != "ok" or sorted(vals[1]) != sorted(model.values()):
            self.flag("TR4", "Trie.values", f"values() gives {vals}, stored: {sorted(model.items())}")
        sentinel = ("<default>", -1)
        for key in self.case["probes"]:
            exp = model.get(key)
            got = _call(lambda: trie[key])
            if got != (("ok", exp) if exp is not None else ("KeyError", None)):
                self.flag("TR1", "Trie.__getitem__", f"[{key!r}] gives {got}, stored: {sorted(model.items())}")
            cands = [k for k in model if key.startswith(k)]
            proper = [k for k in cands if k]
            if proper:
                best = max(proper, key=len)
                allowed = [(best, model[best])]
            elif cands:
                allowed = [("", model[""]), None]   # the empty key as a prefix: accepted either way
            else:
                allowed = [None]
            got = _call(lambda: trie.longest_prefix_item(key))
            ok = (got[0] == "ok" and got[1] in allowed) or (got[0] == "KeyError" and None in allowed)
            if not ok:
                self.flag("TR2", "Trie.longest_prefix_item", f"longest_prefix_item({key!r}) gives {got}, stored: "
                                                             f"{sorted(model.items())}")
            got = _call(lambda: trie.longest_prefix_item(key, default=sentinel))
            if not (got[0] == "ok" and (got[1] in allowed or (got[1] == sentinel and None in allowed))):
                self.flag("TR2", "Trie.longest_prefix_item", f"longest_prefix_item({key!r}, default) gives {got}, "
                                                             f"stored: {sorted(model.items())}")
            got = _call(lambda: trie.longest_prefix(key, default="<d>"))
            okv = [a[0] if a is not None else "<d>" for a in allowed]
            if not (got[0] == "ok" and got[1] in okv):
                self.flag("TR2", "Trie.longest_prefix", f"longest_prefix({key!r}, default='<d>') gives {got}, "
                                                        f"stored: {sorted(model.items())}")
            got = _call(lambda: trie.longest_prefix(key))
            okv = [a[0] for a in allowed if a is not None]
            if not ((got[0] == "ok" and got[1] in okv) or (got[0] == "KeyError" and None in allowed)):
                self.flag("TR2", "Trie.longest_prefix", f"longest_prefix({key!r}) gives {got}, stored: "
                                                        f"{sorted(model.items())}")
            got = _call(lambda: trie.longest_prefix_value(key, default=-7))
            okv = [a[1] if a is not None else -7 for a in allowed]
            if not (got[0] == "ok" and got[1] in okv):
                self.flag("TR2", "Trie.longest_prefix_value", f"longest_prefix_value({key!r}, default=-7) gives "
                                                              f"{got}, stored: {sorted(model.items())}")
            got = _call(lambda: trie.longest_prefix_value(key))
            okv = [a[1] for a in allowed if a is not None]
            if not ((got[0] == "ok" and got[1] in okv) or (got[0] == "KeyError" and None in allowed)):
                self.flag("TR2", "Trie.longest_prefix_value", f"longest_prefix_value({key!r}) gives {got}, stored: "
                                                              f"{sorted(model.items())}")
            exp_s = sorted(k[len(key):] for k in model if k.startswith(key))
            got = _call(lambda: trie.suffixes(key))
            if got[0] != "ok" or sorted(got[1]) != exp_s:
                self.flag("TR3", "Trie.suffixes", f"suffixes({key!r}) gives {got}, stored keys: {sorted(model)}")


def execute_trie(ctx: Ctx | None, case: dict, descriptor=None) -> TrieRun:
    run = TrieRun(case)
    run.run()
    if ctx is not None:
        ctx.case(descriptor if descriptor is not None else case, run.nontrivial,
                 cls="trie:len%d" % min(len(case["ops"]), 9), sample=case)
        for v in run.found:
            ctx.violation(v)
    return run


def _trie_shard(ctx: Ctx, shard: int, nshards: int, plan: tuple) -> None:
    for maxlen, depth in plan:
        keys = keys_upto(maxlen)
        probes = keys_upto(maxlen + 1)
        letters = [("set", k) for k in keys] + [("del", k) for k in keys]
        n = len(letters)
        for d in range(1, depth + 1):
            for idx, word in enumerate(itertools.product(range(n), repeat=d)):
                if idx % nshards != shard:
                    continue
                ops = [list(letters[i]) for i in word]
                execute_trie(ctx, {"kind": "trie", "ops": ops, "probes": probes},
                             descriptor=(maxlen << 58) | (d << 52) | idx)
        ctx.note("trie_exhaustive_keys<=%d" % maxlen, "all words to depth %d" % depth)


def _trie_random_shard(ctx: Ctx, shard: int, nshards: int, n: int, maxlen: int) -> None:
    from hypothesis import strategies as st
    key = st.text("01", max_size=maxlen)
    badkey = st.tuples(st.text("01", max_size=3), st.sampled_from("2ab "), st.text("01", max_size=2)).map("".join)
    op = st.one_of(st.tuples(st.just("set"), key), st.tuples(st.just("set"), key), st.tuples(st.just("del"), key),
                   st.tuples(st.just("set"), badkey))
    strategy = st.lists(op, max_size=60)

    def body(ops) -> None:
        ops = [list(o) for o in ops]
        used = {k for _, k in ops if not k.strip("01")}
        probes = set()
        for k in used:
            for i in range(len(k) + 1):
                probes.add(k[:i])
            probes.add(k + "0")
            probes.add(k + "1")
            probes.add(k + "01")
        run = execute_trie(None, {"kind": "trie", "ops": ops, "probes": sorted(probes)})
        ctx.case({"kind": "trie", "ops": ops}, run.nontrivial, cls="trie:random")
        if run.found:
            for v in run.found[1:]:
                ctx.violation(v)
            raise run.found[0]

    hyp_run(ctx, "trie-words", strategy, body, n, shrink_examples=200)


# ======================================================================================================
# Part C - the refresh round of the overlay that owns the tables (one table per address family)
# ======================================================================================================

def execute_refresh(ctx: Ctx | None, case: dict) -> None:
    """
    "Identifiers generated to refresh a bucket lie inside that bucket", judged where the refresh happens:
    DHTCommunity.node_maintenance on a node with an IPv4 and an IPv6 table of different shape. Every bucket that the
    round marks as refreshed must own one of the identifiers the round crawled towards.
    """
    from .. import vloop
    from ..nodes import Node
    from ..simnet import SimNet

    async def main(loop):
        from ipv8.dht.community import DHTCommunity
        from ipv8.dht.routing import Node as DHTNode
        from ipv8.messaging.interfaces.udp.endpoint import UDPv4Address, UDPv6Address
        net = SimNet(loop)
        node = Node(net, case["own"] % 4, dispatcher="dual")
        ov = node.add(DHTCommunity)
        ov.cancel_all_pending_tasks()
        # the node knows an own address of either family (its identifier differs per family: it contains a checksum of
        # the own IP address)
        own = {UDPv4Address: UDPv4Address(*node.address), UDPv6Address: UDPv6Address(*node.address6[:2])}
        for a in own.values():
            ov.my_peer.add_address(a)
        try:
            rng = random.Random(case["seed"])
            for fam, count in (("v4", case["n4"]), ("v6", case["n6"])):
                for j in range(count):
                    addr = UDPv4Address("2.%d.%d.%d" % (j >> 16 & 255, j >> 8 & 255, j & 255), 9000) if fam == "v4" \
                        else UDPv6Address("2001:db8::%x" % (j + 1), 9000)
                    nid = rng.getrandbits(160).to_bytes(20, "big")
                    n = _hnode_cls()(b"LibNaCLPK:" + hashlib.sha512(nid).digest(), addr)
                    n._hid = nid
                    ov.get_routing_table(n).add(n)
            tables = list(ov.routing_tables.values())
            from ipv8.dht.routing import calc_node_id
            for acls, t in ov.routing_tables.items():
                mine = binstr(calc_node_id(own[acls], ov.my_peer.mid))
                for b in t.trie.values():
                    if b.prefix_id and not mine.startswith(b.prefix_id[:-1]):
                        raise Violation("T4", "get_routing_table", f"the {acls.__name__} table has split bucket "
                                                                   f"{b.prefix_id[:-1]!r} (child {b.prefix_id!r} exists) although the "
                                                                   f"node's own {acls.__name__} identifier {mine[:16]}... does "
                                                                   f"not lie in it", case)
            buckets = [b for t in tables for b in t.trie.values()]
            stale = [b for b in buckets if rng.random() < case["stale"] / 4.0 or case["stale"] >= 4]
            for b in buckets:
                b.last_changed = loop.time() - (16 * 60 if b in stale else 60)
            crawled: list[bytes] = []

            async def find_values(target, *a, **k):
                crawled.append(bytes(target))
                return []
            ov.find_values = find_values
            marks = {id(b): b.last_changed for b in buckets}
            await ov.node_maintenance()
            refreshed = [b for b in buckets if b.last_changed != marks[id(b)]]
            if ctx is not None:
                ctx.case(("refresh", tuple(sorted(case.items()))), len(tables) == 2 and len(buckets) > 4,
                         cls="refresh:%dtables:%dbuckets" % (len(tables), min(len(buckets), 20) // 5 * 5))
            for b in refreshed:
                if not any(binstr(t).startswith(b.prefix_id) for t in crawled):
                    raise Violation("T6", "node_maintenance", f"bucket {b.prefix_id!r} was marked as refreshed by a round that "
                                                              f"crawled towards {[binstr(t)[:12] for t in crawled]}: none of "
                                                              f"these identifiers lies inside the bucket", case)
            for b in stale:
                if b not in refreshed:
                    raise Violation("T6", "node_maintenance:skipped", f"stale bucket {b.prefix_id!r} was not refreshed", case)
        finally:
            await node.unload()
    vloop.run(main)


def _refresh_shard(ctx: Ctx, shard: int, nshards: int, n: int) -> None:
    from hypothesis import strategies as st
    strat = st.fixed_dictionaries({"kind": st.just("refresh"), "own": st.integers(0, 3), "seed": st.integers(0, 1 << 30),
                                   "n4": st.sampled_from([0, 5, 40, 150, 300]), "n6": st.sampled_from([0, 7, 60, 200, 300]),
                                   "stale": st.integers(1, 4)})
    hyp_run(ctx, "refresh", strat, lambda c: execute_refresh(ctx, c), n)


# ======================================================================================================
# Part D - the table inside a running overlay: nodes learnt from requests, the churn strategy, a node that moves
# ======================================================================================================

def execute_move(ctx: Ctx | None, case: dict) -> None:
    """
    Real DHTCommunity nodes: ``n`` neighbours contact A (they enter A's table through their requests), A's PingChurn
    strategy takes ``steps`` steps, then ``movers`` of the neighbours move to another IP address (same key - the node
    identifier contains a checksum of the address) and contact A again. Afterwards A's tables are audited from outside:
    every stored node under the key of its CURRENT identifier, in the bucket that owns it, found by that identifier, no
    identifier twice, bucket capacity.
    """
    from .. import vloop
    from ..nodes import Node
    from ..simnet import SimNet

    async def main(loop):
        from ipv8.dht.churn import PingChurn
        from ipv8.dht.community import DHTCommunity
        from ipv8.dht.routing import MAX_BUCKET_SIZE
        from ipv8.dht.routing import Node as DHTNode
        from ipv8.messaging.interfaces.udp.endpoint import UDPv4Address
        net = SimNet(loop)
        rng = random.Random(case["seed"])
        a = Node(net, 0)
        aov = a.add(DHTCommunity)
        target = DHTNode(a.key.pub().key_to_bin(), UDPv4Address(*a.address))
        nodes = []
        try:
            for i in range(case["n"]):
                nd = Node(net, 1 + i, address=("3.%d.%d.1" % (rng.randrange(1, 250), rng.randrange(1, 250)), 9000 + i))
                nd.add(DHTCommunity)
                nodes.append(nd)
                nd.overlay.ping(target)
                await net.settle()
            churn = PingChurn(aov, ping_interval=25.0)
            for _ in range(case["steps"]):
                churn.take_step()
                await net.settle()
            moved = 0
            for nd in nodes[:case["movers"]]:
                # the same identity shows up at another address (new lease, roaming): its old host is gone
                nd.raw_endpoint.close()
                nn = Node(net, 100 + nd.idx, address=("4.%d.%d.1" % (rng.randrange(1, 250), rng.randrange(1, 250)),
                                                      9500 + nd.idx), key_index=nd.idx)
                nn.add(DHTCommunity)
                nodes.append(nn)
                nn.overlay.ping(target)
                await net.settle()
                moved += 1
                if case.get("steps_after"):
                    churn.take_step()
                    await net.settle()
            for acls, table in aov.routing_tables.items():
                seen: dict = {}
                for bucket in table.trie.values():
                    prefix = bucket.prefix_id
                    if len(bucket.nodes) > MAX_BUCKET_SIZE:
                        raise Violation("T3", "overlay:capacity", f"bucket {prefix!r} holds {len(bucket.nodes)} nodes", case)
                    for key, node in bucket.nodes.items():
                        nid = node.id
                        where = f"bucket {prefix!r} of A's {acls.__name__} table after {moved} neighbour(s) moved to another IP"
                        if key != nid:
                            raise Violation("T2", "overlay:stale_key", f"{where}: a node whose identifier is {nid.hex()[:12]} "
                                                                       f"(address {node.address}) is stored under "
                                                                       f"{key.hex()[:12]}", case)
                        if not binstr(nid).startswith(prefix):
                            raise Violation("T2", "overlay:ownership", f"{where}: holds a node with identifier "
                                                                       f"{binstr(nid)[:12]}..", case)
                        if nid in seen:
                            raise Violation("T2", "overlay:duplicate", f"{where}: identifier {nid.hex()[:12]} is also stored in "
                                                                       f"bucket {seen[nid]!r}", case)
                        seen[nid] = prefix
                        if table.get(nid) is not node:
                            raise Violation("T2", "overlay:lookup", f"{where}: get({nid.hex()[:12]}) does not return the stored "
                                                                    f"node", case)
            if ctx is not None:
                ctx.case(("move", tuple(sorted(case.items()))), moved > 0 and case["steps"] > 0,
                         cls="move:%dnodes:%dmovers" % (case["n"] // 5 * 5, case["movers"]))
        finally:
            for nd in [a, *nodes]:
                try:
                    await nd.unload()
                except BaseException:  # noqa: BLE001
                    pass
    vloop.run(main)


def _move_shard(ctx: Ctx, shard: int, nshards: int, n: int) -> None:
    from hypothesis import strategies as st
    k = 0
    for nn in (3, 12, 20):
        for movers in (1, 3):
            for steps in (0, 1, 2):
                k += 1
                if k % nshards != shard:
                    continue
                try:
                    execute_move(ctx, {"kind": "move", "seed": k, "n": nn, "movers": movers, "steps": steps, "steps_after": k % 2})
                except Violation as v:
                    ctx.violation(v)
    strat = st.fixed_dictionaries({"kind": st.just("move"), "seed": st.integers(0, 1 << 20), "n": st.integers(1, 30),
                                   "movers": st.integers(0, 4), "steps": st.integers(0, 3), "steps_after": st.integers(0, 1)})
    hyp_run(ctx, "move", strat, lambda c: execute_move(ctx, c), n)


def run(ctx: Ctx) -> None:
    if ctx.quick:
        shard_run(ctx, _table_shard, extra=(80, 300))
        shard_run(ctx, _trie_shard, extra=(((1, 6), (2, 4), (3, 3)),))
        shard_run(ctx, _trie_random_shard, extra=(150, 6))
        shard_run(ctx, _refresh_shard, extra=(6,))
        shard_run(ctx, _move_shard, extra=(4,))
    else:
        shard_run(ctx, _table_shard, extra=(120, 2000, "tables-long"))
        shard_run(ctx, _table_shard, extra=(300, 300))
        shard_run(ctx, _trie_shard, extra=(((1, 8), (2, 6), (3, 4), (4, 3)),))
        shard_run(ctx, _trie_random_shard, extra=(3000, 7))
        shard_run(ctx, _refresh_shard, extra=(150,))
        shard_run(ctx, _move_shard, extra=(100,))


def replay(ctx: Ctx, case: dict) -> None:
    if case.get("kind") == "refresh":
        execute_refresh(None, case)
        return
    if case.get("kind") == "move":
        execute_move(None, case)
        return
    if case.get("kind") == "trie":
        run = execute_trie(None, case)
        if run.found:
            raise run.found[0]
        return
    execute_table(None, case)
