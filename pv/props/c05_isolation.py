"""
C05 - circuits are isolated from each other and from third parties.

An operation list (Hypothesis-drawn) is interpreted in one simulated world of 4-6 real TunnelCommunity nodes:
open circuits that are forced to share relays, tagged data out / back in, clock advances, and adversarial steps
(cells for unknown ids, forged cells for live ids, create requests for ids in use, destroy messages from the adjacent
node / a non-adjacent member / an outsider / an outsider spoofing the adjacent source address).

Oracle after every step:
  J1 a payload tagged for circuit X leaves only through X's exit socket, and a reply reaches only X's originator,
     labelled X;
  J2 an adversarial step leaves the routing tables of every node identical (same ids, same objects, same key
     objects, same hop lists) - judged without letting virtual time pass, so that no timer can interfere;
  J3 only the destroy signed by the adjacent node removes, and it removes only that circuit's entries at the target;
  J4 at the end every circuit that was not legitimately destroyed still carries data.
"""
from __future__ import annotations

import asyncio
import os
import struct

from .. import vloop
from ..core import Ctx, Violation, hyp_run, shard_run
from ..tunnelsim import World, parse_cell

PID = "C05"
LEVEL = "exploration"
RULE = ("(plus: packets fed in through a TunnelEndpoint configured for 1-3 hops before / while / after its circuit is built "
        "must leave through the exit of a circuit of that length - scenario anon_out shared with C04) "
        "Hypothesis-drawn operation lists (<= 25 ops quick / 60 thorough) over a world of 4-6 tunnel nodes: open(origin, "
        "hops) up to 6 live circuits, send/reply with tagged payloads, burst (all circuits send in the same instant), advance(dt) incl. > 60 s, and adversarial ops "
        "(unknown-id cell, forged cell for a live id, create for an id in use as exit/relay/own circuit, destroy by "
        "adjacent / non-adjacent member / outsider / spoofed source, every reason code), plus: an outside answer during "
        "the exit socket's linger after a teardown (late_reply), an outside answer that is itself a data message of the "
        "tunnel overlay naming another circuit of the same originator (nested_reply), a made-up created cell for a "
        "circuit under construction (open_under_fire), a circuit id reused while an abandoned extend is answered (family "
        "id_reuse); endpoint stacks bare / DispatcherEndpoint IPv4 / dual; a fixed grid independent of VERIF_SEED: every "
        "forged-cell variant (64) x every entry of a 1/2/3-hop circuit x stack, and open_under_fire x 10 variants x hops. "
        "Non-trivial = a step executed "
        "while >= 2 circuits share a node, or an adversarial step aimed at a live id; distinct = digest of the executed "
        "op kinds with their targets' entry kinds.")
ASSUMPTIONS = [
    "signatures and AEAD of ipv8_rust_tunnels are trusted",
    "virtual time does not pass while an adversarial step is judged (no timer can change the tables meanwhile)",
    "random circuit ids: collisions between honest circuits are not engineered",
]


class Run:
    def __init__(self, ctx: Ctx | None, case: dict) -> None:
        self.ctx = ctx
        self.case = case
        self.circuits: list[dict] = []     # {"circuit", "origin", "entries", "dest", "dead"}
        self.executed: list[tuple] = []
        self.nontrivial = False
        self.raw: dict[int, list] = {}

    def fail(self, clause: str, site: str, msg: str) -> None:
        raise Violation(clause, site, msg, self.case)

    # -- bookkeeping ----------------------------------------------------------------------------------
    def entries_of(self, w: World, origin, circuit) -> list[tuple]:
        """
        (node, kind, circuit id at that node, previous node, next node) along the path, from the real tables.
        """
        path = w.path(circuit)
        out = [(origin, "circuit", circuit.circuit_id, None, path[0] if path else None)]
        cid = circuit.circuit_id
        prev = origin
        for k, nd in enumerate(path):
            ov = nd.overlay
            following = path[k + 1] if k + 1 < len(path) else None
            if cid in ov.relay_from_to:
                # the id used towards the previous node may only be destroyed by the previous node ...
                out.append((nd, "relay", cid, prev, None))
                nxt = ov.relay_from_to[cid].circuit_id
                # ... and the id used towards the next node only by the next node
                out.append((nd, "relay_back", nxt, None, following))
                cid = nxt
            elif cid in ov.exit_sockets:
                out.append((nd, "exit", cid, prev, None))
            prev = nd
        return out

    def shared(self) -> bool:
        seen: dict[int, int] = {}
        for c in self.circuits:
            if c["dead"]:
                continue
            for nd in {e[0].idx for e in c["entries"]}:
                seen[nd] = seen.get(nd, 0) + 1
        return any(v >= 2 for v in seen.values())

    def exit_transports(self, c: dict) -> list:
        nd, kind, cid = c["entries"][-1][:3]
        sock = nd.overlay.exit_sockets.get(cid)
        return [t for t in (sock.transport_ipv4, sock.transport_ipv6) if t is not None] if sock else []

    # -- main -----------------------------------------------------------------------------------------
    async def main(self, loop: vloop.VirtualLoop) -> None:
        c = self.case
        # stack: the endpoint object the nodes are built on - a bare endpoint, or (as ipv8_service does) a
        # DispatcherEndpoint over an IPv4 interface or over IPv4 + IPv6 interfaces
        w = World(loop, c["nodes"] + 1, dispatcher=c.get("stack"))
        self.w = w
        self.loop = loop
        try:
            # the last node is the outsider: a real member of the overlay with its own key, but nobody's candidate,
            # so it is never a hop of any circuit (a hop that lies about its own address only hurts itself)
            self.outsider = w.nodes[-1]
            opk = self.outsider.key.pub().key_to_bin()
            for nd in w.nodes[:-1]:
                for peer in list(nd.overlay.candidates):
                    if peer.public_key.key_to_bin() == opk:
                        nd.overlay.candidates.pop(peer)
            self.members = w.nodes[:-1]
            for nd in w.nodes:
                self.raw[nd.idx] = []
                nd.overlay.on_raw_data = (lambda idx: lambda circ, org, data: self.raw[idx].append(
                    (circ.circuit_id, tuple(org), data)))(nd.idx)
            for i, op in enumerate(c["ops"]):
                await self.step(i, op)
                if w.net.escaped:
                    e = w.net.escaped[0][3]
                    self.fail("J2", "exception:" + type(e).__name__, f"{type(e).__name__}: {e} escaped the receive path "
                                                                     f"at step {i} {op}")
            await self.final_probe()
        finally:
            await w.close()

    async def step(self, i: int, op: list) -> None:
        w = self.w
        kind = op[0]
        live = [c for c in self.circuits if not c["dead"]]
        if kind == "open":
            if len(live) >= 6:
                return
            origin = self.members[op[1] % len(self.members)]
            hops = 1 + op[2] % min(3, len(self.members) - 1)
            # distinct RNG seed per open: identical seeds would make two originators draw the same circuit id, an
            # honest collision that the protocol resolves by refusing - not what this check is about
            circuit = await w.build_circuit(origin, hops, seed=op[3] * 1009 + i * 7919 + 1)
            if circuit is None:
                self.fail("J4", "build", f"circuit {hops} hops from node {origin.idx} not built (step {i})")
            n = len(self.circuits)
            rec = {"circuit": circuit, "origin": origin, "entries": self.entries_of(w, origin, circuit),
                   "dest": (f"5.5.{n}.1", 5000 + n), "dead": False, "n": n, "opened": False}
            if rec["entries"][-1][1] != "exit":
                self.fail("J4", "build", "path of a ready circuit does not end in an exit entry")
            self.circuits.append(rec)
            self.executed.append(("open", hops))
        elif kind == "open_under_fire":
            # a circuit is being built; the answer of its first hop is in flight when a party without any key (it saw
            # the plaintext create: circuit id and request identifier) sends the originator a made-up created for it
            if len(live) >= 6:
                return
            import random
            origin = self.members[op[1] % len(self.members)]
            hops = 1 + op[2] % min(3, len(self.members) - 1)
            variant = op[4]
            held, seen = [], {}

            divert = bool((variant >> 6) & 1) and hops >= 2
            misname = bool((variant >> 7) & 1) and hops >= 2 and not divert
            thief = ("6.6.6.6", 6000)
            # abandon: the first candidate the circuit is extended to answers late - after the originator has given up on
            # it and the circuit has been extended to another candidate; its answer then reaches the first hop
            abandon = variant % 8 == 5 and hops >= 2
            if abandon:
                divert = misname = False

            def hook(fl):
                cell = parse_cell(fl.data, w.prefix)
                if abandon and cell is not None and cell["plaintext"] and cell["message"][:1] == b"\x03" and \
                        "cid" in seen and fl.dst == seen["hop"] and fl.dst != origin.address and "late" not in seen:
                    seen["late"] = fl
                    return []
                if abandon and cell is not None and cell["plaintext"] and cell["message"][:1] == b"\x03":
                    return None
                if cell is not None and divert and not cell["plaintext"] and fl.origin is origin.raw_endpoint and \
                        cell["circuit_id"] == seen.get("cid") and "diverted" not in seen:
                    # the originator's (encrypted) extend cell is lost on its way; a third party that copied it off the
                    # wire hands the very same bytes to the relay from its own address
                    seen["diverted"] = 1
                    w.net.inject(thief, fl.dst, fl.data, note="extend cell re-sent by a third party")
                    return []
                if cell is None or not cell["plaintext"] or "done" in seen:
                    return None
                if misname and cell["message"][:1] == b"\x02" and fl.origin is not origin.raw_endpoint and \
                        "cid" in seen and fl.src == seen["hop"] and "misnamed" not in seen:
                    # the first hop R asks the next hop to join; that create is lost. A third party that read it (plaintext:
                    # identifier) answers R with a made-up created that NAMES ANOTHER tunnel R takes part in
                    rnode = w.by_addr.get(fl.src)
                    others = [(c2, e) for c2 in self.circuits if not c2["dead"] for e in c2["entries"]
                              if e[0] is rnode and e[1] in ("exit", "circuit")]
                    if rnode is not None and others:
                        seen["misnamed"] = 1
                        z = others[variant % len(others)][1][2]
                        msg = b"\x03" + cell["message"][1:3] + struct.pack(">H", 32) + os.urandom(32) + os.urandom(32) + \
                            os.urandom(30)
                        forged = w.prefix + b"\x00" + struct.pack(">I", z) + b"\x01\x00" + msg
                        w.net.inject(thief if variant % 2 else fl.dst, fl.src, forged, note="created naming another tunnel")
                        return []
                    return None
                if (divert or misname) and cell["message"][:1] == b"\x03":
                    return None
                if cell["message"][:1] == b"\x02" and fl.origin is origin.raw_endpoint and "cid" not in seen:
                    seen["cid"], seen["ident"], seen["hop"] = cell["circuit_id"], cell["message"][1:3], fl.dst
                    return None
                if cell["message"][:1] == b"\x03" and fl.dst == origin.address and cell["circuit_id"] == seen.get("cid"):
                    held.append(fl)
                    return []
                return None
            before_other = self.digest_without({})
            w.net.on_send = hook
            nht = origin.overlay.settings.next_hop_timeout
            try:
                random.seed(op[3] * 1009 + i * 7919 + 1)
                if abandon:
                    # an originator that is less patient than the default (a setting; a relay's own bookkeeping of the
                    # unanswered create lives 10 s whatever the originator is configured to)
                    origin.overlay.settings.next_hop_timeout = 3
                circuit = origin.overlay.create_circuit(hops)
                await w.net.settle()
                if abandon and circuit is not None:
                    try:
                        await asyncio.wait_for(asyncio.shield(circuit.ready), 60.0)
                    except asyncio.TimeoutError:
                        pass
                    w.net.on_send = None
                    key = b""
                    if "late" in seen and circuit.state == "READY":
                        def tables():
                            return {nd.idx: (sorted((k, r.circuit_id, tuple(r.hop.peer.address))
                                                    for k, r in nd.overlay.relay_from_to.items()),
                                             sorted(nd.overlay.exit_sockets),
                                             sorted((k, len(ci.hops), ci.state) for k, ci in nd.overlay.circuits.items()))
                                    for nd in w.nodes}
                        t0 = tables()
                        n0 = w.net.seq
                        fl = seen["late"]
                        w.net.inject(fl.src, fl.dst, fl.data, note="late answer to an abandoned extend")
                        await w.net.settle()
                        t1 = tables()
                        if t0 != t1:
                            diff = [(k, t0[k], t1[k]) for k in t0 if t0[k] != t1[k]][:1]
                            self.fail("J2", "late_created", f"the answer of a candidate the originator had given up on "
                                                            f"reached the first hop after the circuit had been extended to "
                                                            f"another candidate and changed tunnel tables: {diff}")
                        seen["late_done"] = 1
                elif (divert or misname) and circuit is not None:
                    try:
                        await asyncio.wait_for(asyncio.shield(circuit.ready), 40.0)
                    except asyncio.TimeoutError:
                        pass
                    w.net.on_send = None
                    stolen = [f for f in w.net.log if f.dst == thief]
                    if stolen:
                        self.fail("J1", "extend_resent", f"a third party handed the relay a copy of the originator's extend "
                                                         f"cell from its own address {thief}; the relay then sent "
                                                         f"{len(stolen)} cell(s) of that circuit to the third party")
                    if circuit.state != "READY" and divert:
                        self.fail("J2", "extend_resent", f"the circuit did not get built (state {circuit.state})")
                    key = b""
                elif circuit is None or "cid" not in seen or not held:
                    w.net.on_send = None
                    return
                else:
                    key = os.urandom([32, 32, 31, 0, 33][variant % 5])
                    auth = os.urandom(32)
                    msg = b"\x03" + seen["ident"] + struct.pack(">H", len(key)) + key + auth + os.urandom((variant >> 3) % 40)
                    cell = w.prefix + b"\x00" + struct.pack(">I", seen["cid"]) + b"\x01\x00" + msg
                    src = seen["hop"] if (variant >> 2) & 1 else ("6.6.6.6", 6000)
                    w.net.inject(src, origin.address, cell, note="made-up created")
                    await w.net.settle()
                    seen["done"] = 1
                    w.net.on_send = None
                    for fl in held:
                        w.net.inject(fl.src, fl.dst, fl.data, note="genuine created, released")
                    try:
                        await asyncio.wait_for(asyncio.shield(circuit.ready), 40.0)
                    except asyncio.TimeoutError:
                        pass
            finally:
                w.net.on_send = None
                origin.overlay.settings.next_hop_timeout = nht
            if misname and circuit.state != "READY":
                # (the create that was lost may have cost the circuit its last candidate: nothing is claimed about it;
                # what matters is that the made-up answer did nothing to the tunnels it named)
                if before_other != self.digest_without({}):
                    self.fail("J2", "created_misnamed:collateral", "a made-up created cell naming another tunnel changed "
                                                                   "entries of other circuits")
                for c2 in [x for x in self.circuits if not x["dead"]]:
                    await self.send_and_check(c2, 9000 + c2["n"])
                self.nontrivial = True
                self.executed.append(("open_under_fire", hops, "misname:unbuilt"))
                return
            if abandon and (circuit is None or circuit.state != "READY"):
                # (the lost answer may have cost the circuit its last candidate: nothing is claimed about that)
                self.executed.append(("open_under_fire", hops, "abandon:unbuilt"))
                return
            if circuit.state != "READY" or circuit.circuit_id not in origin.overlay.circuits:
                self.fail("J2", "forged_created", f"a made-up created cell ({len(key)}-byte key, from "
                                                  f"{'the first hop address' if (variant >> 2) & 1 else 'elsewhere'}) for a "
                                                  f"circuit that was being built ended that circuit: state {circuit.state}, "
                                                  f"{'still' if circuit.circuit_id in origin.overlay.circuits else 'no longer'} "
                                                  f"in the originator's table; the genuine answer followed right behind")
            if before_other != self.digest_without({}):
                self.fail("J2", "forged_created:collateral", "a made-up created cell changed entries of other circuits")
            n = len(self.circuits)
            rec = {"circuit": circuit, "origin": origin, "entries": self.entries_of(w, origin, circuit),
                   "dest": (f"5.5.{n}.1", 5000 + n), "dead": False, "n": n, "opened": False}
            if rec["entries"][-1][1] != "exit":
                self.fail("J4", "build", "path of a ready circuit does not end in an exit entry")
            self.circuits.append(rec)
            self.nontrivial = True
            self.executed.append(("open_under_fire", hops, ("abandon:late" if "late_done" in seen else "abandon")
                                  if abandon else "divert" if divert else "misname" if misname else variant % 5))
            if misname:
                # whatever the made-up answer did shows when the other circuits are used
                for c2 in [x for x in self.circuits if not x["dead"]][:-1]:
                    await self.send_and_check(c2, 9000 + c2["n"])
        elif kind == "send":
            if not live:
                return
            c = live[op[1] % len(live)]
            await self.send_and_check(c, op[2])
        elif kind == "reply":
            ready = [c for c in live if c["opened"]]
            if not ready:
                return
            c = ready[op[1] % len(ready)]
            await self.reply_and_check(c, op[2])
        elif kind == "nested_reply":
            ready = [c for c in live if c["opened"]]
            if ready:
                await self.nested_reply_and_check(ready[op[1] % len(ready)], op[2], op[3])
        elif kind == "late_reply":
            # an outside answer for a circuit that was just torn down, while its exit's outside socket lingers
            late = [c for c in self.circuits if c["dead"] and any(not t.closed for t in c.get("trs", []))]
            if late:
                await self.late_reply_and_check(late[op[1] % len(late)], op[2])
        elif kind == "burst":
            await self.burst_and_check(live, op[1])
        elif kind == "advance":
            await asyncio.sleep(op[1])
            self.executed.append(("advance", int(op[1]) // 30))
        elif kind in ("unknown_cell", "forged_cell", "create_live", "destroy", "destroy_half", "twin_create"):
            await self.adversarial(i, op)
        if self.shared():
            self.nontrivial = True

    def tag_payload(self, c: dict, tag: int, back: bool = False) -> bytes:
        return b"d3:tag" + (b"B" if back else b"F") + struct.pack(">HI", c["n"], tag) + os.urandom(0) + b"e"

    async def send_and_check(self, c: dict, tag: int) -> None:
        w = self.w
        payload = self.tag_payload(c, tag)
        before = {id(t): len(t.sent) for t in self.loop.transports}
        c["origin"].overlay.send_data(c["circuit"].hop.address, c["circuit"].circuit_id, c["dest"], ("0.0.0.0", 0),
                                      payload)
        await asyncio.sleep(0.05)
        mine = {id(t) for t in self.exit_transports(c)}
        if self.exit_transports(c):
            c["trs"] = self.exit_transports(c)
        seen_at = []
        for t in self.loop.transports:
            for data, addr in t.sent[before.get(id(t), 0):]:
                if data == payload:
                    seen_at.append((id(t) in mine, tuple(addr)))
                elif data[:7] == b"d3:tagF" and struct.unpack(">H", data[7:9])[0] == c["n"]:
                    self.fail("J1", "exit", "altered tagged payload emitted")
        c["opened"] = c["opened"] or bool(seen_at)
        if seen_at != [(True, c["dest"])]:
            self.fail("J1", "exit", f"payload sent into circuit {c['n']} left at {seen_at} (expected exactly once through "
                                    f"its own exit socket to {c['dest']})")
        self.executed.append(("send", len(c["entries"])))

    async def burst_and_check(self, live: list, tag: int) -> None:
        """
        Every live circuit sends in the same loop iteration (fresh exit sockets are still opening their transports
        then); afterwards every payload must have left exactly once, through its own circuit's exit socket, and a reply
        to each must reach only its own originator.
        """
        if len(live) < 2:
            return
        before = {id(t): len(t.sent) for t in self.loop.transports}
        payloads = {}
        for c in live:
            payloads[c["n"]] = self.tag_payload(c, tag)
            c["origin"].overlay.send_data(c["circuit"].hop.address, c["circuit"].circuit_id, c["dest"], ("0.0.0.0", 0),
                                          payloads[c["n"]])
        await asyncio.sleep(0.05)
        for c in live:
            mine = {id(t) for t in self.exit_transports(c)}
            seen_at = []
            for t in self.loop.transports:
                for data, addr in t.sent[before.get(id(t), 0):]:
                    if data == payloads[c["n"]]:
                        seen_at.append((id(t) in mine, tuple(addr)))
            c["opened"] = c["opened"] or bool(seen_at)
            if seen_at != [(True, c["dest"])]:
                self.fail("J1", "exit:burst", f"with {len(live)} circuits sending at the same instant, the payload of circuit "
                                              f"{c['n']} left at {seen_at} (expected once through its own exit socket to "
                                              f"{c['dest']})")
        for c in live:
            await self.reply_and_check(c, tag)
        self.nontrivial = True
        self.executed.append(("burst", len(live)))

    async def late_reply_and_check(self, c: dict, tag: int) -> None:
        payload = self.tag_payload(c, tag, back=True)
        marks = {idx: len(v) for idx, v in self.raw.items()}
        seq0 = self.w.net.seq
        trs = [t for t in c["trs"] if t.local_addr[0] == "0.0.0.0" and not t.closed]
        if not trs:
            return
        trs[0].inject(payload, c["dest"])
        await asyncio.sleep(0.05)
        for fl in self.w.net.log:
            if fl.seq > seq0 and payload[:12] in fl.data:
                self.fail("J1", "late_reply:cleartext", f"an outside answer that arrived for torn-down circuit {c['n']} while its "
                                                        f"exit socket lingered was put on the overlay network readable, in a "
                                                        f"datagram from {fl.src} to {fl.dst}")
        got = [(idx, item) for idx, v in self.raw.items() for item in v[marks[idx]:]]
        want = (c["origin"].idx, (c["circuit"].circuit_id, c["dest"], payload))
        if any(g != want for g in got):
            self.fail("J1", "late_reply:originator", f"late reply for circuit {c['n']} was delivered as {got}")
        self.nontrivial = True
        self.executed.append(("late_reply", len(c["entries"])))

    async def nested_reply_and_check(self, c: dict, pick: int, variant: int) -> None:
        """
        An outside party answers X's exit socket with a datagram that is itself a data message of the tunnel overlay
        (own prefix, message 1), naming ANOTHER circuit Y of X's originator and an origin of its choosing. It sits on
        the IP address of Y's first hop (another port), on that very address, or elsewhere. Nothing may be delivered
        as traffic of Y: nothing travelled Y, and the sender holds none of Y's keys.
        """
        others = [o for o in self.circuits if not o["dead"] and o is not c and o["origin"] is c["origin"]]
        trs = [t for t in self.exit_transports(c) if t.local_addr[0] == "0.0.0.0"]
        if not others or not trs:
            return
        y = others[pick % len(others)]
        hop = tuple(y["circuit"].hop.address)
        sender = [(hop[0], 9), hop, ("7.7.7.7", hop[1])][variant % 3]
        inner = b"d6:forged" + struct.pack(">H", y["n"]) + b"e"
        nested = (self.w.prefix + b"\x01" + struct.pack(">I", y["circuit"].circuit_id) + b"\x01\x00\x00\x00\x00\x00\x00"
                  + b"\x01\x01\x02\x03\x04\x00\x05" + inner)
        marks = {idx: len(v) for idx, v in self.raw.items()}
        before_other = self.digest_without(c)
        trs[0].inject(nested, sender)
        await asyncio.sleep(0.05)
        got = [(idx, item) for idx, v in self.raw.items() for item in v[marks[idx]:]]
        for idx, item in got:
            if item[0] != c["circuit"].circuit_id or idx != c["origin"].idx or item[2] not in (nested, ):
                self.fail("J1", "nested_reply", f"an outside party at {sender} answered circuit {c['n']}'s exit socket with a "
                                                f"data message naming circuit {y['n']} (first hop {hop}); delivered: "
                                                f"node {idx} got {item[2][:40]!r} labelled circuit id {item[0]} origin "
                                                f"{item[1]}")
        if self.loop.time() == self.loop.time() and before_other != self.digest_without(c):
            self.fail("J2", "nested_reply", f"entries of other circuits changed through a nested data message")
        self.nontrivial = True
        self.executed.append(("nested_reply", variant % 3))

    async def reply_and_check(self, c: dict, tag: int) -> None:
        payload = self.tag_payload(c, tag, back=True)
        marks = {idx: len(v) for idx, v in self.raw.items()}
        trs = [t for t in self.exit_transports(c) if t.local_addr[0] == "0.0.0.0"]
        if not trs:
            return
        trs[0].inject(payload, c["dest"])
        await asyncio.sleep(0.05)
        got = []
        for idx, v in self.raw.items():
            for item in v[marks[idx]:]:
                got.append((idx, item))
        want = [(c["origin"].idx, (c["circuit"].circuit_id, c["dest"], payload))]
        if got != want:
            self.fail("J1", "originator", f"reply for circuit {c['n']} was delivered as {got}, expected {want}")
        self.executed.append(("reply", len(c["entries"])))

    async def adversarial(self, i: int, op: list) -> None:
        w = self.w
        kind = op[0]
        # whatever the honest nodes have due at this very instant (a ping round, the 5-second sweep that drops dead
        # circuits, a pending reply) happens before the state is recorded, not during the adversarial step
        await w.net.settle()
        await asyncio.sleep(0)
        await w.net.settle()
        live = [c for c in self.circuits if not c["dead"]]
        outsider = self.outsider
        if kind == "unknown_cell":
            target = w.nodes[op[1] % len(w.nodes)]
            cid = op[2] & 0xFFFFFFFF
            if any(cid in t for nd in w.nodes for t in (nd.overlay.circuits, nd.overlay.relay_from_to,
                                                        nd.overlay.exit_sockets)):
                return
            cell = w.prefix + b"\x00" + struct.pack(">I", cid) + b"\x00\x00" + os.urandom(40 + op[3] % 60)
            before = w.routing_digest()
            w.net.inject(("6.6.6.6", 6000), target.address, cell)
            await w.net.settle()
            self.same(before, i, op, "unknown_cell")
            self.executed.append(("unknown_cell",))
            return
        if not live:
            return
        c = live[op[1] % len(live)]
        entry = c["entries"][op[2] % len(c["entries"])]
        node, ekind, cid, prev, nxt = entry
        adjacent = prev or nxt
        if kind == "forged_cell":
            from ipv8_rust_tunnels import generate_session_keys
            keys = generate_session_keys(os.urandom(64))
            if (op[3] >> 3) & 1:
                # shaped like data coming back from outside (destination 0.0.0.0:0, an origin): for an originator entry
                msg = b"\x01" + b"\x01\x00\x00\x00\x00\x00\x00" + b"\x01\x09\x09\x09\x09\x00\x09" + b"d4:evile"
            else:
                msg = b"\x01" + b"\x01\x05\x05\x05\x05\x15\xb3" + b"\x01\x00\x00\x00\x00\x00\x00" + b"d4:evile"
            if (op[3] >> 5) & 1:
                # a bare cell: the message not encrypted at all and the plaintext flag left clear
                cell = w.prefix + b"\x00" + struct.pack(">I", cid) + b"\x00\x00" + msg
            elif (op[3] >> 2) & 1:
                # the unauthenticated plaintext flag set, the message not encrypted at all
                cell = w.prefix + b"\x00" + struct.pack(">I", cid) + b"\x01\x00" + msg
            else:
                cell = w.prefix + b"\x00" + struct.pack(">I", cid) + b"\x00\x00" + keys.encrypt_str(msg, op[3] % 2)
            src = adjacent.address if (op[3] & 2 and adjacent is not None) else ("6.6.6.6", 6000)
            dst = node.address
            if (op[3] >> 4) & 1 and node.address6 is not None:
                # the forged cell arrives on the node's second address family
                dst, src = node.address6, (adjacent.address6 if (op[3] & 2 and adjacent is not None) else ("2001:db8::bad", 6000))
            before = w.routing_digest()

            def counters() -> dict:
                # traffic / liveness bookkeeping of the entries that authenticate what they receive (the originator's
                # circuit and the exit socket; a relay forwards - and counts - cells it cannot authenticate by design)
                out = {}
                for tbl in ("circuits", "exit_sockets"):
                    ent = getattr(node.overlay, tbl).get(cid)
                    if ent is not None:
                        out[tbl] = (ent.bytes_up, ent.bytes_down, ent.last_activity)
                return out
            # whatever the honest nodes have due at this very instant (a ping round, a pending reply) happens first
            await w.net.settle()
            await asyncio.sleep(0)
            await w.net.settle()
            before = w.routing_digest()
            counters_before = counters()
            t_before = self.loop.time()
            sent_before = sum(len(t.sent) for t in self.loop.transports)
            raw_before = sum(len(v) for v in self.raw.values())
            w.net.inject(src, dst, cell)
            await w.net.settle()
            self.same(before, i, op, "forged_cell:" + ekind)
            # (if virtual time moved while the network settled, periodic traffic of the honest nodes - pings, pending
            # replies - may have touched the entry: the comparison is only made when no time has passed)
            if self.loop.time() == t_before and counters() != counters_before:
                self.fail("J1", "forged_cell:counters:" + ekind,
                          f"a cell forged without the circuit's keys changed the traffic / activity bookkeeping of the "
                          f"{ekind} entry from {counters_before} to {counters()}")
            if sum(len(t.sent) for t in self.loop.transports) != sent_before or \
                    sum(len(v) for v in self.raw.values()) != raw_before:
                self.fail("J1", "forged_cell:" + ekind, "a cell forged without the circuit's keys caused a delivery")
            self.nontrivial = True
            self.executed.append(("forged_cell", ekind, "bare" if (op[3] >> 5) & 1 else "plainflag" if (op[3] >> 2) & 1 else "garbage",
                                  "v6" if dst is not node.address else "v4"))
        elif kind == "destroy_half":
            # one direction of a relay has already been reclaimed by the relay's own sweep (each direction expires on its
            # own: one-way traffic, a traffic limit); the remaining one is then named by a destroy that an outsider signed
            if ekind not in ("relay", "relay_back") or cid not in node.overlay.relay_from_to:
                return
            other = node.overlay.relay_from_to[cid].circuit_id
            c["dead"] = True
            node.overlay.remove_relay(other, "no activity", remove_now=True)
            await asyncio.sleep(w.nodes[0].overlay.settings.remove_tunnel_delay + 0.5)
            await w.net.settle()
            if cid not in node.overlay.relay_from_to or other in node.overlay.relay_from_to:
                return          # torn down meanwhile by its own neighbours: nothing left to protect
            if outsider in [e[0] for e in c["entries"]]:
                return
            route = node.overlay.relay_from_to[cid]
            outsider.overlay.send_destroy(node.address, cid, [1, 2, 4, 0][op[3] % 4])
            await w.net.settle()
            # (a removal lingers for remove_tunnel_delay before the entry goes; 11 s in all, well below the 20 s after
            # which the entry's own inactivity would remove it legitimately)
            await asyncio.sleep(w.nodes[0].overlay.settings.remove_tunnel_delay + 0.5)
            if node.overlay.relay_from_to.get(cid) is not route:
                self.fail("J3", "outsider_destroy:half_relay", f"a destroy signed by an outsider removed relay entry {cid} at "
                                                               f"node {node.idx} whose other direction had already expired")
            self.nontrivial = True
            self.executed.append(("destroy_half", ekind))
        elif kind == "twin_create":
            # a third party that saw the plaintext create which opened circuit X's last entry replays it to the same node
            # under an unused circuit id: that node legally opens a circuit B with the third party as neighbour (which
            # holds no keys). It then relabels one of X's data cells to B: B must not accept it.
            last = c["entries"][-1]
            enode, _, ecid = last[0], last[1], last[2]
            created_by = [fl for fl in w.net.log if fl.dst == enode.address and (parse_cell(fl.data, w.prefix) or {}).get(
                "plaintext") and parse_cell(fl.data, w.prefix)["circuit_id"] == ecid
                and parse_cell(fl.data, w.prefix)["message"][:1] == b"\x02"]
            if not created_by or not c["opened"]:
                return
            twin = (ecid ^ 0x5A5A5A5A ^ op[3]) & 0xFFFFFFFF
            if any(twin in t for nd in w.nodes for t in (nd.overlay.circuits, nd.overlay.relay_from_to, nd.overlay.exit_sockets)):
                return
            m_addr = ("6.6.7.7", 6007)      # an address no other adversarial step uses
            w.net.inject(m_addr, enode.address, created_by[-1].data[:23] + struct.pack(">I", twin) + created_by[-1].data[27:],
                         note="create replayed under another circuit id")
            await w.net.settle()
            copied = []

            def relabel(fl):
                cell = parse_cell(fl.data, w.prefix)
                if cell is not None and not cell["plaintext"] and fl.dst == enode.address and cell["circuit_id"] == ecid \
                        and fl.origin is not None and not copied:
                    copied.append(fl)
                    w.net.inject(m_addr, enode.address, fl.data[:23] + struct.pack(">I", twin) + fl.data[27:],
                                 note="cell of X relabelled to the twin circuit")
                return None
            prev_hook, w.net.on_send = w.net.on_send, relabel
            try:
                await self.send_and_check(c, 7000 + i)
            finally:
                w.net.on_send = prev_hook
            await w.net.settle()
            tsock = enode.overlay.exit_sockets.get(twin)
            leaked = [] if tsock is None else [d for t in (tsock.transport_ipv4, tsock.transport_ipv6) if t is not None
                                               for (d, a) in t.sent]
            if tsock is not None and (tsock.enabled or leaked):
                self.fail("J1", "twin_create:exit", f"a data cell of circuit {c['n']}, relabelled by a party without any keys to "
                                                    f"a circuit that the same exit node opened from a replayed create, was "
                                                    f"accepted there (outside socket opened: {tsock.enabled}, emitted "
                                                    f"{[x[:16] for x in leaked]}): two circuits share session keys")
            self.nontrivial = self.nontrivial or bool(copied)
            self.executed.append(("twin_create", "joined" if tsock is not None else "refused", bool(copied)))
        elif kind == "create_live":
            from ipv8.messaging.anonymization.payload import CreatePayload
            sender = outsider if op[3] % 2 == 0 or adjacent is None else adjacent
            if sender is node:
                return
            _, first = sender.overlay.crypto.generate_diffie_secret()
            before = w.routing_digest()
            sender.overlay.send_cell(node.address, CreatePayload(cid, op[3] & 0xFFFF,
                                                                 sender.my_peer.public_key.key_to_bin(), first))
            await w.net.settle()
            self.same(before, i, op, "create_live:" + ekind)
            self.nontrivial = True
            self.executed.append(("create_live", ekind, "fresh" if self.loop.time() - c["circuit"].creation_time < 60
                                  else "after60s"))
        elif kind == "destroy":
            signer_kind = op[3] % 4
            reason = [1, 2, 4, 0, 65535][op[4] % 5]
            from ipv8.messaging.anonymization.payload import DestroyPayload
            if signer_kind == 0:
                if adjacent is None:
                    return
                # legitimate: the adjacent node on that side of the circuit
                signer = adjacent
                before_other = self.digest_without(c)
                signer.overlay.send_destroy(node.address, cid, reason)
                await w.net.settle()
                if op[4] % 2 == 0 and any(not t.closed for t in c.get("trs", [])):
                    # an outside answer arrives while the exit's socket lingers
                    await self.late_reply_and_check(c, op[4])
                await asyncio.sleep(w.nodes[0].overlay.settings.remove_tunnel_delay + 1)
                for (nd, k, ecid, _, _) in c["entries"]:
                    if nd is node and ecid == cid:
                        table = {"circuit": nd.overlay.circuits, "exit": nd.overlay.exit_sockets}.get(
                            k, nd.overlay.relay_from_to)
                        if ecid in table:
                            self.fail("J3", "legit_destroy:" + k, f"destroy from the adjacent node did not remove the {k} "
                                                                  f"entry {ecid} at node {nd.idx}")
                after_other = self.digest_without(c)
                if before_other != after_other:
                    self.fail("J3", "legit_destroy:collateral", f"a legitimate destroy for circuit {c['n']} changed "
                                                                f"entries of other circuits")
                c["dead"] = True
                self.nontrivial = True
                self.executed.append(("destroy_legit", ekind))
                return
            if signer_kind == 1:
                members = [e[0] for e in c["entries"] if e[0] is not node and e[0] is not adjacent]
                members = [m for m in members if m not in (prev, nxt)]
                if not members:
                    return
                signer = members[op[4] % len(members)]
                # a member two or more hops away is not the neighbour for this id
                if self.is_neighbour(c, node, cid, signer):
                    return
                src = None
            elif signer_kind == 2:
                signer, src = outsider, None
                if outsider in [e[0] for e in c["entries"]]:
                    return
            else:
                signer, src = outsider, (adjacent.address if adjacent is not None else None)
                if outsider in [e[0] for e in c["entries"]] or src is None:
                    return
            packet = signer.overlay.ezr_pack(DestroyPayload.msg_id, DestroyPayload(cid, reason))
            before = w.routing_digest()
            tasks_before = {id(t) for t in node.overlay.get_anonymous_tasks("remove_")}
            if src is None:
                signer.overlay.send_packet(node.address, packet)
            else:
                w.net.inject(src, node.address, packet)
            await w.net.settle()
            self.same(before, i, op, "destroy:" + ["", "nonadjacent", "outsider", "spoofed"][signer_kind] + ":" + ekind)
            tasks_pending = [t for t in node.overlay.get_anonymous_tasks("remove_") if id(t) not in tasks_before]
            if tasks_pending:
                self.fail("J3", "destroy:" + ["", "nonadjacent", "outsider", "spoofed"][signer_kind] + ":" + ekind,
                          "an unauthorised destroy scheduled a removal")
            self.nontrivial = True
            self.executed.append(("destroy_bad", signer_kind, ekind))

    def is_neighbour(self, c: dict, node, cid: int, signer) -> bool:
        for (nd, k, ecid, prev, nxt) in c["entries"]:
            if nd is node and ecid == cid and signer in (prev, nxt):
                return True
        return False

    def digest_without(self, c: dict) -> dict:
        """
        Identity digest of the entries of every OTHER live circuit (entries that are lingering because a removal task
        is already pending for them - e.g. the exit entry of a node that just became a relay - are not anybody's).
        """
        d = self.w.routing_digest()
        out = {}
        for other in self.circuits:
            if other is c or other["dead"]:
                continue
            for (nd, k, ecid, _, _) in other["entries"]:
                tbl = {"circuit": "circuits", "exit": "exits"}.get(k, "relays")
                out[(other["n"], nd.idx, k, ecid)] = d[nd.idx][tbl].get(ecid)
        return out

    def same(self, before: dict, i: int, op: list, site: str) -> None:
        after = self.w.routing_digest()
        if after != before:
            diff = []
            for idx in before:
                for tbl in before[idx]:
                    if before[idx][tbl] != after[idx][tbl]:
                        gone = set(before[idx][tbl]) - set(after[idx][tbl])
                        new = set(after[idx][tbl]) - set(before[idx][tbl])
                        changed = {k for k in set(before[idx][tbl]) & set(after[idx][tbl])
                                   if before[idx][tbl][k] != after[idx][tbl][k]}
                        diff.append(f"node {idx} {tbl}: removed {sorted(gone)} added {sorted(new)} replaced {sorted(changed)}")
            self.fail("J2", site, f"step {i} {op} changed routing state: {'; '.join(diff)}")

    async def final_probe(self) -> None:
        for c in self.circuits:
            if c["dead"]:
                continue
            if c["circuit"].circuit_id not in c["origin"].overlay.circuits:
                # may have been removed by its own age/inactivity limits during long advances: not an isolation matter
                continue
            if c["circuit"].state != "READY":
                continue
            try:
                await self.send_and_check(c, 0xFFFFFFFF)
            except Violation as v:
                raise Violation("J4", "probe", f"circuit {c['n']} no longer carries data at the end: {v.msg}", self.case)


def run_reuse_case(ctx: Ctx | None, case: dict) -> None:
    """
    A circuit id that comes free and is taken again while old handshake traffic for it is still under way.

    A builds A -> R -> E; E's created answer to R is late. Meanwhile A tears its circuit down (signed destroy), R's entry
    for it goes after the removal delay, and another originator C opens a one-hop circuit to R that happens to get the
    SAME circuit id (ids are random 32-bit numbers; the harness forces the collision). Then the late answer reaches R.
    Whether R lets C use the id that early is R's business; if it does, C's circuit is C's: its data leaves at R only, R
    keeps C's exit entry, nothing of it reaches E or A.
    """
    from ..tunnelsim import parse_cell

    def fail(clause, site, msg):
        raise Violation(clause, "reuse:" + site, msg, case)
    c = case["reuse"]
    info = {"nt": False, "cls": "reuse/refused"}

    async def main(loop):
        w = World(loop, 4)
        try:
            a, r, e, cn = w.nodes
            peer = {(x.idx, y.idx): next(p for p in x.overlay.candidates
                                         if p.public_key.key_to_bin() == y.key.pub().key_to_bin())
                    for x in w.nodes for y in w.nodes if x is not y}
            # A only knows R as relay and E as exit: its two-hop circuit is A -> R -> E
            a.overlay.candidates.pop(peer[(0, 3)], None)
            held: list = []

            def hook(fl):
                cell = parse_cell(fl.data, w.prefix)
                if cell is not None and cell["plaintext"] and cell["message"][:1] == b"\x03" and \
                        fl.src == e.address and fl.dst == r.address and not held:
                    held.append(fl)
                    return []
                return None
            w.net.on_send = hook
            import random
            random.seed(case.get("seed", 5))
            ca = a.overlay.create_circuit(2, required_exit=peer[(0, 2)])
            if ca is None:
                raise HarnessError("A could not start its circuit")
            a1 = ca.circuit_id
            await asyncio.sleep(c["destroy_at"])
            if not held:
                raise HarnessError("E's created answer was not seen")
            if a1 not in r.overlay.exit_sockets:
                raise HarnessError("R holds no entry for A's circuit")
            await a.overlay.remove_circuit(a1, "gone", remove_now=True, destroy=True)
            await asyncio.sleep(c["reuse_at"] - c["destroy_at"])
            cn.overlay._generate_circuit_id = lambda: a1  # noqa: SLF001 - an (honest) collision of random ids
            got: list = []
            cn.overlay.on_raw_data = lambda circ, org, data: got.append((circ.circuit_id, tuple(org), data))
            cc = cn.overlay.create_circuit(1, required_exit=peer[(3, 1)])
            await asyncio.sleep(0.5)
            ready = cc is not None and cc.state == "READY" and cc.circuit_id == a1
            if ready:
                owner = r.overlay.exit_sockets.get(a1)
                if owner is None or owner.hop.peer.public_key.key_to_bin() != cn.key.pub().key_to_bin():
                    raise HarnessError("C's circuit is ready but R has no exit entry for it")
            await asyncio.sleep(max(0.0, c["late_at"] - c["reuse_at"] - 0.5))
            w.net.on_send = None
            before = w.routing_digest()
            fl = held[0]
            w.net.inject(fl.src, fl.dst, fl.data, note="late created of the abandoned extend")
            await w.net.settle()
            await asyncio.sleep(0.2)
            if not ready:
                return
            info["nt"], info["cls"] = True, "reuse/accepted"
            ent = r.overlay.exit_sockets.get(a1)
            if ent is None or ent.hop.peer.public_key.key_to_bin() != cn.key.pub().key_to_bin():
                fail("J2", "exit_entry", f"R accepted C's circuit under id {a1}; after the late created answer of A's abandoned "
                                         f"extend R no longer holds C's exit entry (relay entries: "
                                         f"{sorted(k for k in r.overlay.relay_from_to)})")
            seq0 = w.net.seq
            sent0 = {id(t): len(t.sent) for t in loop.transports}
            cn.overlay.send_data(cc.hop.address, cc.circuit_id, ("5.5.5.5", 5555), ("0.0.0.0", 0), b"d4:mine1:ce")
            await asyncio.sleep(0.5)
            where = []
            for t in loop.transports:
                if any(d == b"d4:mine1:ce" for d, _ in t.sent[sent0.get(id(t), 0):]):
                    sock = getattr(getattr(t.protocol, "received_cb", None), "__self__", None)
                    where.append(next((nd.idx for nd in w.nodes if nd.overlay is getattr(sock, "overlay", None)), None))
            if where != [r.idx]:
                fail("J1", "exit", f"data C sent into its ready one-hop circuit to R left at nodes {where}")
            stray = [(f.src, f.dst) for f in w.net.log if f.seq > seq0 and f.dst in (e.address, a.address)
                     and parse_cell(f.data, w.prefix) is not None]
            if stray:
                fail("J1", "stray_cells", f"after C sent data into its circuit, cells travelled to nodes that are not on it: "
                                          f"{stray[:3]}")
            del before
        finally:
            w.net.on_send = None
            await w.close()
    try:
        vloop.run(main)
    finally:
        if ctx is not None:
            ctx.case(("reuse", tuple(sorted(c.items()))), info["nt"], cls=info["cls"], sample=case)


def run_case(ctx: Ctx | None, case: dict) -> None:
    if "reuse" in case:
        return run_reuse_case(ctx, case)
    r = Run(ctx, case)
    try:
        vloop.run(r.main)
    finally:
        if ctx is not None:
            ctx.case(tuple(r.executed), r.nontrivial, cls="ops%02d" % min(len(r.executed), 30), sample=case)


def _strategy(max_ops: int):
    from hypothesis import strategies as st
    i = st.integers(0, 1000)
    op = st.one_of(
        st.tuples(st.just("open"), i, i, i).map(list),
        st.tuples(st.just("open"), i, i, i).map(list),
        st.tuples(st.just("open_under_fire"), i, i, i, i).map(list),
        st.tuples(st.just("send"), i, i).map(list),
        st.tuples(st.just("burst"), i).map(list),
        st.tuples(st.just("reply"), i, i).map(list),
        st.tuples(st.just("late_reply"), i, i).map(list),
        st.tuples(st.just("nested_reply"), i, i, i).map(list),
        st.tuples(st.just("advance"), st.sampled_from([0.5, 3.0, 8.0, 61.0])).map(list),
        st.tuples(st.just("unknown_cell"), i, st.integers(0, 2**32 - 1), i).map(list),
        st.tuples(st.just("forged_cell"), i, i, i).map(list),
        st.tuples(st.just("create_live"), i, i, i).map(list),
        st.tuples(st.just("create_live"), i, i, i).map(list),
        st.tuples(st.just("twin_create"), i, i, i).map(list),
        st.tuples(st.just("destroy"), i, i, i, i).map(list),
        st.tuples(st.just("destroy"), i, i, i, i).map(list),
        st.tuples(st.just("destroy_half"), i, i, i).map(list),
    )
    head = st.tuples(st.just("open"), i, i, i).map(list)
    return st.fixed_dictionaries({
        "nodes": st.integers(4, 6),
        "stack": st.sampled_from([None, None, "v4", "dual", "dual"]),
        "ops": st.tuples(head, head, st.lists(op, max_size=max_ops)).map(lambda t: [t[0], t[1], *t[2]]),
    })


def _grid_cases() -> list:
    """
    Every forged-cell variant (6 bits: cipher direction, claimed source, plaintext flag, shape, address family, bare)
    against every entry of two circuits in use, on each kind of endpoint stack - independent of what is drawn.
    """
    out = []
    for stack in (None, "v4", "dual"):
        for hops in (1, 2, 3):
            # a circuit of `hops` hops has 2 * hops entries (originator, two per relay, exit)
            for e in range(2 * hops):
                ops = [["open", 1, hops - 1, 3], ["open", 2, 2, 6], ["send", 0, 1], ["send", 1, 2]]
                ops += [["forged_cell", 0, e, v] for v in range(64)]
                out.append({"nodes": 5, "stack": stack, "ops": ops})
    for hops in (1, 2, 3):
        for e in range(2 * hops):
            out.append({"nodes": 5, "stack": None, "ops": [["open", 1, hops - 1, 3], ["open", 2, 1, 6], ["send", 0, 1],
                                                            ["destroy_half", 0, e, e]]})
        out.append({"nodes": 5, "stack": None, "ops": [["open", 1, hops - 1, 3], ["open", 2, 1, 6], ["send", 0, 1], ["send", 1, 2],
                                                        ["twin_create", 0, 0, 1], ["twin_create", 1, 0, 2], ["send", 0, 3]]})
        for variant in [*range(10), 64, 65, 128, 129, 130, 131]:
            out.append({"nodes": 5, "stack": None, "ops": [["open", 1, 1, 3], ["open_under_fire", 2, hops - 1, 5, variant],
                                                            ["send", 0, 1], ["send", 1, 2]]})
    return out


def _shard(ctx: Ctx, shard: int, nshards: int, n: int, max_ops: int) -> None:
    for k, case in enumerate(_grid_cases()):
        if k % nshards == shard:
            try:
                run_case(ctx, case)
            except Violation as v:
                ctx.violation(v)
    hyp_run(ctx, "histories", _strategy(max_ops), lambda c: run_case(ctx, c), n)
    from hypothesis import strategies as st
    reuse = st.tuples(st.sampled_from([0.1, 0.5, 1.0, 3.0]), st.sampled_from([0.2, 1.0, 5.2, 5.6, 6.5, 8.0]),
                      st.sampled_from([0.7, 1.5, 2.0]), st.integers(0, 50)).map(
        lambda t: {"reuse": {"destroy_at": t[0], "reuse_at": t[0] + t[1], "late_at": min(9.8, t[0] + t[1] + t[2])},
                   "seed": t[3]})
    hyp_run(ctx, "id_reuse", reuse, lambda c: run_case(ctx, c), max(4, n // 25))


def _anon_shard(ctx: Ctx, shard: int, nshards: int, deep: int) -> None:
    # traffic fed in through a TunnelEndpoint (hops 1..3) while its circuit is still being built / already ready: it leaves
    # only through the exit of a circuit of the configured length (scenario shared with C04, clause wrong_exit)
    from .c04_onion import run_anon_out
    jobs = [{"kind": "anon_out", "hops": hops, "seed": seed, "early": early, "late": 2, "gap": gap, "size": 30, "stack": stack}
            for hops in (1, 2, 3) for early in (0, 1, 3) for gap in (0.0, 0.01, 0.3)
            for stack in (None, "dual") for seed in range(ctx.seed, ctx.seed + (2 if not deep else 12))]
    for i, case in enumerate(jobs):
        if i % nshards != shard:
            continue
        try:
            run_anon_out(ctx, case)
        except Violation as v:
            ctx.violation(v)


def run(ctx: Ctx) -> None:
    if ctx.quick:
        shard_run(ctx, _shard, extra=(250, 25))
        shard_run(ctx, _anon_shard, extra=(0,))
    else:
        shard_run(ctx, _shard, extra=(12000, 60))
        shard_run(ctx, _anon_shard, extra=(1,))


def replay(ctx: Ctx, case: dict) -> None:
    if case.get("kind") == "anon_out":
        from .c04_onion import run_anon_out
        run_anon_out(None, case)
        return
    run_case(None, case)
