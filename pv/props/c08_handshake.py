"""
C08 - circuit hops are only keyed with the peer the originator chose.

Circuits are built by the real protocol while the harness manipulates the plaintext `created` answers on any link
(what a wire attacker or a compromised relay can do): field bit flips, ephemeral-key substitution with a correctly
computed auth tag, identifier / circuit-id swaps, answers of another circuit, replays of an earlier attempt,
duplicates, delays past the retry timeout.

Oracle (reference handshake written from the protocol description; x = originator's ephemeral secret of the hop,
Y = ephemeral key received, B = static key of the peer the originator selected):
  K1 honest runs: for every hop the selected node holds key material identical to the originator's, and the hop list
     names exactly the selected peers in order;
  K2 every hop the originator accepts has session keys expanded from x.Y || x.B for some Y that was on the wire -
     so only someone knowing b (or x) can know them; in particular never from material an attacker can compute;
  K3 identity, peer and keys of an established hop never change afterwards;
  K4 the hop list only ever grows by hops the originator itself selected (same Hop object, same peer key as when
     the request left).
"""
from __future__ import annotations

import asyncio
import struct

from .. import vloop
from ..core import Ctx, Violation, hyp_run, shard_run
from ..tunnelsim import World, parse_cell

PID = "C08"
LEVEL = "exploration"
RULE = ("Hypothesis-drawn cases: hops 1..3, 0..3 manipulations of the n-th plaintext created cell on the wire (flip in "
        "identifier / key / auth / candidates / circuit id; ephemeral substitution with valid auth; swap with the created "
        "of a concurrently built circuit; replay of an earlier created after a retry; duplicate; delay past "
        "next_hop_timeout; drop; late answer just before the next candidate's; damaged copy followed by the original; "
        "create diverted to another verified peer that answers from its own address (impostor); substituted key with a "
        "matching authenticator and no candidate list (substitute_empty); replay of a recorded create long after the "
        "handshake; an answer naming another tunnel's circuit id (cid_of_exit, fixed seed range + drawn)), optional second "
        "concurrent circuit, next_hop_timeout 10 s (default) or 3 s; a grid of every manipulation x position x 3 arguments "
        "independent of VERIF_SEED. Clause K2 key_confirmation: keys the originator accepts for a hop of a circuit that "
        "becomes ready are keys the selected peer holds. Non-trivial = a manipulated created/extended reaches "
        "the originator (or its relay) while a retry cache for that circuit is outstanding; distinct = the complete case "
        "(hops, seed, manipulations with arguments, second circuit, next_hop_timeout).")
ASSUMPTIONS = [
    "X25519, HMAC, HKDF and AEAD of ipv8_rust_tunnels are trusted; the reference derivation uses the same primitives "
    "on independently chosen inputs (x from the hop object, Y from the wire, B from the selected node's real key)",
    "a compromised relay is modelled by manipulating the plaintext created cell it receives (it can do no more without "
    "the originator's keys)",
]

NETWORK_FAULTS = {"duplicate", "delay", "drop", "late_before_next", "replay_earlier", "replay_create"}
MANIPS = ["flip_identifier", "flip_key", "flip_auth", "flip_candidates", "flip_cid", "substitute", "swap_other",
          "replay_earlier", "duplicate", "delay", "drop", "late_before_next", "flip_candidates_then_original", "impostor", "substitute_empty", "own_created_replayed"]


def parse_created(msg: bytes) -> dict | None:
    """
    Reference layout of a created message inside a plaintext cell: 03 | u16 identifier | u16 n | key | 32 auth | rest
    """
    if len(msg) < 5 or msg[0] != 3:
        return None
    ident, n = struct.unpack_from(">HH", msg, 1)
    if len(msg) < 5 + n + 32:
        return None
    return {"identifier": ident, "key": msg[5:5 + n], "auth": msg[5 + n:5 + n + 32], "rest": msg[5 + n + 32:],
            "key_off": 5, "auth_off": 5 + n, "rest_off": 5 + n + 32}


def parse_create(msg: bytes) -> dict | None:
    if len(msg) < 5 or msg[0] != 2:
        return None
    ident, n = struct.unpack_from(">HH", msg, 1)
    pk = msg[5:5 + n]
    m, = struct.unpack_from(">H", msg, 5 + n)
    return {"identifier": ident, "node_public_key": pk, "key": msg[7 + n:7 + n + m]}


class Run:
    def __init__(self, case: dict) -> None:
        self.case = case
        self.info = {"nontrivial": False, "cls": "", "desc": None}
        self.selections: dict[int, list] = {}     # circuit id -> [(hop object, pk at selection time)]
        self.wire_Y: list[bytes] = []
        self.create_X: dict[tuple, bytes] = {}    # (src, dst, circuit id) -> X of the create seen on that link
        self.created_seen = 0
        self.stash: list = []
        self.applied: list = []
        self.established: dict[int, list] = {}

    def fail(self, clause: str, site: str, msg: str) -> None:
        raise Violation(clause, site, msg, self.case)

    async def main(self, loop: vloop.VirtualLoop) -> None:
        from ipv8_rust_tunnels import crypto_auth

        from ipv8.keyvault.crypto import default_eccrypto
        c = self.case
        hops = c["hops"]
        # next_hop_timeout: the production default (10 s) or a shorter drawn value - with a shorter one an answer to an
        # abandoned attempt can still find the relay's pending-extend record alive
        w = World(loop, hops + 2, next_hop_timeout=c.get("nht", 10))
        self.w = w
        if c.get("slow_join"):
            # the admission hook (a coroutine "intended to be overwritten") really takes time on every node
            for nd in w.nodes:
                def slow(orig=nd.overlay.should_join_circuit, ms=c["slow_join"]):
                    async def should_join_circuit(create_payload, previous_node_address):
                        await asyncio.sleep(ms / 1000.0)
                        return await orig(create_payload, previous_node_address)
                    return should_join_circuit
                nd.overlay.should_join_circuit = slow()
        manips = {m["nth"]: m for m in c["manips"]}
        attacker = default_eccrypto.generate_key("curve25519")
        origin = w.nodes[0]
        try:
            def hook(fl):
                cell = parse_cell(fl.data, w.prefix)
                if cell is None:
                    return None
                # selections: whatever the originator's unverified hop names when one of its requests leaves
                if fl.origin is not None:
                    nd = w.by_addr.get(fl.real_src or fl.src)
                    if nd is not None:
                        circ = nd.overlay.circuits.get(cell["circuit_id"])
                        if circ is not None and circ.unverified_hop is not None:
                            lst = self.selections.setdefault(id(circ), [])
                            if not lst or lst[-1][0] is not circ.unverified_hop:
                                lst.append((circ.unverified_hop, circ.unverified_hop.peer.public_key.key_to_bin()))
                if not cell["plaintext"]:
                    return None
                cr = parse_create(cell["message"])
                if cr is not None:
                    self.create_X[(fl.dst, fl.src, cell["circuit_id"])] = cr["key"]
                    self.creates.append((fl.src, fl.dst, bytes(fl.data)))
                    if c.get("dup_create") and fl.origin is not None:
                        # the network delivers every create request twice, back to back
                        w.net.inject(fl.src, fl.dst, fl.data, note="create duplicated")
                        self.applied.append(("dup_create", len(self.creates)))
                    return None
                cd = parse_created(cell["message"])
                if cd is None:
                    return None
                if self.cid_swap_armed and not self.cid_swapped:
                    # a misbehaving next hop answers the relay's create with a correct created that names ANOTHER tunnel the
                    # relay holds (an exit end of an established circuit) in its circuit-id field
                    rnode = w.by_addr.get(fl.dst)
                    others = [x for x in (rnode.overlay.exit_sockets if rnode is not None else {}) if x != cell["circuit_id"]]
                    if others:
                        self.cid_swapped = True
                        self.applied.append(("cid_of_exit", self.created_seen))
                        self.created_seen += 1
                        self.wire_Y.append(cd["key"])
                        data = bytearray(fl.data)
                        data[23:27] = struct.pack(">I", sorted(others)[0])
                        fl.data = bytes(data)
                        return None
                n = self.created_seen
                self.created_seen += 1
                # answers held back by "late_before_next" overtake this one: they arrive just before it
                for (hs, hd, hdata) in self.held:
                    w.net.inject(hs, hd, hdata, note="late, just before the next created")
                self.held = []
                m = manips.get(n)
                self.wire_Y.append(cd["key"])
                if fl.dst == origin.address and self.first_created is None:
                    self.first_created = (fl.src, fl.dst, bytes(fl.data))
                if m is None:
                    self.stash.append(fl.data)
                    return None
                kind = m["type"]
                data = bytearray(fl.data)
                base = 29
                bit = 1 << (m["arg"] % 8)
                out = None
                if kind == "flip_identifier":
                    data[base + 1 + m["arg"] % 2] ^= bit
                elif kind == "flip_key":
                    data[base + cd["key_off"] + m["arg"] % max(1, len(cd["key"]))] ^= bit
                elif kind == "flip_auth":
                    data[base + cd["auth_off"] + m["arg"] % 32] ^= bit
                elif kind == "flip_candidates":
                    if not cd["rest"]:
                        return None
                    data[base + cd["rest_off"] + m["arg"] % len(cd["rest"])] ^= bit
                elif kind == "flip_candidates_then_original":
                    # the part of the answer the authenticator does not cover is damaged in a first copy; the unaltered
                    # answer follows right behind it
                    if not cd["rest"]:
                        return None
                    data[base + cd["rest_off"] + m["arg"] % len(cd["rest"])] ^= bit
                    self.applied.append((kind, n))
                    w.net.inject(fl.src, fl.dst, bytes(data), note="candidates flipped")
                    self.stash.append(bytes(fl.data))
                    return None
                elif kind == "flip_cid":
                    data[23 + m["arg"] % 4] ^= bit
                elif kind == "substitute":
                    # the attacker saw X in the plaintext create on this link and answers with its own ephemeral key
                    X = self.create_X.get((fl.src, fl.dst, cell["circuit_id"]))
                    if X is None:
                        return None
                    Yp = attacker.get_crypt_pk()
                    s1 = attacker.diffie_hellman(X)
                    auth = crypto_auth(s1, Yp)
                    data[base + cd["key_off"]:base + cd["key_off"] + len(cd["key"])] = Yp
                    data[base + cd["auth_off"]:base + cd["auth_off"] + 32] = auth
                    self.wire_Y.append(bytes(Yp))
                    self.attacker_s1 = s1
                elif kind == "substitute_empty":
                    # like "substitute", and the part behind the authenticator (the encrypted candidate list) is left
                    # out altogether
                    X = self.create_X.get((fl.src, fl.dst, cell["circuit_id"]))
                    if X is None:
                        return None
                    Yp = attacker.get_crypt_pk()
                    s1 = attacker.diffie_hellman(X)
                    auth = crypto_auth(s1, Yp)
                    data[base + cd["key_off"]:base + cd["key_off"] + len(cd["key"])] = Yp
                    data[base + cd["auth_off"]:base + cd["auth_off"] + 32] = auth
                    del data[base + cd["rest_off"]:]
                    self.wire_Y.append(bytes(Yp))
                    self.attacker_s1 = s1
                elif kind == "own_created_replayed":
                    # a misbehaving first hop answers the pending extend by replaying ITS OWN created answer of the first
                    # exchange, with nothing changed but the identifier (it knows the extend's identifier)
                    if fl.dst == origin.address or self.first_created is None:
                        return None
                    rep = bytearray(self.first_created[2])
                    # (the identifier of the pending extend travels encrypted to the first hop: the harness reads the
                    # value the first hop knows from the originator's pending request)
                    from ipv8.messaging.anonymization.caches import RetryRequestCache
                    pend = origin.overlay.request_cache.get(RetryRequestCache, struct.unpack(">I", rep[23:27])[0])
                    if pend is None:
                        return None
                    rep[base + 1:base + 3] = struct.pack(">H", pend.packet_identifier)
                    self.applied.append((kind, n))
                    w.net.inject(self.first_created[0], self.first_created[1], bytes(rep), note="own created replayed")
                    return []
                elif kind == "swap_other":
                    if not self.stash:
                        return None
                    donor = self.stash[m["arg"] % len(self.stash)]
                    data = bytearray(fl.data[:23] + fl.data[23:27] + donor[27:]) if m["arg"] % 2 else bytearray(
                        fl.data[:29] + donor[29:])
                elif kind == "impostor":
                    # the create meant for the selected first hop is swallowed by ANOTHER peer the originator knows and
                    # has verified; that peer runs the stock responder on it with its own keys and answers from its own
                    # address; the selected peer's answer is lost
                    if fl.dst != origin.address:
                        return None
                    mine = [d for (s_, d_, d) in self.creates if s_ == fl.dst and d_ == fl.src
                            and parse_cell(d, w.prefix)["circuit_id"] == cell["circuit_id"]]
                    others = [nd for nd in w.nodes[1:] if nd.address != fl.src]
                    if not mine or not others:
                        return None
                    imp = others[m["arg"] % len(others)]
                    self.applied.append((kind, n))
                    w.net.inject(origin.address, imp.address, mine[-1], note="create diverted to an impostor")
                    return []
                elif kind == "replay_earlier":
                    self.stash.append(fl.data)
                    self.replay_later = (fl.src, fl.dst, bytes(fl.data))
                    self.applied.append((kind, n))
                    return []
                elif kind == "duplicate":
                    self.applied.append((kind, n))
                    w.net.inject(fl.src, fl.dst, fl.data, note="dup")
                    return None
                elif kind == "delay":
                    self.applied.append((kind, n))
                    loop.call_later(w.nodes[0].overlay.settings.next_hop_timeout + 1 + m["arg"] % 5,
                                    w.net.inject, fl.src, fl.dst, bytes(fl.data), "late")
                    return []
                elif kind == "drop":
                    self.applied.append((kind, n))
                    return []
                elif kind == "late_before_next":
                    # the answer of an attempt that will be abandoned arrives only after the retry went out, right
                    # before the answer of the newly selected candidate
                    self.applied.append((kind, n))
                    self.held.append((fl.src, fl.dst, bytes(fl.data)))
                    return []
                self.applied.append((kind, n))
                self.wire_Y.append(parse_created(bytes(data[29:]))["key"] if parse_created(bytes(data[29:])) else b"")
                self.stash.append(bytes(fl.data))
                fl.data = bytes(data)
                return out
            self.replay_later = None
            self.first_created = None
            self.creates: list = []
            create_replayed = False
            self.held = []
            self.attacker_s1 = None
            w.net.on_send = hook
            import random
            random.seed(c["seed"])
            self.cid_swap_armed = False
            self.cid_swapped = False
            self.worked: dict[int, bool] = {}
            if c.get("cid_of_exit") and hops >= 2:
                # a one-hop circuit is established (and seen to work) first; then the main circuit is built and the answer
                # to one of its extends carries the id of whatever exit end its relay holds
                first = origin.overlay.create_circuit(1)
                await asyncio.sleep(1.0)
                circuits = [None, first]
                self.check_established(origin, circuits)
                await self.probe(loop, origin, circuits, final=False)
                self.cid_swap_armed = True
                circuits[0] = origin.overlay.create_circuit(hops)
            else:
                circuits = [origin.overlay.create_circuit(hops)]
                if c["second"]:
                    circuits.append(origin.overlay.create_circuit(max(1, hops - 1)))
            if circuits[0] is None:
                self.fail("K1", "build", "no circuit could be started on a full mesh")
            replayed = False
            swap_probed = False
            for _ in range(80):
                await asyncio.sleep(1.0)
                self.check_established(origin, circuits)
                await self.probe(loop, origin, circuits, final=False)
                if self.cid_swapped and not swap_probed:
                    # right after the answer that names another tunnel's id has been handled (whatever it left behind
                    # may expire later): the established circuit still ends where it ended
                    swap_probed = True
                    await self.probe(loop, origin, circuits, final=True)
                if self.replay_later is not None and not replayed and loop.time() - vloop.EPOCH > \
                        origin.overlay.settings.next_hop_timeout + 1:
                    src, dst, data = self.replay_later
                    w.net.inject(src, dst, data, note="replay")
                    replayed = True
                if c.get("replay_create") is not None and not create_replayed and self.creates and \
                        loop.time() - vloop.EPOCH > origin.overlay.settings.unstable_timeout + 2:
                    # a network attacker re-delivers a recorded plaintext create request long after the handshake (the
                    # responder's handshake record has expired by then; the hop itself is established and in use)
                    src, dst, data = self.creates[c["replay_create"] % len(self.creates)]
                    w.net.inject(src, dst, data, note="replayed create")
                    self.applied.append(("replay_create", c["replay_create"] % len(self.creates)))
                    create_replayed = True
                    replay_at = loop.time()
                if all(ci is None or ci.state in ("READY", "CLOSING") for ci in circuits) and \
                        (self.replay_later is None or replayed) and loop.time() - vloop.EPOCH > 14 and \
                        (c.get("replay_create") is None or (create_replayed and loop.time() - replay_at > 3)):
                    break
            await asyncio.sleep(0.5)
            self.check_established(origin, circuits)
            if w.net.escaped:
                e = w.net.escaped[0][3]
                self.fail("K2", "exception:" + type(e).__name__, f"{type(e).__name__}: {e} escaped the receive path")
            self.judge(origin, circuits)
            await self.probe(loop, origin, circuits, final=True)
        finally:
            w.net.on_send = None
            await w.close()

    async def probe(self, loop, origin, circuits, final: bool) -> None:
        """
        K5: once a circuit is ready and really ends at the peer the originator names as last hop (data sent into it
        leaves through an outside socket of that node), later handshake messages must not change that - e.g. a late
        answer of an abandoned attempt reaching a relay must not re-point the established hop behind the originator's
        back. The first probe is taken when the circuit is first seen ready, the second at the end of the case.
        """
        w = self.w
        for n, ci in enumerate(circuits):
            if ci is None or ci.state != "READY" or ci.circuit_id not in origin.overlay.circuits:
                continue
            if not final and id(ci) in self.worked:
                continue
            if final and not self.worked.get(id(ci)):
                continue      # never worked (e.g. sabotaged by substituted key material): nothing established to protect
            last = w.by_key.get(ci.hops[-1].peer.public_key.key_to_bin())
            payload = b"d5:probe1:%d1:%de" % (n, int(final))
            before = {id(t): len(t.sent) for t in loop.transports}
            origin.overlay.send_data(ci.hop.address, ci.circuit_id, ("5.5.5.5", 5000 + n), ("0.0.0.0", 0), payload)
            await asyncio.sleep(0.3)
            where = []
            for t in loop.transports:
                if any(d == payload for d, _ in t.sent[before.get(id(t), 0):]):
                    sock = getattr(getattr(t.protocol, "received_cb", None), "__self__", None)
                    owner = getattr(sock, "overlay", None)
                    where.append(next((nd.idx for nd in w.nodes if nd.overlay is owner), None))
            ok = where == [last.idx if last is not None else None]
            if not final:
                self.worked[id(ci)] = ok
            elif not ok:
                self.fail("K5", "established_hop_repointed",
                          f"circuit {n} was ready and ended at node {last.idx if last else None}; after the remaining handshake "
                          f"traffic had been delivered, data sent into it left at nodes {where} (manipulations {self.applied})")

    def check_established(self, origin, circuits) -> None:
        for ci in circuits:
            if ci is None:
                continue
            now = [(id(h), h.peer.public_key.key_to_bin(), id(h.keys), bytes(h.keys.key_forward) if h.keys else None)
                   for h in ci.hops]
            old = self.established.get(id(ci), [])
            if now[:len(old)] != old:
                self.fail("K3", "established_hop", f"an established hop of circuit {ci.circuit_id} changed: "
                                                   f"{[(o[1][-6:].hex(), o[3] and o[3][:4].hex()) for o in old]} -> "
                                                   f"{[(o[1][-6:].hex(), o[3] and o[3][:4].hex()) for o in now]}")
            self.established[id(ci)] = now

    def judge(self, origin, circuits) -> None:
        w = self.w
        c = self.case
        honest = not self.applied
        # every node honest, the network delays / duplicates / re-delivers / loses genuine answers: the exchange that is
        # finally accepted is still an honest one, so a circuit that became ready must be keyed with the peers it names
        only_network = bool(self.applied) and all(kind in NETWORK_FAULTS for kind, _ in self.applied)
        outcome = []
        self.keys_agree: dict[int, list] = {}
        for ci in circuits:
            if ci is None:
                continue
            sel = self.selections.get(id(ci), [])
            sel_ids = {id(h): pk for h, pk in sel}
            order = [id(h) for h, _ in sel]
            last = -1
            for k, h in enumerate(ci.hops):
                # K4: only hops the originator selected itself, unchanged, in selection order
                if id(h) not in sel_ids:
                    self.fail("K4", "hop_list", f"hop {k + 1} of circuit {ci.circuit_id} was never selected by the originator")
                if h.peer.public_key.key_to_bin() != sel_ids[id(h)]:
                    self.fail("K4", "hop_list", f"hop {k + 1} names another peer than the one selected when the request left")
                if order.index(id(h)) <= last:
                    self.fail("K4", "hop_list", "hops are not in selection order")
                last = order.index(id(h))
                node = w.by_key.get(sel_ids[id(h)])
                if node is None:
                    self.fail("K4", "hop_list", "selected peer is not a known node")
                # K2: accepted keys = KDF(x.Y || x.B)
                secret = w.trace.secret_of(h.keys) if h.keys is not None else None
                if secret is None or h.dh_secret is None:
                    self.fail("K2", "derivation", f"hop {k + 1} was accepted without traceable session keys")
                from ipv8_rust_tunnels import generate_session_keys as ref_kdf
                xB = h.dh_secret.diffie_hellman(node.key.get_crypt_pk())
                ok = False
                for Y in self.wire_Y:
                    if len(Y) != 32:
                        continue
                    try:
                        # the key MATERIAL the originator holds must be the expansion of x.Y || x.B
                        ref = ref_kdf(h.dh_secret.diffie_hellman(Y) + xB)
                        if (bytes(ref.key_forward), bytes(ref.key_backward), bytes(ref.salt_forward),
                                bytes(ref.salt_backward)) == (bytes(h.keys.key_forward), bytes(h.keys.key_backward),
                                                              bytes(h.keys.salt_forward), bytes(h.keys.salt_backward)):
                            ok = True
                            break
                    except Exception:  # noqa: BLE001
                        continue
                if not ok:
                    hint = ""
                    if self.attacker_s1 is not None and self.attacker_s1 in secret:
                        hint = " (it contains only material the attacker can compute)"
                    self.fail("K2", "derivation", f"session keys accepted for hop {k + 1} are not derived from "
                                                  f"x.Y || x.B of the selected peer{hint}")
                if self.attacker_s1 is not None and secret in (self.attacker_s1 * 2, self.attacker_s1):
                    self.fail("K2", "derivation", "accepted keys are computable by the attacker")
                # K1: the selected node holds the same key material (always true when honest)
                peer_side = [e.hop.keys for e in list(node.overlay.exit_sockets.values()) +
                             list(node.overlay.relay_from_to.values()) if e.hop.keys is not None]
                same = any(bytes(k2.key_forward) == bytes(h.keys.key_forward) and
                           bytes(k2.key_backward) == bytes(h.keys.key_backward) for k2 in peer_side)
                self.keys_agree.setdefault(id(ci), []).append(same)
                if honest and not same:
                    self.fail("K1", "key_agreement", f"after an honest exchange the selected node does not hold the keys "
                                                     f"the originator holds for hop {k + 1}")
                if only_network and ci.state == "READY" and not same:
                    self.fail("K1", "key_agreement:network_faults",
                              f"all nodes honest, answers only delayed / duplicated / lost ({self.applied}): the circuit is "
                              f"ready, hop {k + 1} names node {node.idx}, but no tunnel at that node holds the session keys "
                              f"the originator accepted for this hop")
                if self.applied and not only_network and ci.state == "READY" and not same:
                    # key confirmation: whatever was done to the answers, keys the originator ACCEPTS for a hop of a
                    # circuit it then uses are keys the selected peer holds (an altered answer is refused, not accepted
                    # with keys nobody shares)
                    self.fail("K2", "key_confirmation",
                              f"after {self.applied} the circuit is ready and hop {k + 1} names node {node.idx}, but no "
                              f"tunnel at that node holds the session keys the originator accepted for this hop")
            if honest and (ci.state != "READY" or len(ci.hops) != ci.goal_hops):
                self.fail("K1", "build", f"honest build ended in state {ci.state} with {len(ci.hops)}/{ci.goal_hops} hops")
            outcome.append((ci.state, len(ci.hops)))
        self.info["nontrivial"] = bool(self.applied)
        self.info["cls"] = "%dhop/%s" % (c["hops"], "+".join(sorted({a[0] for a in self.applied})) or "honest")
        self.info["desc"] = (c["hops"], tuple(self.applied), tuple(outcome), c["second"])


def run_case(ctx: Ctx | None, case: dict) -> None:
    r = Run(case)
    try:
        vloop.run(r.main)
    finally:
        if ctx is not None and r.info["desc"] is not None:
            ctx.case(case, r.info["nontrivial"], cls=r.info["cls"], sample=case)


def _strategy():
    from hypothesis import strategies as st
    manip = st.fixed_dictionaries({"nth": st.integers(0, 4), "type": st.sampled_from(MANIPS), "arg": st.integers(0, 255)})
    return st.fixed_dictionaries({
        "hops": st.integers(1, 3),
        "seed": st.integers(0, 10000),
        "second": st.booleans(),
        "manips": st.lists(manip, max_size=3, unique_by=lambda m: m["nth"]),
        "nht": st.sampled_from([10, 10, 3]),
        "replay_create": st.sampled_from([None, None, None, 0, 1, 2]),
        "cid_of_exit": st.sampled_from([0, 0, 0, 1]),
        "slow_join": st.sampled_from([0, 0, 0, 50, 300]),
        "dup_create": st.sampled_from([0, 0, 1]),
    })


def _shard(ctx: Ctx, shard: int, nshards: int, n: int) -> None:
    hyp_run(ctx, "handshakes", _strategy(), lambda c: run_case(ctx, c), n)


def _grid_shard(ctx: Ctx, shard: int, nshards: int) -> None:
    k = 0
    for hops in (1, 2, 3):
        for nth in range(hops):
            for kind in MANIPS:
                for arg in (0, 7, 130):
                    k += 1
                    if k % nshards != shard:
                        continue
                    case = {"hops": hops, "seed": 11 + k, "second": kind == "swap_other", "nht": 3 if arg == 7 else 10,
                            "manips": [{"nth": nth + (1 if kind == "swap_other" else 0), "type": kind, "arg": arg}]}
                    if kind == "duplicate" and arg == 130 and hops >= 2:
                        case = {"hops": hops, "seed": 11 + k, "second": False, "nht": 10, "manips": [], "cid_of_exit": 1}
                    if kind == "drop" and arg == 130:
                        # grid slot re-used for the honest build followed by a late replay of the nth create request
                        case = {"hops": hops, "seed": 11 + k, "second": False, "nht": 10, "manips": [], "replay_create": nth}
                    try:
                        run_case(ctx, case)
                    except Violation as v:
                        ctx.violation(v)


def _cid_shard(ctx: Ctx, shard: int, nshards: int) -> None:
    # whether the relay of the main circuit also holds the exit end of the first one depends on the drawn peers: a
    # fixed range of seeds makes the situation certain to occur, whatever VERIF_SEED is
    k = 0
    for hops in (2, 3):
        for seed in range(16):
            k += 1
            if k % nshards != shard:
                continue
            try:
                run_case(ctx, {"hops": hops, "seed": 1000 + seed, "second": False, "nht": 10, "manips": [],
                               "cid_of_exit": 1})
            except Violation as v:
                ctx.violation(v)


def _slow_shard(ctx: Ctx, shard: int, nshards: int) -> None:
    # admission that takes time x create requests delivered twice, honest parties only
    k = 0
    for hops in (1, 2, 3):
        for slow in (0, 50, 300):
            for dup in (0, 1):
                for seed in range(2):
                    k += 1
                    if k % nshards != shard or not (slow or dup):
                        continue
                    try:
                        run_case(ctx, {"hops": hops, "seed": 2000 + seed, "second": bool(seed), "nht": 10, "manips": [],
                                       "slow_join": slow, "dup_create": dup})
                    except Violation as v:
                        ctx.violation(v)


def run(ctx: Ctx) -> None:
    shard_run(ctx, _grid_shard)
    shard_run(ctx, _slow_shard)
    shard_run(ctx, _cid_shard)
    shard_run(ctx, _shard, extra=(250 if ctx.quick else 16000,))


def replay(ctx: Ctx, case: dict) -> None:
    run_case(None, case)
