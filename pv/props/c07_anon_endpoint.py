"""
C07 - anonymized overlays never send from the node's own address.

A real TunnelEndpoint sits on a recording raw endpoint; a real TunnelCommunity is attached to it, and its circuit
table is driven by events with real Circuit / Hop objects and real session keys. Words over the event alphabet
(anonymous send, plain send, circuit becomes ready / half-built / closing / removed, attach / detach of the tunnel
community, anonymity toggled, burst of 101 sends) are enumerated exhaustively to a depth and drawn by Hypothesis
beyond.

Oracle per anonymous send while anonymity is requested for that prefix: the packet is carried (a send_data call on a
circuit that at that instant is READY, has goal_hops == configured hops and an exit with the IPv8 flag), or queued
(send_queue, length <= 100), or dropped - and the raw endpoint never receives a datagram that starts with an
anonymised prefix or contains a 16-byte window of such a packet. Packets flushed from the queue are judged the same
way at the moment they are flushed. Plain overlays' packets reach the raw endpoint unchanged, exactly once.
"""
from __future__ import annotations

import asyncio
import hashlib
import itertools
import os

from .. import vloop
from ..core import Ctx, Violation, hyp_run, shard_run

PID = "C07"
LEVEL = "exploration"
RULE = ("event words over a 12-letter alphabet (send_anon, send_anon2, send_plain, ready(hops=cfg, IPv8 exit), "
        "[plus lifecycle events: an anonymised / plain overlay is replaced by a new instance of the same community id and the "
        "old instance unloaded - all words <= 4 over 8 letters containing one, and in the drawn words] "
        "ready(no IPv8 flag), ready(other length), half_built, closing, removed, attach/detach, toggle, burst101): all words "
        "to depth 5 (quick) / 6 (thorough) exhaustively (the expensive burst letter only in words up to length 3), "
        "Hypothesis-drawn words to length 60. Non-trivial = the word has an "
        "anonymous send with no qualifying circuit, or a circuit state change between two anonymous sends; distinct = word.")
ASSUMPTIONS = [
    "AEAD of ipv8_rust_tunnels hides the packet inside cells (checked by the 16-byte window rule, not proven)",
    "the circuit table is driven directly (real Circuit/Hop objects, real keys) instead of by the network protocol; "
    "C04/C05/C09 cover the protocol side",
]

EXIT_IPV8, EXIT_BT, RELAY = 4, 2, 1
ALPHABET = ["send_anon", "send_anon2", "send_plain", "ready_ok", "ready_noflag", "ready_otherlen", "half_built",
            "closing", "removed", "attach_toggle", "anon_toggle", "burst"]
# lifecycle events, used by the Hypothesis-drawn words and by a small exhaustive family of their own
LIFECYCLE = ["replace_overlay", "unload_plain", "load_second_anon"]
EXTRA = ["ready_firsthop_ipv8"]
# messages the anonymised overlay receives (through the tunnel) and reacts to on its own
INCOMING = ["in_intro_request", "in_intro_response6", "in_puncture_request", "in_beacon"]
# what another TunnelEndpoint of the same process does (a second pseudonym running the same community without anonymity)
OTHER = ["other_plain_send", "other_anon_off"]


class Rig:
    """
    One node: raw SimEndpoint <- TunnelEndpoint <- {TunnelCommunity, anonymized overlay A, anonymized overlay A2,
    plain overlay P}.
    """

    def __init__(self, loop, stack: str | None = None) -> None:
        from ipv8.community import Community, CommunitySettings
        from ipv8.messaging.anonymization.community import TunnelCommunity
        from ..nodes import Node
        from ..simnet import SimNet
        self.loop = loop
        self.net = SimNet(loop, auto=False)
        # stack: the TunnelEndpoint wraps a bare endpoint, or a DispatcherEndpoint over IPv4 (+ IPv6) interfaces
        self.stack = stack
        self.node = Node(self.net, 0, tunnel_endpoint=True, dispatcher=stack)
        self.tc = self.node.add(TunnelCommunity)
        self.tc.settings.peer_flags = {RELAY}

        def mk(name: str, cid: bytes, anonymize: bool):
            cls = type(name, (Community,), {"community_id": cid})
            return self.node.add(cls, anonymize=anonymize)
        self.make_overlay = mk
        self.A = mk("AnonA", b"A" * 20, True)
        self.A2 = mk("AnonB", b"B" * 20, True)
        self.P = mk("PlainP", b"P" * 20, False)
        # a remote member of overlay A (plain node): the source of genuine signed messages that A receives
        self.remote = Node(self.net, 1)
        self.B = self.remote.add(type("AnonA", (Community,), {"community_id": b"A" * 20}))
        # another pseudonym of the same process: its own TunnelEndpoint, the same community as A, but plain
        self.node2 = Node(self.net, 2, tunnel_endpoint=True)
        self.P2 = self.node2.add(type("AnonA", (Community,), {"community_id": b"A" * 20}), anonymize=False)
        self.te = self.node.endpoint
        self.cfg_hops = 2
        self.te.set_tunnel_community(self.tc, self.cfg_hops)
        self.base_settings = dict(self.te.settings)
        self.base_settings2 = dict(self.node2.endpoint.settings)
        self.peers = [self._peer(i) for i in range(1, 5)]
        from ipv8_rust_tunnels import generate_session_keys
        self.keys = [generate_session_keys(os.urandom(64)) for _ in range(4)]
        self.calls: list = []
        self.truth: dict[int, tuple] = {}     # circuit id -> flags of its last hop (the exit), as built by the rig
        self.built: dict[int, tuple] = {}     # circuit id -> (goal hops, hops built, exit flags)
        self.closed: set[int] = set()         # circuit ids the rig has closed
        orig = self.tc.send_data

        def traced(target, circuit_id, dest_address, source_address, data):
            circ = self.tc.circuits.get(circuit_id)
            # the exit's flags are taken from what the rig put into the last hop, not from Circuit.exit_flags
            self.calls.append((circuit_id, data, None if circ is None else self.snapshot(circuit_id), tuple(dest_address)))
            return orig(target, circuit_id, dest_address, source_address, data)
        self.tc.send_data = traced
        self.counter = 0

    def _peer(self, i: int):
        from ipv8.messaging.interfaces.udp.endpoint import UDPv4Address
        from ipv8.peer import Peer
        from .. import keypool
        return Peer(keypool.key(i).pub().key_to_bin(), UDPv4Address(f"1.0.0.{i + 1}", 8000 + i))

    def reset(self) -> None:
        self.tc.circuits.clear()
        self.node2.endpoint.send_queue.clear()
        self.node2.endpoint.settings.clear()
        self.node2.endpoint.settings.update(self.base_settings2)
        self.te.send_queue.clear()
        self.te.settings.clear()
        self.te.settings.update(self.base_settings)
        self.te.set_tunnel_community(self.tc, self.cfg_hops)
        self.node.raw_endpoint.sent.clear()
        self.net.log.clear()
        self.net.inflight.clear()
        self.calls.clear()
        self.truth.clear()
        self.built.clear()
        self.closed.clear()
        self.counter = 0
        self.cid = 100

    def snapshot(self, cid: int) -> tuple:
        """
        (state, goal hops, exit flags, hops built) of a circuit from the rig's own record of how it built / closed it -
        never from the Circuit object's own properties.
        """
        if cid not in self.built:
            # a circuit the TunnelEndpoint asked the tunnel community to create: nobody answers in this rig, so it has no
            # hop and never becomes ready
            circ = self.tc.circuits.get(cid)
            return ("EXTENDING", circ.goal_hops if circ is not None else 0, (), 0)
        goal, nhops, flags = self.built[cid]
        state = "CLOSING" if cid in self.closed else "READY" if nhops >= goal else "EXTENDING"
        return (state, goal, flags, nhops)

    def add_circuit(self, goal: int, nhops: int, flags: list, first_flags: list | None = None) -> None:
        from ipv8.messaging.anonymization.tunnel import Circuit, Hop
        self.cid += 1
        c = Circuit(self.cid, goal)
        for k in range(nhops):
            hop_flags = list(flags) if k == nhops - 1 else list(first_flags or [RELAY]) if k == 0 else [RELAY]
            c.add_hop(Hop(self.peers[k], self.keys[k], flags=hop_flags))
        self.tc.circuits[self.cid] = c
        self.truth[self.cid] = tuple(flags) if nhops else ()
        self.built[self.cid] = (goal, nhops, self.truth[self.cid])


async def run_word(rig: Rig, word: list, case: dict) -> tuple[bool, str]:
    """
    Execute one word on a reset rig; raises Violation. Returns (nontrivial, class).
    """
    def fail(clause, site, msg):
        raise Violation(clause, site, msg, case)

    rig.reset()
    te, tc = rig.te, rig.tc
    requested = {rig.A.get_prefix(): True, rig.A2.get_prefix(): True}
    anon_packets: list[bytes] = []
    dest_of: dict[bytes, tuple] = {}      # packet offered by the check -> the destination it was offered with
    queued_model: list[bytes] = []
    nontrivial = False
    anon_sends = 0
    state_change_since_send = False
    attached = True

    def qualifying(snapshot) -> bool:
        return snapshot is not None and snapshot[0] == "READY" and snapshot[1] == rig.cfg_hops and EXIT_IPV8 in snapshot[2]

    def has_qualifying() -> bool:
        return attached and any(rig.snapshot(cid)[0] == "READY" and rig.snapshot(cid)[1] == rig.cfg_hops
                                and EXIT_IPV8 in rig.snapshot(cid)[2] for cid in tc.circuits)

    windows: dict[bytes, bytes] = {}      # 16-byte window of an anonymised packet -> its prefix
    raw_checked = [0]

    def check_raw(step: str) -> None:
        # every raw datagram is examined once, against all anonymised packets offered so far
        log = rig.net.log
        for fl in log[raw_checked[0]:]:
            head = fl.data[:22]
            if head in requested:
                # a datagram of an overlay that asked for anonymity: only acceptable while its anonymity is off
                if requested[head] or any(fl.data == p for p in anon_packets):
                    fail("A1", "raw_send:" + step.split(":")[-1], f"a packet of an anonymised overlay was handed to the "
                                                                  f"raw socket (step {step})")
            for off in range(0, len(fl.data) - 15):
                if fl.data[off:off + 16] in windows:
                    fail("A1", "raw_window:" + step.split(":")[-1], "16 bytes of an anonymised packet are visible in a raw "
                                                                    "datagram")
        raw_checked[0] = len(log)

    def do_send(overlay, step: str) -> None:
        nonlocal anon_sends, nontrivial, state_change_since_send
        rig.counter += 1
        pfx = overlay.get_prefix()
        body = hashlib.sha256(b"pv-c07" + rig.counter.to_bytes(4, "big")).digest()
        packet = pfx + b"\x07" + body + hashlib.sha256(body).digest()[:12]
        dest = ("1.0.0.9", 9009)
        is_anon_req = requested.get(pfx, False)
        raw_before = len(rig.net.log)
        calls_before = len(rig.calls)
        q_before = list(te.send_queue)
        overlay.endpoint.send(dest, packet)
        raw_new = rig.net.log[raw_before:]
        new_calls = rig.calls[calls_before:]
        if not is_anon_req:
            if pfx in requested:
                # anonymity switched off for this prefix: the statement makes no claim; nothing is tracked
                raw_checked[0] = len(rig.net.log)
                return
            direct = [fl for fl in raw_new if fl.data == packet]
            if len(direct) != 1 or direct[0].dst != dest:
                fail("A3", "plain:" + step.split(":")[-1], f"a plain overlay's packet reached the raw socket {len(direct)} times")
            if any(cl[1] == packet for cl in new_calls):
                fail("A3", "plain:" + step.split(":")[-1], "a plain overlay's packet was tunnelled")
            return
        anon_packets.append(packet)
        dest_of[packet] = dest
        for off in range(23, len(packet) - 15):
            windows[packet[off:off + 16]] = pfx
        anon_sends += 1
        if not has_qualifying() or state_change_since_send:
            nontrivial = True
        state_change_since_send = False
        carried = [cl for cl in new_calls if cl[1] == packet]
        in_queue = [q for q in te.send_queue if q[1] == packet]
        if len(carried) + len(in_queue) > 1:
            fail("A2", "fate:" + step.split(":")[-1], f"packet was carried {len(carried)} times and queued {len(in_queue)} times")
        # everything that was carried in this call (this packet or flushed earlier ones) must use a qualifying circuit
        for cl in new_calls:
            if cl[1][:22] in requested and not qualifying(cl[2]):
                fail("A2", "carrier:" + step.split(":")[-1], f"an anonymised packet was sent over a circuit that is {cl[2]} "
                                              f"(configured hops {rig.cfg_hops}, IPv8 exit required)")
            # (packets the overlay sent on its own, in reaction to a received message, have their own destination)
            if cl[1][:22] in requested and cl[1] in dest_of and cl[3] != dest_of[cl[1]]:
                fail("A2", "carrier:" + step.split(":")[-1], "tunnelled packet is addressed to another destination")
        flushed = [cl[1] for cl in new_calls if cl[1] != packet]
        for f in flushed:
            if not any(f == q[1] for q in q_before):
                fail("A2", "flush:" + step.split(":")[-1], "a packet that was never queued was tunnelled")
        if len(te.send_queue) > 100:
            fail("A2", "queue:" + step.split(":")[-1], f"send queue holds {len(te.send_queue)} packets")
        check_raw(step)

    for i, ev in enumerate(word):
        step = f"{i}:{ev}"
        if ev == "send_anon":
            do_send(rig.A, step)
        elif ev == "send_anon2":
            do_send(rig.A2, step)
        elif ev == "send_plain":
            do_send(rig.P, step)
        elif ev == "ready_ok":
            rig.add_circuit(rig.cfg_hops, rig.cfg_hops, [RELAY, EXIT_IPV8])
            state_change_since_send = True
        elif ev == "ready_noflag":
            rig.add_circuit(rig.cfg_hops, rig.cfg_hops, [RELAY, EXIT_BT])
            state_change_since_send = True
        elif ev == "ready_firsthop_ipv8":
            # right length, ready, but only its FIRST hop is IPv8-exit capable; the exit is a BitTorrent-only exit
            rig.add_circuit(rig.cfg_hops, rig.cfg_hops, [RELAY, EXIT_BT], first_flags=[RELAY, EXIT_IPV8])
            state_change_since_send = True
        elif ev == "ready_otherlen":
            rig.add_circuit(rig.cfg_hops + 1, rig.cfg_hops + 1, [RELAY, EXIT_IPV8])
            state_change_since_send = True
        elif ev == "half_built":
            rig.add_circuit(rig.cfg_hops, rig.cfg_hops - 1, [RELAY, EXIT_IPV8])
            state_change_since_send = True
        elif ev == "closing":
            for cid, c in tc.circuits.items():
                if cid not in rig.closed:
                    c.close("test")
                    rig.closed.add(cid)
                    state_change_since_send = True
                    break
        elif ev == "removed":
            if tc.circuits:
                tc.circuits.pop(next(iter(tc.circuits)))
                state_change_since_send = True
        elif ev == "attach_toggle":
            attached = not attached
            te.set_tunnel_community(tc if attached else None, rig.cfg_hops)
            state_change_since_send = True
        elif ev == "anon_toggle":
            pfx = rig.A2.get_prefix()
            requested[pfx] = not requested[pfx]
            te.set_anonymity(pfx, requested[pfx])
        elif ev == "burst":
            for _ in range(101):
                do_send(rig.A, step)
        elif ev == "in_beacon":
            # overlay A is configured with the LAN broadcast bootstrapper (a raw UDP socket of its own); another host's
            # beacon for A's service arrives there. Whatever A sends in reaction is a packet of an anonymised overlay:
            # it must take the TunnelEndpoint, never the bootstrapper's socket
            from ipv8.bootstrapping.udpbroadcast import bootstrapper as bb
            if getattr(rig, "beacon_owner", None) is not rig.A:
                from ..capture import _FakeSocket

                class RecSocket(_FakeSocket):
                    # the OS socket the bootstrapper creates by hand: what is written to it is kept (beacons are not)
                    def __init__(self, *a, **kw):
                        super().__init__(*a, **kw)
                        self.log = []

                    def sendto(self, data, addr):
                        if not bytes(data).startswith(bb.HDR_ANNOUNCE):
                            self.log.append((bytes(data), tuple(addr)))
                        return len(data)
                real = bb.socket
                bb.socket = RecSocket
                try:
                    boot = bb.UDPBroadcastBootstrapper(bootstrap_timeout=2.0)
                    await boot.initialize(rig.A)
                finally:
                    bb.socket = real
                rig.A.bootstrappers.append(boot)
                rig.beacon_owner = rig.A
                rig.beacon_socket = boot.endpoint._socket  # noqa: SLF001
                rig.beacon_transport = [t for t in rig.loop.transports
                                        if isinstance(t.protocol, bb.BroadcastBootstrapEndpoint) and not t.closed][-1]
            bt, sock = rig.beacon_transport, rig.beacon_socket
            n0, m0 = len(bt.sent), len(sock.log)
            bt.inject(bb.HDR_ANNOUNCE + rig.A.get_prefix(), ("192.168.1.77", 41000))
            await asyncio.sleep(0)
            for (d, a) in [*bt.sent[n0:], *sock.log[m0:]]:
                if d[:22] in requested:
                    fail("A1", "raw_send:beacon", f"a {len(d)}-byte packet of an anonymised overlay (message id {d[22]}) was "
                                                  f"written to the broadcast bootstrapper's own UDP socket, to {tuple(a)} "
                                                  f"(step {step})")
            nontrivial = True
            check_raw(step)
        elif ev in INCOMING:
            # a genuine signed message of a remote member reaches overlay A the way its traffic does (out of a circuit);
            # whatever A sends in reaction is a packet of an overlay that asked for anonymity
            from ipv8.messaging.interfaces.udp.endpoint import UDPv4Address, UDPv6Address
            b, me = rig.B, UDPv4Address(*rig.node.address)
            src = UDPv4Address(*rig.remote.address)
            if rig.node.address6 is not None:
                rig.A.my_peer.add_address(UDPv6Address(*rig.node.address6[:2]))
            if ev == "in_intro_request":
                packet = b.create_introduction_request(me, new_style=True)
            elif ev == "in_puncture_request":
                packet = b.create_puncture_request(UDPv4Address("1.0.0.7", 8007), UDPv4Address("1.0.0.7", 8007), 7,
                                                   new_style=True)
            else:
                # the remote member was reached over IPv4 and advertises an IPv6 address of its own
                saved = b.my_estimated_wan
                b.my_estimated_wan = UDPv6Address("2001:db8::b", 8100)
                try:
                    packet = b.create_introduction_response(me, me, 7, new_style=True)
                finally:
                    b.my_estimated_wan = saved
            te.notify_listeners((src, packet), from_tunnel=True)
            nontrivial = True
            check_raw(step)
        elif ev == "other_plain_send":
            rig.counter += 1
            body = hashlib.sha256(b"pv-c07-other" + rig.counter.to_bytes(4, "big")).digest()
            packet = rig.P2.get_prefix() + b"\x07" + body
            n0 = len(rig.net.log)
            rig.P2.endpoint.send(("1.0.0.9", 9009), packet)
            direct = [fl for fl in rig.net.log[n0:] if fl.data == packet and fl.origin is rig.node2.raw_endpoint]
            if len(direct) != 1:
                fail("A3", "plain:other_endpoint", f"the plain overlay on ANOTHER TunnelEndpoint of the process had its packet "
                                                   f"handed to its own socket {len(direct)} times (queued there: "
                                                   f"{len(rig.node2.endpoint.send_queue)})")
            raw_checked[0] = len(rig.net.log)
            nontrivial = True
        elif ev == "other_anon_off":
            # the other endpoint switches anonymity off for the community it shares with A: that is its own business
            rig.node2.endpoint.set_anonymity(rig.A.get_prefix(), False)
            state_change_since_send = True
        elif ev == "replace_overlay":
            # the application restarts the anonymised overlay: a new instance (same community id, same prefix, again
            # asking for anonymity) is loaded on the shared endpoint, then the old instance is unloaded
            old_a = rig.A
            rig.A = rig.make_overlay("AnonA", b"A" * 20, True)
            await old_a.unload()
            rig.node.overlays.remove(old_a)
            state_change_since_send = True
        elif ev == "unload_plain":
            old_p = rig.P
            rig.P = rig.make_overlay("PlainP", b"P" * 20, False)
            await old_p.unload()
            rig.node.overlays.remove(old_p)
        elif ev == "load_second_anon":
            extra = rig.make_overlay("AnonB", b"B" * 20, True)
            await rig.A2.unload()
            rig.node.overlays.remove(rig.A2)
            rig.A2 = extra
            requested[rig.A2.get_prefix()] = True
        else:
            raise AssertionError(ev)
    check_raw("end")
    return nontrivial and anon_sends > 0, "len%02d" % min(len(word), 20)


def _enum_shard(ctx: Ctx, shard: int, nshards: int, depth: int) -> None:
    with vloop.virtual_time() as loop:
        rigs: dict = {}

        def rig_for(stack):
            if stack not in rigs:
                rigs[stack] = Rig(loop, stack=stack)
            return rigs[stack]
        mine = [None, "v4", "dual", "dual"][shard % 4]
        try:
            n = len(ALPHABET)
            k = 0
            for d in range(1, depth + 1):
                for idxs in itertools.product(range(n), repeat=d):
                    k += 1
                    if k % nshards != shard:
                        continue
                    # a word without any send observes nothing; bursts are expensive: at most one per word
                    nburst = sum(1 for i in idxs if i == 11)
                    if not any(i < 3 or i == 11 for i in idxs) or nburst > 1 or (nburst and d > 3):
                        continue
                    word = [ALPHABET[i] for i in idxs]
                    case = {"word": word, "stack": mine}
                    try:
                        nt, cls = loop.run_until_complete(run_word(rig_for(mine), word, case))
                        ctx.case(k | (1 << 61), nt, cls=cls, sample=case)
                    except Violation as v:
                        ctx.violation(v)
            # lifecycle family: every word of length <= 4 over sends + circuit + lifecycle events that has a lifecycle event
            small = ["send_anon", "send_anon2", "send_plain", "ready_ok", "closing", *LIFECYCLE, *EXTRA]
            for d in range(2, 5):
                for idxs in itertools.product(range(len(small)), repeat=d):
                    k += 1
                    if k % nshards != shard or not any(i >= 5 for i in idxs) or not any(i < 3 for i in idxs):
                        continue
                    word = [small[i] for i in idxs]
                    case = {"word": word, "stack": mine}
                    try:
                        nt, cls = loop.run_until_complete(run_word(rig_for(mine), word, case))
                        ctx.case(k | (1 << 61), True, cls="lifecycle:" + cls, sample=case)
                    except Violation as v:
                        ctx.violation(v)
            # incoming family: every word of length <= 3 over sends, a circuit, the anonymity switch and the messages
            # overlay A receives, with at least one received message - on every kind of endpoint stack
            inc = ["send_anon", "send_plain", "ready_ok", "anon_toggle", *INCOMING, *OTHER]
            for stack in (None, "v4", "dual"):
                for d in range(1, 4):
                    for idxs in itertools.product(range(len(inc)), repeat=d):
                        k += 1
                        if k % nshards != shard or not any(i >= 4 for i in idxs):
                            continue
                        word = [inc[i] for i in idxs]
                        case = {"word": word, "stack": stack}
                        try:
                            nt, cls = loop.run_until_complete(run_word(rig_for(stack), word, case))
                            ctx.case(k | (1 << 61), True, cls="incoming:%s:%s" % (stack, cls), sample=case)
                        except Violation as v:
                            ctx.violation(v)
        finally:
            for rig in rigs.values():
                loop.run_until_complete(rig.node.unload())
                loop.run_until_complete(rig.remote.unload())
                loop.run_until_complete(rig.node2.unload())
    ctx.note("exhaustive_depth", depth)


def _random_shard(ctx: Ctx, shard: int, nshards: int, n: int) -> None:
    from hypothesis import strategies as st
    with vloop.virtual_time() as loop:
        stack = [None, "dual", "v4", "dual"][shard % 4]
        rig = Rig(loop, stack=stack)
        try:
            def body(word):
                case = {"word": word, "stack": stack}
                nt, cls = loop.run_until_complete(run_word(rig, word, case))
                ctx.case(case, nt, cls=cls)
            hyp_run(ctx, "words", st.lists(st.sampled_from(ALPHABET + ALPHABET[:3] * 2 + LIFECYCLE + EXTRA + INCOMING + OTHER),
                                           min_size=1, max_size=60), body, n)
        finally:
            loop.run_until_complete(rig.node.unload())
            loop.run_until_complete(rig.remote.unload())


def run(ctx: Ctx) -> None:
    shard_run(ctx, _enum_shard, extra=(5 if ctx.quick else 6,))
    shard_run(ctx, _random_shard, extra=(600 if ctx.quick else 8000,))
    ctx.note("alphabet", ALPHABET)


def replay(ctx: Ctx, case: dict) -> None:
    with vloop.virtual_time() as loop:
        rig = Rig(loop, stack=case.get("stack"))
        try:
            loop.run_until_complete(run_word(rig, case["word"], case))
        finally:
            loop.run_until_complete(rig.node.unload())
