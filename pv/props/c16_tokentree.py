"""
C16 - a token tree only ever holds its owner's signed chain, in any order.

The owner creates tokens with a private ``TokenTree``; a *public* view (``TokenTree(public_key=...)``) receives
them through ``gather_token`` in every arrival order, mixed with noise (tampered signatures / pointers, tokens of
another key with correct back-pointers, owner-signed tokens that dangle, duplicates, right and wrong content).

The oracle is a reference closure over *construction facts*: the check knows for every token it built whether it
is an untampered token signed with the owner's key and which token it was created after. Nothing of that is
asked from the code under test. After every single arrival the view must hold exactly the least set containing
the offered owner-signed tokens whose predecessor is the genesis or in the set (E1), its waiting area only valid
dangling tokens (E2), content only where it hashes to the pointer (E3), ``verify`` / ``get_root_path`` must
agree with membership (E4) and public serialisations must reload to the same set; arbitrary, truncated and
bit-flipped byte strings must add nothing outside the closure (E5).
"""
from __future__ import annotations

import hashlib
import itertools
from functools import lru_cache

from .. import keypool
from ..core import Ctx, HarnessError, Violation, hyp_run, shard_run

PID = "C16"
LEVEL = "exploration"
EXHAUSTIVE = False
RULE = ("public TokenTree view fed through gather_token: every rooted tree shape with <= 6 tokens (84 shapes; "
        "thorough also the 115 shapes with 7 tokens, clean only) x every arrival permutation, each order once clean "
        "and with 1 (quick) / 12 (thorough) Hypothesis-drawn noise plans (tampered signature / content pointer / "
        "back-pointer / re-grafted or swapped signature, foreign-key tokens with correct back-pointers, owner-signed "
        "dangling tokens and chains, duplicates as new and as the same object, right / wrong content), state compared "
        "with the reference closure after every arrival; Hypothesis-drawn trees up to 60 tokens with noise and a "
        "final unserialize_public of a drawn byte string (re-ordered / bit-flipped / truncated serialisations, raw "
        "bytes) into the same or a fresh view; waiting-area overflow runs (safety direction only). Non-trivial = at "
        "least two children of one token arrive before that token, or a noise token is adjacent to a valid one "
        "(tampered copy of / child of / parent of a member, or duplicate / content offer for a member), or a byte "
        "string tail was loaded; distinct = digest of (token specs, arrival events, tail).")
ASSUMPTIONS = [
    "signatures are unforgeable: a token is 'signed by the tree's key' iff the check created it with the owner's "
    "private key and did not alter a byte afterwards (tampered copies and foreign-key tokens are invalid by "
    "construction, no signature is ever verified by the oracle)",
    "SHA3-256 collisions and a drawn 32-byte pointer hitting a real token hash do not occur",
    "at most 100 owner-signed tokens are waiting at any time (the statement exempts an exceeded waiting area; the "
    "overflow runs only check the safety direction)",
    "content offered for a token that is still waiting may or may not be kept (the statement only pins 'attached "
    "only if it hashes'); content offered for a token that is or becomes a member at that moment must be attached",
    "return value of unserialize_public and verify/get_root_path with a non-default maxdepth are not judged",
]

GENESIS = -1          # parent code: the view's (owner's) genesis hash
FOREIGN_GENESIS = -2  # parent code: the genesis hash of the foreign key (dangling from the view's perspective)
TAMPERS = ["sig_bit", "chash_bit", "prev_bit", "regraft", "sig_zero", "sig_swap", "sig_trunc"]
CURVES = ["curve25519", "very-low"]


# ---- tree shapes ---------------------------------------------------------------------------------------

def _canon(parents: tuple) -> tuple:
    kids: dict[int, list[int]] = {}
    for i, p in enumerate(parents):
        kids.setdefault(p, []).append(i)

    def enc(v: int) -> tuple:
        return tuple(sorted(enc(c) for c in kids.get(v, [])))
    return enc(GENESIS)


@lru_cache(maxsize=None)
def shapes(n: int) -> list[tuple]:
    """
    One parent vector (parents before children, -1 = genesis) per rooted tree shape with n tokens below the genesis.
    """
    seen: dict[tuple, tuple] = {}
    for vec in itertools.product(*[range(-1, i) for i in range(n)]):
        seen.setdefault(_canon(vec), vec)
    out = sorted(seen.values())
    expect = {0: 1, 1: 1, 2: 2, 3: 4, 4: 9, 5: 20, 6: 48, 7: 115}
    if len(out) != expect[n]:
        raise HarnessError(f"shape enumeration is wrong: {len(out)} shapes for n={n}")
    return out


# ---- world: the tokens of one case, built with real keys -------------------------------------------------

def _flip(b: bytes, bit: int) -> bytes:
    if not b:
        return b
    bit %= 8 * len(b)
    ba = bytearray(b)
    ba[bit // 8] ^= 1 << (bit % 8)
    return bytes(ba)


class World:
    """
    Concrete tokens for a list of token specs, plus the construction facts the oracle uses.

    spec kinds:
      {"k": "tok", "parent": idx | -1 | -2, "signer": "o" | "f"}       created after token idx / a genesis hash
      {"k": "rand", "prev": <32 bytes>, "signer": "o" | "f"}           back-pointer to nothing
      {"k": "tamper", "base": idx, "how": <TAMPERS>, "arg": int}       altered copy of token idx
      {"k": "twin", "of": idx}                                         the double pointer of token idx signed once more
    """

    def __init__(self, case: dict) -> None:
        from ipv8.attestation.tokentree.token import Token
        from ipv8.attestation.tokentree.tree import TokenTree
        from ipv8.keyvault.crypto import default_eccrypto

        self.Token, self.TokenTree = Token, TokenTree
        self.case = case
        curve = self.curve = case["curve"]
        owner = keypool.key(case["owner"], curve)
        foreign = keypool.key(case["foreign"], curve)
        if owner.pub().key_to_bin() == foreign.pub().key_to_bin():
            raise HarnessError("owner and foreign key are the same")
        self.pub_bin = owner.pub().key_to_bin()
        self.foreign_pub = foreign.pub()
        self.crypto = default_eccrypto
        self.sig_len = owner.pub().get_signature_length()
        self.chunk = 64 + self.sig_len
        self.owner_tree = TokenTree(private_key=owner)
        self.owner_tree_ids: list[int] = []
        genesis = {GENESIS: self.owner_tree.genesis_hash,
                   FOREIGN_GENESIS: TokenTree(private_key=foreign).genesis_hash}
        if genesis[GENESIS] != hashlib.sha3_256(self.pub_bin).digest():
            raise Violation("E1", "genesis_hash", "genesis pointer is not SHA3-256(public key)", case)
        self.specs = case["tokens"]
        self.raw: list[tuple[bytes, bytes, bytes]] = []
        self.hash: list[bytes] = []
        self.valid: list[bool] = []
        self.parent: list[int | None] = []     # model parent: idx, GENESIS or None (points at nothing acceptable)
        self.content: list[bytes] = []
        objs: list = []
        for i, spec in enumerate(self.specs):
            content = b"content-%d" % i
            k = spec["k"]
            if k == "tok":
                p = spec["parent"]
                key = owner if spec["signer"] == "o" else foreign
                in_owner_tree = spec["signer"] == "o" and (p == GENESIS or p in self.owner_tree_ids)
                if in_owner_tree:
                    tok = self.owner_tree.add(content, after=None if p == GENESIS else objs[p])
                    self.owner_tree_ids.append(i)
                else:
                    tok = Token(genesis[p] if p < 0 else self.hash[p], content=content, private_key=key)
                self.valid.append(spec["signer"] == "o")
                self.parent.append(None if p == FOREIGN_GENESIS else p)
            elif k == "twin":
                # the owner signs the double pointer of an earlier token of its own once more: the same token again
                # where signatures are deterministic, a second, equally valid token where they are randomised (ECDSA)
                base = spec["of"]
                content = self.content[base]
                tok = Token(self.raw[base][0], content=content, private_key=owner)
                self.valid.append(self.valid[base])
                self.parent.append(self.parent[base])
            elif k == "rand":
                key = owner if spec["signer"] == "o" else foreign
                tok = Token(bytes(spec["prev"]), content=content, private_key=key)
                self.valid.append(spec["signer"] == "o")
                self.parent.append(None)
            elif k == "tamper":
                base = spec["base"]
                prev, chash, sig = self.raw[base]
                content = self.content[base]
                prev, chash, sig = self._tamper(spec["how"], spec["arg"], base, prev, chash, sig, genesis[GENESIS])
                tok = Token(prev, content_hash=chash, signature=sig)
                self.valid.append(False)
                self.parent.append(None)
            else:
                raise HarnessError(f"bad spec {spec}")
            objs.append(tok)
            self.raw.append((tok.previous_token_hash, tok.content_hash, tok.signature))
            self.hash.append(tok.get_hash())
            self.content.append(content)
        self.bytes = [a + b + c for a, b, c in self.raw]
        # two specs can yield the same bytes (the same alteration drawn twice, an alteration undone by a second one):
        # they are the same token then, identified by the first spec
        self.by_bytes: dict[bytes, int] = {}
        self.alias: list[int] = []
        for i, b in enumerate(self.bytes):
            self.alias.append(self.by_bytes.setdefault(b, i))
        self.children: dict[int, list[int]] = {}
        for i, p in enumerate(self.parent):
            if p is not None and p >= 0:
                self.parent[i] = p = self.alias[p]
            if p is not None and self.valid[i] and self.alias[i] == i:
                self.children.setdefault(p, []).append(i)

    def _tamper(self, how: str, arg: int, base: int, prev: bytes, chash: bytes, sig: bytes, genesis: bytes) -> tuple:
        orig = (prev, chash, sig)
        if how == "sig_bit":
            sig = _flip(sig, arg)
        elif how == "chash_bit":
            chash = _flip(chash, arg)
        elif how == "prev_bit":
            prev = _flip(prev, arg)
        elif how == "regraft":
            cands = [genesis] + self.hash[:]
            prev = cands[arg % len(cands)]
        elif how == "sig_zero":
            sig = bytes(len(sig))
        elif how == "sig_swap":
            sig = self.raw[arg % len(self.raw)][2]
        elif how == "sig_trunc":
            sig = sig[:-1]
        else:
            raise HarnessError(f"bad tamper {how}")
        if (prev, chash, sig) == orig:
            sig = _flip(sig, arg)
        return prev, chash, sig

    def public_key(self):
        return self.crypto.key_from_public_bin(self.pub_bin)

    def view(self):
        return self.TokenTree(public_key=self.public_key())

    def make(self, idx: int, mode: int, last: dict):
        """
        A token object as a caller would hand it in. mode 0: as received from the wire; 1 / 2: rebuilt from a
        database tuple with the right / a wrong content; 3: constructed with the right content; 4: the very object
        offered before (if any).
        """
        prev, chash, sig = self.raw[idx]
        if mode == 4 and idx in last:
            return last[idx]
        if mode == 1:
            tok = self.Token.from_database_tuple(prev, sig, chash, self.content[idx])
        elif mode == 2:
            tok = self.Token.from_database_tuple(prev, sig, chash, b"wrong-" + self.content[idx])
        elif mode == 3 and self.specs[idx]["k"] != "tamper":
            tok = self.Token(prev, content=self.content[idx], signature=sig)
        elif len(sig) == self.sig_len:
            try:
                tok = self.Token.unserialize(self.bytes[idx], self.public_key())
            except Exception as e:  # noqa: BLE001
                raise Violation("E5", "Token.unserialize:raises",
                                f"the {len(self.bytes[idx])}-byte wire form of token {idx} (a {self.curve} key, signatures of "
                                f"{self.sig_len} bytes) cannot be read back: {type(e).__name__}: {e}", self.case) from e
            if tok.get_plaintext_signed() != self.bytes[idx]:
                raise Violation("E5", "Token.unserialize", f"token {idx} of a {self.curve} key reads back from its wire form "
                                                           f"as other bytes", self.case)
        else:
            tok = self.Token(prev, content_hash=chash, signature=sig)
        if mode == 5:
            # a duplicate object whose public ``content`` attribute was assigned directly (no constructor or loader
            # produces this): only ever offered for a token the tree already holds - see execute()
            tok.content = b"assigned-" + self.content[idx]
        if self.specs[idx].get("signer") == "f":
            # a token of the foreign key has, like in any application holding several trees, already been checked by
            # its own owner's tree (same object, other key) before it is offered to the tree under test
            try:
                tok.verify(self.foreign_pub)
            except Exception:  # noqa: BLE001
                pass
        last[idx] = tok
        return tok


# ---- reference model -------------------------------------------------------------------------------------

class Model:
    """
    The reference closure, maintained incrementally.
    """

    def __init__(self, world: World) -> None:
        self.w = world
        self.offered: set[int] = set()
        self.closure: set[int] = set()
        self.content_may: set[int] = set()
        self.content_must: set[int] = set()
        self.max_waiting = 0

    def offer(self, idx: int, mode: int = 0, had_content: bool = False) -> None:
        w = self.w
        self.offered.add(idx)
        if not w.valid[idx]:
            return
        p = w.parent[idx]
        if idx not in self.closure and (p == GENESIS or (p is not None and p in self.closure)):
            stack = [idx]
            while stack:
                x = stack.pop()
                self.closure.add(x)
                stack.extend(c for c in w.children.get(x, []) if c in self.offered and c not in self.closure)
        if mode in (1, 3) or had_content:
            self.content_may.add(idx)
            if idx in self.closure:
                self.content_must.add(idx)
        self.max_waiting = max(self.max_waiting, len([x for x in self.offered if w.valid[x]]) - len(self.closure))

    def root_path(self, idx: int) -> list[int]:
        out = [idx]
        while self.w.parent[out[-1]] != GENESIS:
            out.append(self.w.parent[out[-1]])
        return out


# ---- execution + oracle ----------------------------------------------------------------------------------

def _kind(world: World, i: int) -> str:
    spec = world.specs[i]
    if spec["k"] == "tamper":
        return "forged"
    if spec["k"] == "twin":
        return "dangling"
    if spec["signer"] == "f":
        return "foreign"
    return "dangling"


def ids_of(world: World, tree, case: dict, where: str) -> dict:
    got = {}
    for h, tok in tree.elements.items():
        i = world.by_bytes.get(tok.get_plaintext_signed())
        if i is None:
            raise Violation("E1", where + ":unknown_token", "the tree holds a token that was never offered", case)
        if h != world.hash[i] or tok.get_hash() != h:
            raise Violation("E1", where + ":key", f"token {i} is stored under a key that is not its hash", case)
        got[i] = tok
    return got


def check_state(world: World, model: Model, view, case: dict, step, exact: bool = True) -> dict:
    got = ids_of(world, view, case, "gather_token")
    ids = set(got)
    extra = ids - model.closure
    if extra:
        i = min(extra)
        if i not in model.offered:
            raise Violation("E1", "gather_token:unoffered", f"step {step}: token {i} is in the tree but was not "
                                                             f"offered", case)
        raise Violation("E1", f"gather_token:{_kind(world, i)}_accepted",
                        f"step {step}: token {i} ({_kind(world, i)}: {world.specs[i]}) is reported as part of the "
                        f"tree; reference closure {sorted(model.closure)}, tree {sorted(ids)}", case)
    waiting = {}
    # the waiting area is observed through whatever Token objects it holds (as keys or as values): its internal
    # layout is not part of the property
    held = [t for t in list(view.unchained) + (list(view.unchained.values()) if hasattr(view.unchained, "values")
                                               else []) if hasattr(t, "get_plaintext_signed")]
    for tok in held:
        i = world.by_bytes.get(tok.get_plaintext_signed())
        waiting[i] = tok
    if exact:
        missing = model.closure - ids
        if missing:
            i = min(missing)
            if i in waiting:
                raise Violation("E1", "gather_token:waiting_child_not_attached",
                                f"step {step}: token {i} is signed by the owner and its predecessor {world.parent[i]} "
                                f"is in the tree, but it was left in the waiting area; reference closure "
                                f"{sorted(model.closure)}, tree {sorted(ids)}", case)
            raise Violation("E1", "gather_token:lost",
                            f"step {step}: token {i} belongs to the closure {sorted(model.closure)} but is neither in "
                            f"the tree {sorted(ids)} nor waiting", case)
    else:
        for i in ids:
            p = world.parent[i]
            if p != GENESIS and p not in ids:
                raise Violation("E1", "gather_token:disconnected", f"step {step}: member {i} has predecessor {p} "
                                                                   f"outside the tree", case)
    # E2 waiting area: only owner-signed tokens that are not connected
    for i, tok in waiting.items():
        if i is None or not world.valid[i]:
            raise Violation("E2", "unchained", f"step {step}: the waiting area holds token {i} which is not signed by "
                                               f"the tree's key", case)
        if exact and i in model.closure:
            raise Violation("E2", "unchained", f"step {step}: token {i} is connected to the genesis but still "
                                               f"waiting", case)
        _content_ok(world, i, tok, case, step)
    if len(view.unchained) > 100:
        raise Violation("E2", "unchained:bound", f"step {step}: waiting area holds {len(view.unchained)} tokens", case)
    # E3 content
    for i, tok in got.items():
        _content_ok(world, i, tok, case, step)
        if tok.content is not None and i not in model.content_may:
            raise Violation("E3", "receive_content", f"step {step}: member {i} carries content that was never "
                                                     f"offered", case)
        if exact and tok.content is None and i in model.content_must:
            raise Violation("E3", "gather_token:content_missing",
                            f"step {step}: matching content was offered for member {i} but is not attached", case)
    return got


def _content_ok(world: World, i: int, tok, case: dict, step) -> None:
    if tok.content is None:
        return
    if hashlib.sha3_256(tok.content).digest() != world.raw[i][1]:
        raise Violation("E3", "receive_content", f"step {step}: token {i} carries content {tok.content!r} that does "
                                                 f"not hash to its content pointer", case)


def check_queries(world: World, model: Model, view, case: dict, sample: list[int]) -> None:
    """
    E4: verify / get_root_path succeed exactly for members.
    """
    for i in sample:
        tok = world.make(i, 0, {})
        member = i in model.closure
        if bool(view.verify(tok)) != member:
            raise Violation("E4", "verify", f"verify(token {i}) is {not member} but the token is "
                                            f"{'a member' if member else 'not a member (' + _kind(world, i) + ')'}", case)
        path = view.get_root_path(tok)
        got = [world.by_bytes.get(t.get_plaintext_signed()) for t in path]
        want = model.root_path(i) if member else []
        if got != want:
            raise Violation("E4", "get_root_path", f"get_root_path(token {i}) is {got}, expected {want}", case)


def check_serialisation(world: World, model: Model, view, got: dict, case: dict, sample: list[int]) -> None:
    """
    E5: public serialisations are the members' signed double pointers and reload to the same tree.
    """
    ids = set(got)
    s = view.serialize_public()
    _chunks_are(world, s, ids, "serialize_public", case)
    fresh = world.view()
    try:
        fresh.unserialize_public(s)
    except Exception as e:
        raise Violation("E5", "unserialize_public", f"loading the view's own serialisation raised {e!r}", case) from e
    back = set(ids_of(world, fresh, case, "unserialize_public"))
    if back != ids:
        raise Violation("E5", "serialize_public", f"full serialisation of tree {sorted(ids)} reloads to "
                                                  f"{sorted(back)}", case)
    for i in sample:
        if i not in got:
            continue
        path = set(model.root_path(i))
        s = view.serialize_public(up_to=got[i])
        _chunks_are(world, s, path, "serialize_public:up_to", case)
        fresh = world.view()
        try:
            fresh.unserialize_public(s)
        except Exception as e:
            raise Violation("E5", "unserialize_public", f"loading serialize_public(up_to={i}) raised {e!r}", case) from e
        back = set(ids_of(world, fresh, case, "unserialize_public"))
        if back != path:
            raise Violation("E5", "serialize_public:up_to", f"serialisation up to token {i} (root path {sorted(path)}) "
                                                            f"reloads to {sorted(back)}", case)


def _chunks_are(world: World, s: bytes, want: set, site: str, case: dict) -> None:
    if len(s) % world.chunk:
        raise Violation("E5", site, f"serialisation length {len(s)} is not a multiple of {world.chunk}", case)
    got = [world.by_bytes.get(s[o:o + world.chunk]) for o in range(0, len(s), world.chunk)]
    if None in got or len(set(got)) != len(got) or set(got) != want:
        raise Violation("E5", site, f"serialisation holds tokens {got}, expected exactly {sorted(want)}", case)


def check_owner_tree(world: World, case: dict) -> None:
    """
    E5 for the owner's own (private) tree: its public serialisation loads into a view as the same tree.
    """
    want = set(world.owner_tree_ids)
    s = world.owner_tree.serialize_public()
    _chunks_are(world, s, want, "serialize_public:owner", case)
    fresh = world.view()
    fresh.unserialize_public(s)
    back = set(ids_of(world, fresh, case, "unserialize_public"))
    if back != want:
        raise Violation("E5", "serialize_public:owner", f"the owner's tree {sorted(want)} loads into a view as "
                                                        f"{sorted(back)}", case)
    for i in want:
        if world.Token.unserialize(world.bytes[i], world.public_key()).get_plaintext_signed() != world.bytes[i]:
            raise Violation("E5", "Token.unserialize", f"token {i} does not survive unserialize", case)


def tail_bytes(world: World, tail: dict) -> bytes:
    b = b"".join(world.bytes[i] for i in tail.get("chunks", [])) + bytes(tail.get("raw", b""))
    for f in tail.get("flips", []):
        b = _flip(b, f)
    if tail.get("cut") is not None:
        b = b[:tail["cut"] % (len(b) + 1)]
    return b


def run_tail(world: World, model: Model, view, case: dict) -> None:
    """
    E5 second half: unserialize_public of an arbitrary byte string adds nothing outside the closure.
    """
    tail = case["tail"]
    data = tail_bytes(world, tail)
    if tail.get("target") == "fresh":
        view, model = world.view(), Model(world)
    before = set(model.closure)
    for o in range(0, len(data) - world.chunk + 1, world.chunk):
        i = world.by_bytes.get(data[o:o + world.chunk])
        if i is not None:
            model.offer(i)
    raised = None
    try:
        view.unserialize_public(data)
    except Exception as e:    # decode level: any exception is a rejection
        raised = e
    if raised is None:
        check_state(world, model, view, case, "tail")
        return
    # rejected somewhere: any connected state between "nothing loaded" and "all complete chunks loaded" is fine
    got = set(ids_of(world, view, case, "unserialize_public"))
    if not before <= got:
        raise Violation("E5", "unserialize_public:bytes", f"members {sorted(before - got)} vanished while a byte "
                                                          f"string was rejected with {raised!r}", case)
    check_state(world, model, view, case, "tail", exact=False)


def nontrivial(world: World, case: dict) -> bool:
    events = case["events"]
    first: dict[int, int] = {}
    events = [[world.alias[i], m] for i, m in events]
    for pos, (i, _mode) in enumerate(events):
        first.setdefault(i, pos)
    # (a) at least two children of one token arrive before it
    for p, kids in world.children.items():
        if p in first and world.valid[p] and sum(1 for c in kids if c in first and first[c] < first[p]) >= 2:
            return True
    # (b) noise adjacent to a valid token
    valid_offered = {i for i in first if world.valid[i]}
    seen: set[int] = set()
    for i, mode in events:
        spec = world.specs[i]
        if i in seen or mode:
            if world.valid[i]:
                return True        # duplicate / content offer for an owner-signed token
        seen.add(i)
        if spec["k"] == "tamper" and spec["base"] in valid_offered:
            return True
        if spec["k"] == "tok" and spec["signer"] == "f" and (spec["parent"] == GENESIS or spec["parent"] in valid_offered):
            return True
        if spec["k"] == "tok" and spec["signer"] == "o" and spec["parent"] >= 0 and not world.valid[spec["parent"]]:
            return True
    return bool(case.get("tail"))


def cls_of(world: World, case: dict) -> str:
    n = case.get("n", len(case["tokens"]))
    noisy = len(case["events"]) > n or len(case["tokens"]) > n
    size = "n=%d" % n if n <= 7 else "n=8-20" if n <= 20 else "n=21-60" if n <= 60 else "n>60"
    return size + (" noisy" if noisy else " clean") + (" +bytes" if case.get("tail") else "")


def execute(ctx: Ctx | None, case: dict, world: World | None = None, deep: bool = True,
            sample_cap: int | None = None) -> None:
    """
    Run one case (token specs + arrival events [+ byte string tail]) against a fresh public view.
    """
    if world is None:
        world = World(case)
    exact = case.get("mode", "exact") == "exact"
    view = world.view()
    bound = 100
    if case.get("tight"):
        # the (public) bound of the waiting area is set to exactly what this arrival order needs: the area gets full,
        # it is never exceeded - the result must still not depend on the order, duplicates included
        dry = Model(world)
        for idx, mode in case["events"]:
            dry.offer(world.alias[idx], mode, False)
        bound = max(1, dry.max_waiting)
        view.unchained_max_size = bound
    model = Model(world)
    last: dict = {}
    rejected_by_exception = 0
    if ctx is not None:
        ctx.case(case, nontrivial(world, case), cls=cls_of(world, case))
    got: dict = {}
    for step, (idx, mode) in enumerate(case["events"]):
        idx = world.alias[idx]
        if mode == 5 and idx not in model.closure:
            # first insertion stores the caller's object as it is; an object with hand-assigned content is outside the
            # input domain there (the API cannot build one) - the offer is made as a plain duplicate instead
            mode = 0
        tok = world.make(idx, mode, last)
        had_content = tok.content is not None and hashlib.sha3_256(tok.content).digest() == world.raw[idx][1]
        try:
            ret = view.gather_token(tok)
        except Exception:
            ret = None
            rejected_by_exception += 1
        model.offer(idx, mode, had_content)
        if exact and model.max_waiting > bound:
            raise HarnessError("case exceeds the waiting area although it is meant to be exact")
        got = check_state(world, model, view, case, step, exact)
        if ret is not None:
            r = world.by_bytes.get(ret.get_plaintext_signed())
            if r != idx or idx not in got:
                raise Violation("E1", "gather_token:return", f"step {step}: gather_token(token {idx}) returned token "
                                                             f"{r} although token {idx} is not part of the tree", case)
    if ctx is not None and rejected_by_exception:
        ctx.count("gather_token raised (counted as rejection)", rejected_by_exception)
    if deep and exact:
        offered = sorted(model.offered)
        up_to = offered
        if sample_cap is not None and len(offered) > sample_cap:
            stride = len(offered) / sample_cap
            members = sorted(model.closure)
            deepest = max(members, key=lambda i: (len(model.root_path(i)), -i)) if members else offered[0]
            offered = sorted({offered[int(k * stride)] for k in range(sample_cap)} | {deepest})
            up_to = [deepest] + members[:2] + members[-2:]
        check_queries(world, model, view, case, offered)
        check_serialisation(world, model, view, got, case, up_to)
        check_owner_tree(world, case)
    if case.get("tail"):
        run_tail(world, model, view, case)


# ---- noise plans -----------------------------------------------------------------------------------------

def _plan_strategy():
    from hypothesis import strategies as st
    a = st.integers(0, 63)
    pos = st.integers(0, 63)
    forge = st.tuples(st.just("forge"), a, st.sampled_from(TAMPERS), st.integers(0, 1023), st.booleans(), pos, pos)
    foreign = st.tuples(st.just("foreign"), st.integers(-2, 63), st.integers(1, 3), st.booleans(),
                        st.lists(pos, min_size=4, max_size=4))
    dangling = st.tuples(st.just("dangling"), st.one_of(st.binary(min_size=32, max_size=32), st.just(None)),
                         st.integers(1, 3), st.lists(pos, min_size=3, max_size=3))
    dup = st.tuples(st.just("dup"), a, st.booleans(), st.booleans(), pos)
    content = st.tuples(st.just("content"), a, st.sampled_from([1, 2, 3, 5]), st.booleans(), pos)
    twin = st.tuples(st.just("twin"), a, st.booleans(), pos, pos)
    return st.lists(st.one_of(forge, foreign, dangling, dup, content, content, twin), min_size=1, max_size=6)


def expand(parents: list[int], order: list[int], plan: list, rot: int = 0) -> tuple[list, list]:
    """
    Token specs and arrival events for a clean tree (parent vector + arrival order) mixed with a noise plan.
    """
    n = len(parents)
    tokens: list[dict] = [{"k": "tok", "parent": p, "signer": "o"} for p in parents]
    events = [[i, 0] for i in order]
    extra: list[tuple[int, list]] = []
    for item in plan:
        kind = item[0]
        if kind == "forge":
            _, a, how, arg, child, p1, p2 = item
            tokens.append({"k": "tamper", "base": a % len(tokens), "how": how, "arg": arg})
            extra.append((p1, [len(tokens) - 1, 0]))
            if child:      # the owner "continues" behind the forged token: valid signature, dangling for ever
                tokens.append({"k": "tok", "parent": len(tokens) - 1, "signer": "o"})
                extra.append((p2, [len(tokens) - 1, 0]))
        elif kind == "foreign":
            _, anchor, length, owner_child, ps = item
            parent = anchor if anchor < 0 else anchor % max(n, 1) if n else GENESIS
            for k in range(length):
                tokens.append({"k": "tok", "parent": parent, "signer": "f"})
                parent = len(tokens) - 1
                extra.append((ps[k], [parent, 0]))
            if owner_child:
                tokens.append({"k": "tok", "parent": parent, "signer": "o"})
                extra.append((ps[3], [len(tokens) - 1, 0]))
        elif kind == "dangling":
            _, prev, length, ps = item
            if prev is None:
                tokens.append({"k": "tok", "parent": FOREIGN_GENESIS, "signer": "o"})
            else:
                tokens.append({"k": "rand", "prev": prev, "signer": "o"})
            extra.append((ps[0], [len(tokens) - 1, 0]))
            for k in range(1, length):
                tokens.append({"k": "tok", "parent": len(tokens) - 1, "signer": "o"})
                extra.append((ps[k], [len(tokens) - 1, 0]))
        elif kind == "twin":
            _, a, child, p1, p2 = item
            if n:
                tokens.append({"k": "twin", "of": a % n})
                extra.append((p1, [len(tokens) - 1, 0]))
                if child:
                    tokens.append({"k": "tok", "parent": len(tokens) - 1, "signer": "o"})
                    extra.append((p2, [len(tokens) - 1, 0]))
        elif kind == "dup":
            _, a, anywhere, same, p = item
            extra.append((p, [a % (len(tokens) if anywhere else max(n, 1)), 4 if same else 0]))
        elif kind == "content":
            _, a, mode, anywhere, p = item
            extra.append((p, [a % (len(tokens) if anywhere else max(n, 1)), mode]))
    for p, ev in extra:
        if ev[0] < len(tokens):
            events.insert((p + rot) % (len(events) + 1), ev)
    return tokens, events


def draw_plans(ctx: Ctx, name: str, count: int) -> list:
    plans: list = []
    hyp_run(ctx, name, _plan_strategy(), plans.append, count)
    if not plans:
        raise HarnessError("no noise plan was drawn")
    return plans


# ---- minimisation of enumerated cases -----------------------------------------------------------------------

def _gc(case: dict) -> dict:
    """
    Drop token specs that no event (transitively) needs and renumber.
    """
    need: set[int] = set()
    stack = [i for i, _ in case["events"]] + list((case.get("tail") or {}).get("chunks", []))
    while stack:
        i = stack.pop()
        if i in need:
            continue
        need.add(i)
        spec = case["tokens"][i]
        if spec["k"] == "tok" and spec["parent"] >= 0:
            stack.append(spec["parent"])
        if spec["k"] == "twin":
            stack.append(spec["of"])
        if spec["k"] == "tamper":
            stack.append(spec["base"])
            if spec["how"] in ("regraft", "sig_swap"):
                need.update(range(i))     # these index into all earlier tokens
    keep = sorted(need)
    ren = {old: new for new, old in enumerate(keep)}
    tokens = []
    for old in keep:
        spec = dict(case["tokens"][old])
        if spec["k"] == "tok" and spec["parent"] >= 0:
            spec["parent"] = ren[spec["parent"]]
        if spec["k"] == "tamper":
            spec["base"] = ren[spec["base"]]
        if spec["k"] == "twin":
            spec["of"] = ren[spec["of"]]
        tokens.append(spec)
    out = dict(case, tokens=tokens, events=[[ren[i], m] for i, m in case["events"]])
    if case.get("tail"):
        out["tail"] = dict(case["tail"], chunks=[ren[i] for i in case["tail"].get("chunks", [])])
    return out


def _fails_with(case: dict, sig: tuple) -> Violation | None:
    try:
        execute(None, case)
    except Violation as v:
        return v if v.sig == sig else None
    except HarnessError:
        return None
    return None


def minimise(case: dict, sig: tuple) -> Violation | None:
    """
    Greedy removal of arrival events (and then of unused tokens) while the same root-cause signature fails.
    """
    best = _fails_with(case, sig)
    if best is None:
        return None
    cur = case
    changed = True
    while changed:
        changed = False
        for k in range(len(cur["events"]) - 1, -1, -1):
            cand = _gc(dict(cur, events=cur["events"][:k] + cur["events"][k + 1:]))
            v = _fails_with(cand, sig)
            if v is not None:
                cur, best, changed = cand, v, True
        for k, (i, m) in enumerate(cur["events"]):
            if m:
                cand = dict(cur, events=cur["events"][:k] + [[i, 0]] + cur["events"][k + 1:])
                v = _fails_with(cand, sig)
                if v is not None:
                    cur, best, changed = cand, v, True
    return best


def _record(ctx: Ctx, v: Violation, seen: set) -> None:
    ctx.violation(v)
    if v.sig not in seen and v.case is not None:
        seen.add(v.sig)
        small = minimise(v.case, v.sig)
        if small is not None:
            ctx.violation(small)


# ---- bounded-exhaustive part ---------------------------------------------------------------------------------

def _exhaustive_shard(ctx: Ctx, shard: int, nshards: int, max_n: int, noise_per_order: int, clean_n: int,
                      deep_every: int) -> None:
    plans = draw_plans(ctx, "noise-plans", max(8, 6 * noise_per_order)) if noise_per_order else []
    seen: set = set()
    k = 0
    for n in range(1, clean_n + 1):
        for s_idx, parents in enumerate(shapes(n)):
            my = [(j, list(order)) for j, order in enumerate(itertools.permutations(range(n)))
                  if (k + j) % nshards == shard]
            k += 1
            if not my:
                continue
            variants: list[list | None] = [None]
            if n <= max_n:
                variants += [plans[(s_idx * noise_per_order + r + n) % len(plans)] for r in range(noise_per_order)]
            curves = CURVES if n <= 4 else CURVES[:1]
            for curve in curves:
                for plan in variants:
                    world = None
                    spec_key = None
                    for j, order in my:
                        tokens, events = expand(list(parents), order, plan or [], rot=j)
                        case = {"n": n, "curve": curve, "owner": 0, "foreign": 1, "tokens": tokens, "events": events}
                        try:
                            if world is None or spec_key != tokens:
                                world, spec_key = World(case), tokens
                            execute(ctx, case, world, deep=(j // nshards) % deep_every == 0)
                            if 2 <= n <= 5:
                                execute(ctx, {**case, "tight": 1}, world, deep=False)
                        except Violation as v:
                            _record(ctx, v, seen)


# ---- Hypothesis part -----------------------------------------------------------------------------------------

def _tree_strategy(max_n: int):
    from hypothesis import strategies as st

    @st.composite
    def tree(draw):
        n = draw(st.integers(1, max_n))
        parents = []
        for i in range(n):
            r = draw(st.integers(0, 2 * i + 1))
            parents.append(i - 1 if r > i else r - 1)
        order = list(draw(st.permutations(range(n))))
        plan = draw(st.one_of(st.just([]), _plan_strategy()))
        tokens, events = expand(parents, order, plan)
        tail = None
        if draw(st.booleans()):
            m = len(tokens)
            tail = {
                "chunks": draw(st.lists(st.integers(0, m - 1), max_size=min(m, 40) + 3)),
                "raw": draw(st.one_of(st.just(b""), st.binary(max_size=300))),
                "flips": draw(st.lists(st.integers(0, 1 << 20), max_size=3)),
                "cut": draw(st.one_of(st.none(), st.integers(0, 1 << 20))),
                "target": draw(st.sampled_from(["same", "fresh"])),
            }
        return {"n": n, "curve": draw(st.sampled_from(CURVES)), "owner": draw(st.integers(0, 3)),
                "foreign": draw(st.integers(4, 7)), "tokens": tokens, "events": events, "tail": tail,
                "tight": draw(st.sampled_from([0, 0, 1]))}
    return tree()


def _random_shard(ctx: Ctx, shard: int, nshards: int, examples: int) -> None:
    def body(case):
        execute(ctx, case, deep=True, sample_cap=8)
    hyp_run(ctx, "trees", _tree_strategy(60), body, examples)


def _overflow_strategy():
    from hypothesis import strategies as st

    @st.composite
    def chain(draw):
        n = draw(st.integers(101, 125))
        kind = draw(st.sampled_from(["reverse", "shuffled", "fan"]))
        parents = [GENESIS if kind == "fan" and i % 3 == 0 else i - 1 for i in range(n)]
        order = list(range(n - 1, -1, -1)) if kind != "shuffled" else list(draw(st.permutations(range(n))))
        plan = draw(_plan_strategy())
        tokens, events = expand(parents, order, plan)
        return {"n": n, "mode": "overflow", "curve": "curve25519", "owner": 2, "foreign": 5, "tokens": tokens,
                "events": events, "tail": None}
    return chain()


def _large_strategy():
    from hypothesis import strategies as st

    @st.composite
    def big(draw):
        # more members than the waiting area of a view can hold (100), arriving parents first: nothing ever has to wait,
        # so the tree is exact - and its public serialisation must reload to the same tree
        n = draw(st.integers(101, 260))
        kind = draw(st.sampled_from(["chain", "random", "bushy", "two_chains"]))
        parents = []
        for i in range(n):
            if kind == "chain" or i == 0:
                parents.append(i - 1)
            elif kind == "two_chains":
                parents.append(i - 2 if i >= 2 else GENESIS)
            elif kind == "bushy":
                parents.append(draw(st.integers(max(-1, i - 40), i - 1)))
            else:
                parents.append(draw(st.integers(-1, i - 1)))
        tokens, events = expand(parents, list(range(n)), [])
        return {"n": n, "curve": draw(st.sampled_from(CURVES)), "owner": draw(st.integers(0, 3)), "foreign": 5,
                "tokens": tokens, "events": events, "tail": None, "large": kind}
    return big()


def _large_shard(ctx: Ctx, shard: int, nshards: int, examples: int) -> None:
    def body(case):
        execute(ctx, case, deep=True, sample_cap=6)
    hyp_run(ctx, "large", _large_strategy(), body, examples, shrink_examples=20)


def _deep_shard(ctx: Ctx, shard: int, nshards: int, sizes: tuple) -> None:
    """
    Root paths deeper than any default limit of the tree's helpers (get_root_path / verify stop at 1000 steps, which the
    statement does not make a limit of serialisation): a chain of n tokens, handed over parents first, is serialised
    up to its tip and in full, and each serialisation must reload to the same tree.
    """
    from ipv8.attestation.tokentree.tree import TokenTree
    for k, n in enumerate(sizes):
        if k % nshards != shard:
            continue
        case = {"deep_chain": n, "curve": "curve25519", "owner": 1}
        owner = keypool.key(1, "curve25519")
        src = TokenTree(private_key=owner)
        tok, toks = None, []
        for i in range(n):
            tok = src.add(b"deep-%d" % i, after=tok)
            toks.append(tok)
        pub = owner.pub()
        view = TokenTree(public_key=pub)
        for t in toks:
            view.gather_token(view_token := type(t).unserialize(t.get_plaintext_signed(), pub))
        want = {t.get_hash() for t in toks}
        if ctx is not None:
            ctx.case(("deep", n), True, cls="deep_chain:%d" % n, sample=case)
        if set(view.elements) != want:
            ctx.violation(Violation("E1", "gather_token:deep", f"a chain of {n} tokens handed over parents first gives a tree of "
                                                               f"{len(view.elements)} tokens", case))
            continue
        for what, blob in (("up_to", view.serialize_public(up_to=view.elements[toks[-1].get_hash()])),
                           ("full", view.serialize_public())):
            fresh = TokenTree(public_key=pub)
            fresh.unserialize_public(blob)
            if set(fresh.elements) != want:
                ctx.violation(Violation("E5", "serialize_public:" + what + ":deep",
                                        f"serialize_public({'up_to=tip' if what == 'up_to' else ''}) of a chain of {n} tokens "
                                        f"is {len(blob)} bytes and reloads to {len(fresh.elements)} tokens", case))


def _overflow_shard(ctx: Ctx, shard: int, nshards: int, examples: int) -> None:
    def body(case):
        execute(ctx, case, deep=False)
    hyp_run(ctx, "overflow", _overflow_strategy(), body, examples, shrink_examples=60)


def run(ctx: Ctx) -> None:
    # extra = (largest n that also gets noise, noise plans per order, largest n, E4/E5 on every k-th order of a shard)
    if ctx.quick:
        shard_run(ctx, _exhaustive_shard, extra=(6, 1, 6, 20))
        shard_run(ctx, _random_shard, extra=(40,))
        shard_run(ctx, _overflow_shard, extra=(2,))
        shard_run(ctx, _large_shard, extra=(2,))
        shard_run(ctx, _deep_shard, extra=((1001, 1100),))
    else:
        shard_run(ctx, _exhaustive_shard, extra=(6, 12, 7, 10))
        shard_run(ctx, _random_shard, extra=(1000,))
        shard_run(ctx, _overflow_shard, extra=(12,))
        shard_run(ctx, _large_shard, extra=(25,))
        shard_run(ctx, _deep_shard, extra=((1000, 1001, 1002, 1500, 2500, 5000),))
    ctx.note("shapes_per_size", {str(n): len(shapes(n)) for n in range(1, (6 if ctx.quick else 7) + 1)})
    ctx.note("arrival_orders_enumerated", sum(len(shapes(n)) * _fact(n) for n in range(1, (6 if ctx.quick else 7) + 1)))


def _fact(n: int) -> int:
    out = 1
    for i in range(2, n + 1):
        out *= i
    return out


def replay(ctx: Ctx, case: dict) -> None:
    if "deep_chain" in case:
        class _C:
            found = None

            def case(self, *a, **k):
                pass

            def violation(self, v):
                self.found = self.found or v
        c = _C()
        _deep_shard(c, 0, 1, (case["deep_chain"],))
        if c.found is not None:
            raise c.found
        return
    execute(None, case, deep=True)
