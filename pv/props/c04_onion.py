"""
C04 - onion circuits deliver data intact and never expose it in transit.

Each case builds a circuit with the real protocol among real TunnelCommunity nodes on the simulator, sends a cell
(data out, data back in, ping, speed test), and judges
  I1 delivery: the exit's outside socket / the originator's on_raw_data got exactly the payload;
  I2 layering: with key objects the harness derived itself from the traced shared secrets, the message on link k
     decrypts with the keys of hops k..n (and not with a shorter suffix), peel_k(link k) == link k+1, the innermost
     plaintext equals the reference encoding of the cell, no 8-byte payload window and no 16-byte ciphertext window
     is shared between links;
  I3 faults: a byte altered in flight / a body or circuit-id spliced from another circuit / a cell forged by an
     outsider never delivers anything but honestly sent payloads, and no exception leaves the receive path.
"""
from __future__ import annotations

import asyncio
import socket
import struct

from .. import vloop
from ..core import Ctx, Violation, hyp_run, shard_run
from ..tunnelsim import CELL_HDR, World, parse_cell, try_decrypt

PID = "C04"
LEVEL = "exploration"
RULE = ("[plus: create-e2e offered to an introduction point before/after it dropped the exit entry; a circuit member asking the originator to join under the originator's own circuit id; e2e destination field drawn; anon_out exit ownership] Hypothesis-drawn cases (hops 1..3, kind in data-out / data-in / ping / speed-test, payload length 0..1400 "
        "boundary-biased, BitTorrent- or IPv8-shaped payload, IPv4/IPv6 destination, fault in none / flip(link, byte, "
        "mask) / splice body from a 2nd circuit / swap circuit id to the 2nd circuit's / forged cell by an outsider with "
        "own keys) plus hidden-service (e2e) circuits of 1-2 hops per side with data in either direction and optional "
        "flips; thorough adds every byte position of one data cell on every link of a 3-hop circuit. Non-trivial = "
        "payload >= 8 bytes or a fault that hits the encrypted body; distinct = the complete case (seed, hops, kind, size, "
        "shape, destination, fault); the class histogram groups them by (hops, kind, length class, fault class).")
ASSUMPTIONS = [
    "ChaCha20-Poly1305 / X25519 / HKDF in ipv8_rust_tunnels are trusted (reference key copies are derived with the "
    "same library from the traced shared secret)",
    "a flip confined to the unauthenticated relay_early flag byte leaves the data unaltered; delivering it is allowed",
    "hidden-service (e2e) circuits: delivery, exposure and the presence of the end-to-end layer are checked; the "
    "rendezvous point's re-encryption is judged only through the windows rule",
]

FORWARD, BACKWARD = 0, 1


def bt_payload(n: int, fill: int) -> bytes:
    """
    A payload of length n that the exit policy classifies as BitTorrent (bencoded dict) when n >= 2.
    """
    if n < 2:
        return b"d"[:n]
    body = bytes((fill + i * 7) & 0xFF for i in range(n - 2))
    return b"d" + body + b"e"


OTHER_PREFIX = b"\x00\x02" + b"\x5a" * 20      # prefix of another (anonymised) overlay on the originator's endpoint


def ipv8_payload(n: int, fill: int) -> bytes:
    if n < 23:
        return bt_payload(n, fill)
    return b"\x00\x02" + bytes((fill + i * 13) & 0xFF for i in range(n - 2))


def ref_addr(addr: tuple) -> bytes:
    ip, port = addr
    if ":" in ip:
        return b"\x03" + socket.inet_pton(socket.AF_INET6, ip) + struct.pack(">H", port)
    return b"\x01" + socket.inet_aton(ip) + struct.pack(">H", port)


def size_class(n: int) -> str:
    for b in (0, 1, 7, 8, 22, 23, 64, 256, 1024):
        if n <= b:
            return f"<={b}"
    return ">1024"


class Case:
    def __init__(self, ctx: Ctx | None, case: dict) -> None:
        self.ctx = ctx
        self.case = case

    def fail(self, clause: str, site: str, msg: str) -> None:
        raise Violation(clause, site, msg, self.case)

    async def main(self, loop: vloop.VirtualLoop) -> dict:
        c = self.case
        hops = c["hops"]
        fault = c.get("fault")
        # te: the originator runs on a TunnelEndpoint with a second, anonymised overlay listening on it; IPv8-shaped data
        # that comes back for that overlay must reach it unchanged and attributed to the outside sender
        te = bool(c.get("te")) and c["kind"] == "data_in" and not fault and not c.get("nested")
        w = World(loop, max(hops + 1, c.get("nodes", hops + 1)), tunnel_endpoint_at=(0,) if te else (),
                  dispatcher=c.get("stack"))
        info = {"nontrivial": False, "cls": ""}
        try:
            origin = w.nodes[0]
            circuit = await w.build_circuit(origin, hops, seed=c["seed"])
            if circuit is None:
                self.fail("I1", "build", f"honest {hops}-hop circuit was not built on a loss-free network")
            path = w.path(circuit)
            if None in path or len(path) != hops:
                self.fail("I1", "build", "circuit hop list names unknown peers")
            refs = [w.trace.ref(h.keys) for h in circuit.hops]
            if any(r is None for r in refs):
                raise AssertionError("key trace incomplete")
            second = None
            if fault and fault["type"] in ("splice", "swapcid"):
                second = await w.build_circuit(w.nodes[-1] if len(w.nodes) > hops + 1 else origin, hops,
                                               seed=c["seed"] + 1)
            got_raw: list = []
            origin.overlay.on_raw_data = lambda circ, org, data: got_raw.append((circ.circuit_id, tuple(org), data))
            got_anon: list = []
            if te:
                # a real overlay that asked for anonymity (it listens for its own prefix, as every Community does)
                from ipv8.community import Community
                anon = origin.add(type("AnonOverlay", (Community,), {"community_id": OTHER_PREFIX[2:]}), anonymize=True)
                if anon.get_prefix() != OTHER_PREFIX:
                    raise AssertionError("prefix of the anonymised overlay")
                anon.on_packet = lambda packet, warn_unknown=True: got_anon.append((tuple(packet[0]), bytes(packet[1])))
                origin.endpoint.set_tunnel_community(origin.overlay, hops)
            pongs: list = []
            orig_pong = origin.overlay.decode_map_private[7]

            def pong_shim(source_address, data, circuit_id=None):
                pongs.append((circuit_id, data[27:29]))
                return orig_pong(source_address, data, circuit_id)
            origin.overlay.decode_map_private[7] = pong_shim
            kind = c["kind"]
            size = c["size"]
            # IPv8-shaped data coming back in is re-injected through a TunnelEndpoint (C07); here inbound is raw data
            shape = "bt" if kind == "data_in" and not te else c.get("shape")
            payload = (ipv8_payload if shape == "ipv8" else bt_payload)(size, c["seed"] & 0xFF)
            if te:
                payload = OTHER_PREFIX + bt_payload(max(1, size - 22), c["seed"] & 0xFF)
            dest = tuple(c.get("dest") or ("5.5.5.5", 5555))
            outside = ("7.7.7.7", 7777)
            nested = kind == "data_in" and bool(c.get("nested")) and not fault
            if nested:
                # the outside host answers with a look-alike of a tunnelled DATA message: the tunnel overlay's own prefix,
                # message id 1, the originator's circuit id, destination 0.0.0.0:0 and an origin of its choice. The exit
                # lets own-prefix packets in; the originator must not hand the inner bytes to the application
                payload = w.prefix + b"\x01" + struct.pack(">I", circuit.circuit_id) + ref_addr(("0.0.0.0", 0)) + \
                    ref_addr(("198.51.100.7", 6881)) + bt_payload(max(size, 8), c["seed"] & 0xFF)
            allowed = len(payload) >= 2 and (payload[:1] == b"d" and payload[-1:] == b"e" or
                                             (len(payload) >= 23 and payload[:2] == b"\x00\x02"))
            # for the inbound direction the exit socket must exist: an opener packet goes out first
            if kind == "data_in":
                origin.overlay.send_data(circuit.hop.address, circuit.circuit_id, dest, ("0.0.0.0", 0), b"d4:opene")
                await asyncio.sleep(0.2)
            warm = list(c.get("warm") or [0, 0])
            if (warm[0] or warm[1]) and not fault and not nested and not te and not c.get("retiring"):
                # a circuit with a history: `warm[1]` datagrams went out and `warm[0]` answers came back before the
                # datagram that is measured (a ready circuit stays a ready circuit however much it has carried in
                # either direction)
                for i in range(max(warm[1], 1 if warm[0] and kind != "data_in" else 0)):
                    origin.overlay.send_data(circuit.hop.address, circuit.circuit_id, dest, ("0.0.0.0", 0), b"d4:warme")
                await asyncio.sleep(0.2)
                trw = [t for t in loop.transports if t.local_addr[0] == "0.0.0.0" and not t.closed]
                for i in range(warm[0]):
                    if trw:
                        trw[0].inject(b"d4:backe", outside)
                await asyncio.sleep(0.3)
                if warm[0] and len([g for g in got_raw if g[2] == b"d4:backe"]) != warm[0]:
                    self.fail("I1", "inbound:history", f"{warm[0]} outside answers on a ready {hops}-hop circuit, the "
                                                       f"originator received {len(got_raw)}")
                got_raw.clear()
            seq0 = w.net.seq
            sent0 = {id(t): len(t.sent) for t in loop.transports}
            target_link = fault["link"] if fault else None
            state = {"hit": None, "count": 0}
            links_fw = [(([origin] + path)[k].address, path[k].address) for k in range(hops)]
            links_bw = [(b, a) for (a, b) in reversed(links_fw)]
            links = links_bw if kind == "data_in" else links_fw

            if fault and fault["type"] != "inject":
                donor = {}

                def hook(fl):
                    cell = parse_cell(fl.data, w.prefix)
                    if cell is None:
                        return None
                    if second is not None and cell["circuit_id"] == second.circuit_id and fl.src == second_src:
                        donor["cell"] = fl.data
                    if (fl.src, fl.dst) != links[target_link % len(links)] or state["hit"] is not None \
                            or not state.get("armed"):
                        return None
                    if cell["plaintext"]:
                        return None
                    data = bytearray(fl.data)
                    if fault["type"] == "flip":
                        pos = fault["byte"] % len(data)
                        data[pos] ^= (fault["mask"] or 1)
                        state["hit"] = ("flip", pos)
                    elif fault["type"] == "splice":
                        if "cell" not in donor:
                            return None
                        data[CELL_HDR:] = donor["cell"][CELL_HDR:]
                        state["hit"] = ("splice", CELL_HDR)
                    elif fault["type"] == "swapcid":
                        data[23:27] = struct.pack(">I", second.circuit_id)
                        state["hit"] = ("swapcid", 23)
                    fl.data = bytes(data)
                    return None
                second_src = (w.nodes[-1] if len(w.nodes) > hops + 1 else origin).address
                w.net.on_send = hook
                if second is not None:
                    # donor traffic on the second circuit first
                    sn = w.nodes[-1] if len(w.nodes) > hops + 1 else origin
                    sn.overlay.send_data(second.hop.address, second.circuit_id, ("6.6.6.6", 6666), ("0.0.0.0", 0),
                                         b"d5:donore")
                    await asyncio.sleep(0.1)
                    seq0 = w.net.seq
                    sent0 = {id(t): len(t.sent) for t in loop.transports}

            state["armed"] = True
            fut = None
            if kind == "data_out":
                origin.overlay.send_data(circuit.hop.address, circuit.circuit_id, dest, ("0.0.0.0", 0), payload)
            elif kind == "data_in":
                tr = [t for t in loop.transports if t.local_addr[0] == "0.0.0.0" and not t.closed]
                if not tr:
                    self.fail("I1", "exit_socket", "no outside socket was opened by the opener packet")
                if c.get("retiring") and not fault:
                    # the exit is retiring this exit socket (as its inactivity sweep does): for remove_tunnel_delay seconds
                    # the outside socket stays open, and what still arrives on it must be carried like any other data
                    exit_node = path[-1]
                    for xcid in list(exit_node.overlay.exit_sockets):
                        exit_node.overlay.register_anonymous_task("pv-retire", exit_node.overlay.remove_exit_socket,
                                                                  xcid, "retiring (check)")
                    await asyncio.sleep(0.1)
                tr[0].inject(payload, outside)
            elif kind == "ping":
                origin.overlay.do_ping()
            elif kind == "test":
                fut = origin.overlay.send_test_request(circuit, size, c.get("resp", 32))
            if fault and fault["type"] == "inject" and fault.get("own_create"):
                await self.inject_own_create(w, origin, circuit, path, payload, dest)
            elif fault and fault["type"] == "inject":
                self.inject_forged(w, circuit, path, fault, payload, dest)
            await asyncio.sleep(0.5)
            w.net.on_send = None

            # what left every exit socket in the world since seq0
            emitted = []
            for t in loop.transports:
                for data, addr in t.sent[sent0.get(id(t), 0):]:
                    emitted.append((data, tuple(addr)))
            for g in got_raw:
                if g[2][:7] == b"d4:evil":
                    self.fail("I3", "inject:own_create" if fault and fault.get("own_create") else "inject:delivered",
                              f"the application was handed {g[2][:24]!r} attributed to {g[1]} on circuit {g[0]}: data made up by "
                              f"someone without the circuit's session keys (own_create: {getattr(self, 'own_create', None)})")
            honest_out = {(payload, dest)} if kind == "data_out" else set()
            honest_in = {(circuit.circuit_id, outside, payload)} if kind == "data_in" and not nested and not te else set()
            escaped = [(type(e).__name__, str(e)[:60]) for (_, _, _, e) in w.net.escaped]

            body_hit = state["hit"] is not None and (state["hit"][0] in ("splice", "swapcid") or
                                                     state["hit"][1] >= CELL_HDR)
            info["cls"] = "%dhop/%s/%s/%s" % (hops, kind + ("_nested" if nested else "_te" if te else "") +
                                              ("_retiring" if c.get("retiring") and kind == "data_in" and not fault else ""),
                                              size_class(size),
                                              "none" if not fault else fault["type"])
            if (warm[0] or warm[1]) and not fault and not nested and not te and not c.get("retiring"):
                info["cls"] += "/hist"
            info["nontrivial"] = (size >= 8 and not fault) or body_hit or bool(fault and fault["type"] == "inject")
            info["desc"] = (hops, kind, size_class(size), None if not fault else
                            (fault["type"], target_link, "body" if body_hit else state["hit"] and state["hit"][1]))

            # I3: nothing but honest payloads is ever delivered; nothing escapes the receive path
            if escaped:
                self.fail("I3", "exception:" + escaped[0][0],
                          f"{escaped[0][0]}({escaped[0][1]}) left Endpoint.notify_listeners "
                          f"(fault={fault}, hit={state['hit']})")
            for e in emitted:
                if e not in honest_out and e[0] != b"d5:donore":
                    self.fail("I3", "exit", f"exit emitted data that was never sent on this circuit: {e[0][:40]!r} -> {e[1]}")
            for g in got_raw:
                if g not in honest_in:
                    self.fail("I3", "originator", f"originator received data that was never sent to it: {g[2][:40]!r}")
            if fault and state["hit"] is not None:
                # exposure also counts for altered cells: whatever travels on after the alteration must again differ
                # from link to link (a relay that forwards a cell without adding or removing its layer lets an observer
                # correlate both links)
                seen_links: dict[tuple, list[bytes]] = {}
                for fl in w.net.log:
                    if fl.seq <= seq0:
                        continue
                    cell = parse_cell(fl.data, w.prefix)
                    if cell is None or len(cell["message"]) < 16:
                        continue
                    seen_links.setdefault((fl.src, fl.dst), []).append(cell["message"])
                link_keys = list(seen_links)
                for a in range(len(link_keys)):
                    for b in range(a + 1, len(link_keys)):
                        for ma in seen_links[link_keys[a]]:
                            for mb in seen_links[link_keys[b]]:
                                for off in range(0, len(ma) - 15, 4):
                                    if ma[off:off + 16] in mb:
                                        self.fail("I2", "ciphertext:after_alteration",
                                                  f"after a cell was altered in flight ({state['hit']}) 16 identical bytes "
                                                  f"travelled on two links {link_keys[a]} and {link_keys[b]}")
                hit_kind, pos = state["hit"]
                unauth_flag = hit_kind == "flip" and pos == 28
                if not unauth_flag and hit_kind == "flip" and pos in (27,):
                    unauth_flag = False
                if body_hit or (hit_kind == "flip" and pos < CELL_HDR and pos != 28):
                    own = [e for e in emitted if e in honest_out] + [g for g in got_raw if g in honest_in]
                    if own and not (hit_kind == "flip" and pos == 27 and False):
                        self.fail("I3", "altered:" + ("body" if body_hit else f"header{pos}"),
                                  f"a cell altered in flight ({state['hit']}) was still delivered")
                    if fut is not None and fut.done() and not fut.cancelled() and fut.exception() is None:
                        self.fail("I3", "altered:test", "speed-test answered although its cell was altered in flight")
                return info
            if fault:
                # inject, or the fault never applied (no matching cell): only the honest delivery is expected
                pass

            # I1 honest delivery
            if kind == "data_out":
                want = [(payload, dest)] if allowed else []
                if emitted != want:
                    self.fail("I1", "outbound", f"exit emitted {[(d[:24], a) for d, a in emitted]} for a sent payload of "
                                                f"{len(payload)} bytes to {dest} (policy allows: {allowed})")
            elif kind == "data_in":
                want_in = [(circuit.circuit_id, outside, payload)] if allowed and not nested and not te else []
                if te and got_anon != [(outside, payload)]:
                    self.fail("I1", "inbound:anonymised_overlay",
                              f"an outside peer {outside} answered with {len(payload)} bytes for the anonymised overlay on the "
                              f"originator's TunnelEndpoint; that overlay received {[(a, d[:24]) for a, d in got_anon]}")
                if nested and got_raw:
                    self.fail("I3", "inbound:nested_data", f"the application was handed {got_raw[0][2][:24]!r} attributed to "
                                                           f"{got_raw[0][1]}; the only outside sender was {outside} and it sent "
                                                           f"a look-alike DATA message, not these bytes")
                if got_raw != want_in:
                    self.fail("I1", "inbound", f"originator got {[(g[0], g[1], g[2][:24]) for g in got_raw]} for an outside "
                                               f"datagram of {len(payload)} bytes from {outside}")
            elif kind == "ping":
                if [p[0] for p in pongs] != [circuit.circuit_id]:
                    self.fail("I1", "ping", f"ping over a ready circuit was answered by {len(pongs)} pongs {pongs}")
            elif kind == "test":
                if not (fut.done() and fut.exception() is None and len(fut.result()[0]) == c.get("resp", 32)):
                    self.fail("I1", "test", "speed-test request over a ready circuit was not answered correctly")
            if not fault and (allowed or kind in ("ping", "test")):
                self.check_layers(w, seq0, circuit, path, refs, kind, payload, dest, outside, origin, links_fw)
            return info
        finally:
            await w.close()

    def inject_forged(self, w: World, circuit, path, fault: dict, payload: bytes, dest: tuple) -> None:
        """
        An outsider holding its own session keys forges a data cell for the live circuit id, at a drawn hop.
        """
        import os

        from ipv8_rust_tunnels import generate_session_keys
        keys = generate_session_keys(os.urandom(64))
        k = fault["link"] % len(path)
        target = path[k]
        # the circuit id that is live at that hop: walk the relay tables
        cid = circuit.circuit_id
        for nd in path[:k]:
            cid = nd.overlay.relay_from_to[cid].circuit_id
        evil = b"d4:evil" + payload[7:] if len(payload) > 8 else b"d4:evile"
        msg = b"\x01" + ref_addr(dest) + ref_addr(("0.0.0.0", 0)) + evil
        if fault.get("bare"):
            body, plain = msg, 0            # not encrypted at all, plaintext flag clear
        elif fault.get("plain"):
            body, plain = msg, 1
        else:
            body, plain = keys.encrypt_str(msg, FORWARD), 0
        cell = w.prefix + b"\x00" + struct.pack(">I", cid) + bytes([plain, 0]) + body
        prev_node = ([w.nodes[0]] + path)[k]
        src = ("6.6.6.6", 6000) if not fault.get("spoof") else prev_node.address
        dst = target.address
        if fault.get("v6") and target.address6 is not None:
            # delivered to the second address family of a dual-stack node
            dst = target.address6
            src = ("2001:db8::bad", 6000) if not fault.get("spoof") or prev_node.address6 is None else prev_node.address6
        w.net.inject(src, dst, cell)

    async def inject_own_create(self, w: World, origin, circuit, path, payload: bytes, dest: tuple) -> None:
        """
        The first hop (it holds its own layer's keys only) asks the originator to JOIN a circuit under the id of the
        originator's own circuit; if that is answered it completes the handshake and sends a data cell under the fresh
        keys alone. Wire format only (reference encodings); the key agreement uses the library's primitives.
        """
        from ipv8.messaging.anonymization.crypto import TunnelCrypto
        tc = TunnelCrypto()
        first = path[0]
        cid = circuit.circuit_id
        secret, X = tc.generate_diffie_secret()
        pk = origin.key.pub().key_to_bin()
        create = b"\x02" + struct.pack(">HH", 4242, len(pk)) + pk + struct.pack(">H", len(X)) + X
        mark = w.net.seq
        w.net.inject(first.address, origin.address, w.prefix + b"\x00" + struct.pack(">I", cid) + b"\x01\x00" + create,
                     note="create naming the receiver's own circuit id")
        await asyncio.sleep(0.2)
        answer = None
        for fl in w.net.log:
            cell = parse_cell(fl.data, w.prefix) if fl.seq > mark and fl.origin is origin.raw_endpoint else None
            if cell is not None and cell["plaintext"] and cell["circuit_id"] == cid and cell["message"][:1] == b"\x03":
                answer = cell["message"]
        if answer is None:
            self.own_create = "refused"
            return
        self.own_create = "answered"
        ident, n = struct.unpack_from(">HH", answer, 1)
        Y, auth = answer[5:5 + n], answer[5 + n:5 + n + 32]
        shared = tc.verify_and_generate_shared_secret(secret, Y, auth, origin.key.pub().get_crypt_pk())
        keys = tc.generate_session_keys(shared)
        evil = b"d4:evil" + payload[7:] if len(payload) > 8 else b"d4:evile"
        msg = b"\x01" + ref_addr(dest) + ref_addr(("6.6.6.6", 666)) + evil
        w.net.inject(first.address, origin.address, w.prefix + b"\x00" + struct.pack(">I", cid) + b"\x00\x00"
                     + keys.encrypt_str(msg, FORWARD), note="data under the keys of the bogus join")

    def check_layers(self, w, seq0, circuit, path, refs, kind, payload, dest, outside, origin, links_fw) -> None:
        hops = len(path)
        per_link = []
        back = kind == "data_in"
        links = [(b, a) for (a, b) in reversed(links_fw)] if back else links_fw
        for (src, dst) in links:
            msgs = [parse_cell(fl.data, w.prefix) for fl in w.net.log
                    if fl.seq > seq0 and (fl.src, fl.dst) == (src, dst)]
            msgs = [m for m in msgs if m is not None and not m["plaintext"]]
            if not msgs:
                self.fail("I2", "wire", f"no cell seen on link {src}->{dst}")
            per_link.append(msgs[0]["message"])
        direction = BACKWARD if back else FORWARD
        if not back:
            expected_plain = {"data_out": b"\x01" + ref_addr(dest) + ref_addr(("0.0.0.0", 0)) + payload}.get(kind)
            order = list(range(hops))            # link k is peeled by hop k
        else:
            expected_plain = b"\x01" + ref_addr(("0.0.0.0", 0)) + ref_addr(outside) + payload
            order = list(range(hops - 1, -1, -1))
        # forward: per_link[k] (k = 0..n-1) carries layers of hops k..n-1; peel hop k -> per_link[k+1]
        # backward: per_link[j] is the link hop(n-1-j) -> previous; it carries layers of hops (n-1-j)..n-1
        for j in range(hops):
            if not back:
                k = j
                inner_expected = per_link[j + 1] if j + 1 < hops else None
                peeled = try_decrypt(refs[k], per_link[j], direction)
                if peeled is None:
                    self.fail("I2", "layer", f"cell on link {j + 1}/{hops} does not decrypt with the key of hop {k + 1}")
                if inner_expected is not None:
                    if peeled != inner_expected:
                        self.fail("I2", "peel", f"removing hop {k + 1}'s layer from link {j + 1} does not give the bytes "
                                                f"seen on link {j + 2}")
                    if try_decrypt(refs[k + 1], per_link[j], direction) is not None:
                        self.fail("I2", "layercount", f"link {j + 1} decrypts with hop {k + 2}'s key alone: a layer is missing")
                else:
                    self.check_plain(peeled, expected_plain, kind)
            else:
                k = hops - 1 - j
                peeled = try_decrypt(refs[k], per_link[j], direction)
                if peeled is None:
                    self.fail("I2", "layer", f"return cell on link from hop {k + 1} does not decrypt with hop {k + 1}'s key")
                if j == 0:
                    self.check_plain(peeled, expected_plain, kind)
                else:
                    if peeled != per_link[j - 1]:
                        self.fail("I2", "peel", f"return link from hop {k + 1}: removing its layer does not give the bytes "
                                                f"seen on the link from hop {k + 2}")
                    if try_decrypt(refs[k + 1], per_link[j], direction) is not None:
                        self.fail("I2", "layercount", f"return link from hop {k + 1} decrypts with hop {k + 2}'s key alone")
        # exposure: payload windows and shared ciphertext windows
        if len(payload) >= 8 and kind in ("data_out", "data_in"):
            for j, m in enumerate(per_link):
                for off in range(0, len(payload) - 7):
                    if payload[off:off + 8] in m:
                        self.fail("I2", "plaintext", f"8 payload bytes at offset {off} are visible on link {j + 1}")
        for a in range(len(per_link)):
            for b in range(a + 1, len(per_link)):
                ma, mb = per_link[a], per_link[b]
                for off in range(0, max(0, len(ma) - 15)):
                    if ma[off:off + 16] in mb:
                        self.fail("I2", "ciphertext", f"16 ciphertext bytes are identical on links {a + 1} and {b + 1}")

    def check_plain(self, peeled: bytes, expected: bytes | None, kind: str) -> None:
        if expected is not None:
            if peeled != expected:
                self.fail("I2", "innermost", f"innermost plaintext differs from the reference encoding of the cell "
                                             f"({peeled[:32].hex()} vs {expected[:32].hex()})")
        elif kind == "ping":
            if len(peeled) != 3 or peeled[0] != 6:
                self.fail("I2", "innermost", "innermost plaintext of a ping cell is not (06, u16 identifier)")
        elif kind == "test":
            if not peeled or peeled[0] != 19:
                self.fail("I2", "innermost", "innermost plaintext of a test-request is not message 19")


class E2ECase:
    """
    Hidden-service circuit: downloader - hops - rendezvous point - hops - seeder, built by the real introduction /
    rendezvous / link flow; one data cell in either direction, optionally altered in flight.
    """

    def __init__(self, case: dict) -> None:
        self.case = case

    def fail(self, clause: str, site: str, msg: str) -> None:
        raise Violation(clause, "e2e:" + site, msg, self.case)

    async def main(self, loop: vloop.VirtualLoop) -> dict:
        import random

        from ..tunnelsim import HiddenWorld
        c = self.case
        hops = c["hops"]
        w = HiddenWorld(loop, 5 + hops)
        info = {"nontrivial": False, "cls": "", "desc": None}
        try:
            random.seed(c["seed"])
            seeder, downloader = w.nodes[0], w.nodes[1]
            res = await w.link_e2e(seeder, downloader, b"\x33" * 20, hops=hops)
            if res is None:
                # establishing the rendezvous depends on which peers the random walk picks (e.g. the downloader itself
                # as introduction point); the property is about circuits that are ready, so this case is only counted
                info["cls"] = "e2e/not_established"
                info["desc"] = ("e2e", "not_established", c["seed"], hops)
                return info
            d, s = res
            got = []
            seeder.overlay.on_raw_data = lambda circ, org, data: got.append(("seeder", circ.circuit_id, data))
            downloader.overlay.on_raw_data = lambda circ, org, data: got.append(("downloader", circ.circuit_id, data))
            shape = c.get("shape", "bt")
            if shape == "bt" or c["size"] < 23:
                payload = bt_payload(c["size"], c["seed"] & 0xFF)
            elif shape == "tunnel":
                # starts with the tunnel overlay's own prefix (message number 254 is not in use)
                payload = w.prefix + b"\xfe" + bt_payload(c["size"] - 23, c["seed"] & 0xFF)
            else:
                payload = (b"\x00\x01" if shape == "ipv8_v1" else b"\x00\x02") + ipv8_payload(c["size"], c["seed"] & 0xFF)[2:]
            back = c["kind"] == "e2e_s2d"
            sender, scirc = (seeder, s) if back else (downloader, d)
            want = [("downloader", d.circuit_id, payload)] if back else [("seeder", s.circuit_id, payload)]
            fault = c.get("fault")
            state = {"n": 0, "hit": None}
            seq0 = w.net.seq
            if fault and fault["type"] == "reflect":
                # a dishonest rendezvous point (it holds the keys of the adjacent hops, not the end-to-end keys) takes the
                # cell it should pass on, and sends it back to where it came from on the same circuit
                rp_entries = {(nd.idx, cid): (nd, r) for nd in w.nodes for cid, r in nd.overlay.relay_from_to.items()
                              if r.rendezvous_relay}

                def hook(fl):
                    cell = parse_cell(fl.data, w.prefix)
                    if cell is None or cell["plaintext"] or fl.seq <= seq0 or state["hit"] is not None:
                        return None
                    nd = w.by_addr.get(fl.dst)
                    ent = rp_entries.get((nd.idx, cell["circuit_id"])) if nd is not None else None
                    if ent is None:
                        return None
                    keys = w.trace.ref(ent[1].hop.keys)
                    inner = try_decrypt(keys, cell["message"], FORWARD) if keys is not None else None
                    if inner is None:
                        return None
                    back = keys.encrypt_str(inner, BACKWARD)
                    bounced = w.prefix + b"\x00" + struct.pack(">I", cell["circuit_id"]) + b"\x00\x00" + back
                    state["hit"] = CELL_HDR
                    w.net.inject(fl.dst, fl.src, bounced, note="reflected")
                    return None
                w.net.on_send = hook
            elif fault:
                def hook(fl):
                    cell = parse_cell(fl.data, w.prefix)
                    if cell is None or cell["plaintext"] or fl.seq <= seq0:
                        return None
                    if state["n"] == fault["link"] and state["hit"] is None:
                        data = bytearray(fl.data)
                        pos = fault["byte"] % len(data)
                        data[pos] ^= (fault["mask"] or 1)
                        fl.data = bytes(data)
                        state["hit"] = pos
                    state["n"] += 1
                    return None
                w.net.on_send = hook
            if fault and fault["type"] == "rp_inject":
                w.net.on_send = None
            # the destination field of an e2e data cell is the sender's to fill in: zero, the virtual end point the library's
            # own e2e callback hands out for the circuit, or anything else
            edest = {0: ("0.0.0.0", 0), 1: (socket.inet_ntoa(struct.pack("!I", scirc.circuit_id)), 1024),
                     2: ("5.6.7.8", 9)}[c.get("edest", 0)]
            sender.overlay.send_data(scirc.hop.address, scirc.circuit_id, edest, ("0.0.0.0", 0), payload)
            await asyncio.sleep(0.5)
            w.net.on_send = None
            if fault and fault["type"] == "rp_inject":
                # a dishonest rendezvous point (it holds the keys of the two adjacent hops, not the end-to-end keys) makes
                # up data cells of its own and sends one down each of the two linked circuits, under its own hop layer
                # only - without the end-to-end layer
                forged = bt_payload(40 + c["size"] % 50, (c["seed"] ^ 0x5A) & 0xFF)
                for nd in w.nodes:
                    rel = nd.overlay.relay_from_to
                    for cid, r in list(rel.items()):
                        other = rel.get(r.circuit_id)
                        if not r.rendezvous_relay or other is None:
                            continue
                        keys = w.trace.ref(r.hop.keys)
                        if keys is None:
                            continue
                        inner = b"\x01" + ref_addr(("0.0.0.0", 0)) + ref_addr(("1.2.3.4", 1234)) + forged
                        body = keys.encrypt_str(inner, BACKWARD)
                        cellb = w.prefix + b"\x00" + struct.pack(">I", cid) + b"\x00\x00" + body
                        w.net.inject(nd.address, tuple(other.hop.peer.address), cellb, note="made up by the rendezvous point")
                        state["hit"] = CELL_HDR
                await asyncio.sleep(0.5)
            if w.net.escaped:
                e = w.net.escaped[0][3]
                self.fail("I3", "exception:" + type(e).__name__, f"{type(e).__name__}: {e} left the receive path")
            chain = [parse_cell(fl.data, w.prefix)["message"] for fl in w.net.log
                     if fl.seq > seq0 and parse_cell(fl.data, w.prefix) is not None
                     and not parse_cell(fl.data, w.prefix)["plaintext"]]
            body_hit = state["hit"] is not None and state["hit"] >= CELL_HDR
            info["cls"] = "e2e/%dhop/%s/%s/%s/%s" % (hops, c["kind"], size_class(c["size"]), shape,
                                                     fault["type"] if fault else "none")
            info["nontrivial"] = (c["size"] >= 8 and not fault) or body_hit
            info["desc"] = ("e2e", hops, c["kind"], size_class(c["size"]), fault and (fault["type"], fault.get("link"),
                                                                                       "body" if body_hit else state["hit"]))
            for g in got:
                if g not in want:
                    self.fail("I3", "delivery", f"{g[0]} received data that was never sent to it: {g[2][:32]!r}")
            if fault and fault["type"] == "rp_inject":
                info["nontrivial"] = state["hit"] is not None
                if got != want:
                    self.fail("I3" if any(g not in want for g in got) else "I1", "rp_inject",
                              f"the rendezvous point made up cells without the end-to-end layer; deliveries were "
                              f"{[(g[0], g[2][:24]) for g in got]}")
                return info
            if fault and fault["type"] == "reflect":
                # the honest copy still reaches the other end; the reflected copy must not be delivered to the sender
                info["nontrivial"] = state["hit"] is not None
                if got != want:
                    self.fail("I3" if any(g not in want for g in got) else "I1", "reflected",
                              f"with the rendezvous point bouncing the cell back, deliveries were {[(g[0], g[2][:24]) for g in got]}")
                return info
            if fault and state["hit"] is not None:
                if (body_hit or state["hit"] != 28) and got:
                    self.fail("I3", "altered:" + ("body" if body_hit else f"header{state['hit']}"),
                              f"an e2e cell altered in flight (byte {state['hit']}) was still delivered")
                return info
            if got != want:
                self.fail("I1", "delivery", f"e2e payload of {len(payload)} bytes arrived as {[(g[0], g[2][:24]) for g in got]}")
            # I2: exposure on every link of the chain, and the end-to-end layer under the circuit layers
            if len(chain) < 2 * hops:
                self.fail("I2", "wire", f"only {len(chain)} encrypted cells seen for an e2e transfer over {2 * hops}+ links")
            if len(payload) >= 8:
                for j, m in enumerate(chain):
                    for off in range(0, len(payload) - 7):
                        if payload[off:off + 8] in m:
                            self.fail("I2", "plaintext", f"8 payload bytes are visible on link {j + 1} of the e2e path")
            for a in range(len(chain)):
                for b in range(a + 1, len(chain)):
                    for off in range(0, max(0, len(chain[a]) - 15)):
                        if chain[a][off:off + 16] in chain[b]:
                            self.fail("I2", "ciphertext", f"16 ciphertext bytes identical on links {a + 1} and {b + 1}")
            refs = [w.trace.ref(h.keys) for h in scirc.hops]
            hs = w.trace.ref(scirc.hs_session_keys)
            if hs is None or any(r is None for r in refs):
                raise AssertionError("key trace incomplete")
            m = chain[0]
            for k, r in enumerate(refs):
                m = try_decrypt(r, m, FORWARD)
                if m is None:
                    self.fail("I2", "layer", f"first link does not carry the layer of hop {k + 1}")
            expected = b"\x01" + ref_addr(edest) + ref_addr(("0.0.0.0", 0)) + payload
            if m == expected or (len(payload) >= 8 and payload[:8] in m):
                self.fail("I2", "e2e_layer", "after removing the circuit layers the cell is plaintext: the end-to-end layer is "
                                             "missing")
            inner = try_decrypt(hs, m, FORWARD)
            if inner is None:
                inner = try_decrypt(hs, m, BACKWARD)
            if inner != expected:
                self.fail("I2", "e2e_layer", "the innermost layer does not decrypt with the end-to-end session keys to the "
                                             "reference encoding of the cell")
            return info
        finally:
            w.net.on_send = None
            await w.close()


def run_anon_out(ctx: Ctx | None, case: dict) -> None:
    """
    Data of an overlay that asked for anonymity, sent through the originator's TunnelEndpoint: some packets before a
    circuit is ready (they wait in the endpoint's queue), some after. Every packet that is carried at all leaves the
    exit byte-for-byte identical and exactly once; once a ready circuit has been used, nothing is left behind.
    """
    c = case
    info = {"nt": False, "cls": "anon_out"}

    def fail(clause, site, msg):
        raise Violation(clause, "anon_out:" + site, msg, case)

    async def main(loop):
        from ipv8.community import Community
        hops = c["hops"]
        w = World(loop, hops + 1, tunnel_endpoint_at=(0,), dispatcher=c.get("stack"))
        try:
            origin = w.nodes[0]
            anon = origin.add(type("AnonOverlay", (Community,), {"community_id": OTHER_PREFIX[2:]}), anonymize=True)
            origin.endpoint.set_tunnel_community(origin.overlay, hops)
            dest = ("5.5.5.5", 5555)
            import random
            random.seed(c["seed"])
            sent = []

            def send(i: int) -> None:
                pkt = OTHER_PREFIX + bytes([i]) + bt_payload(c["size"] + i, (c["seed"] + i) & 0xFF)
                sent.append(pkt)
                anon.endpoint.send(dest, pkt)
            for i in range(c["early"]):
                send(i)
                await asyncio.sleep(c["gap"])
            await asyncio.sleep(2.0)

            def has_ready() -> bool:
                return any(x.state == "READY" and len(x.hops) == hops for x in origin.overlay.circuits.values())
            flushed_upto = -1          # index of the last packet sent while a ready circuit existed
            for i in range(c["early"], c["early"] + c["late"]):
                if has_ready():
                    flushed_upto = i
                send(i)
                await asyncio.sleep(c["gap"])
            await asyncio.sleep(1.0)
            emitted = [d for t in loop.transports for (d, a) in t.sent if tuple(a) == dest]
            # where each packet left the tunnel: only the exit (last hop) of a circuit of the configured length may emit it
            owner = {}
            for nd in w.nodes:
                for sock in nd.overlay.exit_sockets.values():
                    for t in (sock.transport_ipv4, sock.transport_ipv6):
                        if t is not None:
                            owner[id(t)] = nd
            exits = {w.path(x)[-1].idx for x in origin.overlay.circuits.values()
                     if len(x.hops) == hops and x.hops and w.path(x)[-1] is not None}
            for t in loop.transports:
                for (d, a) in t.sent:
                    if tuple(a) == dest and d in sent and id(t) in owner and exits and owner[id(t)].idx not in exits:
                        fail("I2", "wrong_exit", f"packet #{d[22]} of the anonymised overlay (TunnelEndpoint configured for "
                                                 f"{hops} hops) left the tunnel at node {owner[id(t)].idx}, which is not the exit "
                                                 f"of a {hops}-hop circuit of the originator (exits: {sorted(exits)}): a "
                                                 f"half-built circuit was used")
            for d in emitted:
                if d not in sent:
                    fail("I3", "foreign", f"the exit emitted {d[:24].hex()}.. which the anonymised overlay never sent")
            for pkt in sent:
                if emitted.count(pkt) > 1:
                    fail("I1", "duplicate", f"packet #{pkt[22]} of {len(sent)} sent through the TunnelEndpoint left the exit "
                                            f"{emitted.count(pkt)} times")
            if flushed_upto >= 0:
                # a send that found a ready circuit carries itself and flushes whatever was waiting (the queue holds 100)
                missing = [pkt[22] for pkt in sent[:flushed_upto + 1] if pkt not in emitted]
                if missing:
                    fail("I1", "lost", f"packets {missing} of {len(sent)} sent through the TunnelEndpoint ({c['early']} before a "
                                       f"circuit was ready; packet {flushed_upto} was sent into a ready circuit) never left "
                                       f"the exit")
                info["nt"] = flushed_upto > 0
            raw = [f for f in w.net.log if f.origin is origin.raw_endpoint and f.data[:22] == OTHER_PREFIX]
            if raw:
                fail("I2", "raw", "a packet of the anonymised overlay left the originator's own socket")
        finally:
            await w.close()
    try:
        vloop.run(main)
    finally:
        if ctx is not None:
            ctx.case(case, info["nt"], cls=info["cls"], sample=case)


def run_stale_intro(ctx: Ctx | None, case: dict) -> None:
    """
    A create-e2e that reaches an introduction point over its socket is passed on to the seeder through the seeder's
    introduction circuit, i.e. as data returned through the exit of that circuit: under the exit's layer on the last
    link, one more per link before it. The case asks for that before and after the introduction point has dropped the
    exit entry (told so by the seeder / unloaded / inactivity sweep): the message must never be readable in a cell.
    """
    c = case
    info = {"nt": False, "cls": "e2e_stale_intro/%dhop/how%d/%s" % (c["hops"], c["how"], "service" if c["service"] else "bare")}

    def fail(clause, site, msg):
        raise Violation(clause, "e2e:stale_intro:" + site, msg, case)

    async def main(loop):
        import random

        from ..tunnelsim import HiddenWorld
        hops, ih = c["hops"], b"\x34" * 20
        w = HiddenWorld(loop, 4 + hops, service=bool(c["service"]))
        try:
            random.seed(c["seed"])
            seeder = w.nodes[0]
            seeder.overlay.join_swarm(ih, hops, lambda addr: None, seeding=True)
            try:
                await asyncio.wait_for(seeder.overlay.create_introduction_point(ih), 60.0)
            except asyncio.TimeoutError:
                pass
            await asyncio.sleep(1.0)
            points = [(nd, pk, sock) for nd in w.nodes for pk, (sock, h) in nd.overlay.intro_point_for.items()]
            if not points:
                info["cls"] += "/not_established"
                return
            intro, seeder_pk, sock = points[0]
            cid = sock.circuit_id
            ours = [x for x in seeder.overlay.circuits.values() if x.ctype == "IP_SEEDER"]

            def create_e2e(n: int) -> tuple:
                key = bytes((c["seed"] * 7 + n * 31 + i * 13 + 5) & 0xFF for i in range(32))
                return key, (w.prefix + b"\x0d" + struct.pack(">H", 100 + n) + ih + struct.pack(">H", len(seeder_pk))
                             + seeder_pk + struct.pack(">H", len(key)) + key)

            async def offer(n: int, label: str) -> int:
                key, dgram = create_e2e(n)
                seq = w.net.seq
                w.net.inject(("6.6.6.6", 6000 + n), intro.address, dgram, note="create-e2e over the socket")
                await asyncio.sleep(1.0)
                cells = 0
                for fl in w.net.log:
                    if fl.seq <= seq or fl.origin is None or parse_cell(fl.data, w.prefix) is None:
                        continue
                    cells += 1
                    if key in fl.data or seeder_pk in fl.data:
                        fail("I2", "plaintext", f"{label}: the create-e2e the introduction point was given over its socket "
                                                f"is readable in a {len(fl.data)}-byte cell on the link {fl.src} -> {fl.dst} "
                                                f"(circuit {parse_cell(fl.data, w.prefix)['circuit_id']}): it was passed on "
                                                f"without any encryption layer")
                return cells
            before = await offer(0, "introduction circuit alive")
            how = c["how"]
            if how == 0:
                await intro.overlay.remove_exit_socket(cid, "harness: dropped by the introduction point", remove_now=True)
            elif how == 1 and ours:
                await seeder.overlay.remove_circuit(ours[0].circuit_id, "harness: seeder gives the circuit up",
                                                    remove_now=True, destroy=True)
            else:
                sock.last_activity -= 10_000
                intro.overlay.do_remove()
            await asyncio.sleep(12.0)
            if cid in intro.overlay.exit_sockets:
                info["cls"] += "/not_removed"
                return
            await offer(1, "after the introduction point dropped the exit entry")
            await offer(2, "after the introduction point dropped the exit entry (again)")
            if w.net.escaped:
                e = w.net.escaped[0][3]
                fail("I3", "exception:" + type(e).__name__, f"{type(e).__name__}: {e} left the receive path")
            info["nt"] = before > 0
        finally:
            await w.close()
    try:
        vloop.run(main)
    finally:
        if ctx is not None:
            ctx.case(case, info["nt"], cls=info["cls"], sample=case)


def run_case(ctx: Ctx | None, case: dict) -> None:
    if case.get("kind") == "anon_out":
        return run_anon_out(ctx, case)
    if case.get("kind") == "e2e_stale_intro":
        return run_stale_intro(ctx, case)
    if case.get("kind", "").startswith("e2e"):
        runner = E2ECase(case)
        info = vloop.run(runner.main)
        if ctx is not None:
            ctx.case(case, info["nontrivial"], cls=info["cls"], sample=case)
        return
    runner = Case(ctx, case)
    info = vloop.run(runner.main)
    if ctx is not None:
        ctx.case(case, info["nontrivial"], cls=info["cls"], sample=case)


def _strategy():
    from hypothesis import strategies as st
    size = st.one_of(st.sampled_from([0, 1, 2, 7, 8, 19, 20, 22, 23, 24, 64, 255, 256, 1000, 1400]),
                     st.integers(0, 1400))
    fault = st.one_of(
        st.none(), st.none(),
        st.fixed_dictionaries({"type": st.just("flip"), "link": st.integers(0, 2), "byte": st.integers(0, 1500),
                               "mask": st.integers(1, 255)}),
        st.fixed_dictionaries({"type": st.just("flip"), "link": st.integers(0, 2), "byte": st.integers(22, 60),
                               "mask": st.sampled_from([1, 2, 128, 255])}),
        st.fixed_dictionaries({"type": st.just("splice"), "link": st.integers(0, 2)}),
        st.fixed_dictionaries({"type": st.just("swapcid"), "link": st.integers(0, 2)}),
        st.fixed_dictionaries({"type": st.just("inject"), "link": st.integers(0, 2), "plain": st.booleans(),
                               "spoof": st.booleans(), "bare": st.booleans(), "v6": st.booleans()}),
        st.fixed_dictionaries({"type": st.just("inject"), "link": st.just(0), "own_create": st.just(1)}),
    )
    return st.fixed_dictionaries({
        "seed": st.integers(0, 10_000),
        "hops": st.integers(1, 3),
        "kind": st.sampled_from(["data_out", "data_out", "data_in", "data_in", "ping", "test"]),
        "size": size,
        "shape": st.sampled_from(["bt", "ipv8"]),
        "nested": st.sampled_from([0, 0, 1]),
        "te": st.sampled_from([0, 0, 1]),
        "retiring": st.sampled_from([0, 0, 1]),
        "stack": st.sampled_from([None, None, "v4", "dual", "dual"]),
        "dest": st.sampled_from([["5.5.5.5", 5555], ["2001:db8::5", 5555], ["5.6.7.8", 1]]),
        "resp": st.integers(0, 600),
        "warm": st.one_of(st.just([0, 0]), st.sampled_from([[8, 1], [12, 2], [3, 1], [0, 9], [9, 9]]),
                          st.lists(st.integers(0, 14), min_size=2, max_size=2)),
        "fault": fault,
    }).map(lambda c: {**c, "nodes": c["hops"] + 2 if c["fault"] and c["fault"]["type"] in ("splice", "swapcid")
                      else c["hops"] + 1})


def _e2e_strategy():
    from hypothesis import strategies as st
    fault = st.one_of(st.none(), st.just({"type": "reflect"}), st.just({"type": "rp_inject"}),
                      st.fixed_dictionaries({"type": st.just("flip"), "link": st.integers(0, 5),
                                             "byte": st.integers(22, 400), "mask": st.integers(1, 255)}))
    return st.fixed_dictionaries({"seed": st.integers(0, 10_000), "hops": st.integers(1, 2),
                                  "edest": st.sampled_from([0, 0, 1, 2]),
                                  "kind": st.sampled_from(["e2e_d2s", "e2e_s2d"]),
                                  "size": st.sampled_from([2, 8, 23, 64, 300, 1000]) | st.integers(2, 1200),
                                  "shape": st.sampled_from(["bt", "ipv8", "ipv8_v1", "tunnel"]), "fault": fault})


def _random_shard(ctx: Ctx, shard: int, nshards: int, n: int) -> None:
    hyp_run(ctx, "cases", _strategy(), lambda c: run_case(ctx, c), n)
    hyp_run(ctx, "e2e_cases", _e2e_strategy(), lambda c: run_case(ctx, c), max(8, n // 6))
    from hypothesis import strategies as st
    anon = st.fixed_dictionaries({"kind": st.just("anon_out"), "hops": st.integers(1, 3), "seed": st.integers(0, 1000),
                                  "early": st.integers(0, 4), "late": st.integers(1, 3),
                                  "gap": st.sampled_from([0.0, 0.01, 0.3]), "size": st.sampled_from([2, 30, 300]),
                                  "stack": st.sampled_from([None, "v4", "dual"])})
    hyp_run(ctx, "anon_out", anon, lambda c: run_case(ctx, c), max(6, n // 10))
    stale = st.fixed_dictionaries({"kind": st.just("e2e_stale_intro"), "hops": st.integers(1, 2), "seed": st.integers(0, 1000),
                                   "how": st.integers(0, 2), "service": st.sampled_from([0, 0, 1])})
    hyp_run(ctx, "stale_intro", stale, lambda c: run_case(ctx, c), max(4, n // 20))


def _sweep_shard(ctx: Ctx, shard: int, nshards: int, hops: int, size: int, step: int) -> None:
    # every byte position of one data cell, on every link
    total = CELL_HDR + 24 * hops + 15 + size + 2
    k = 0
    # a member of the circuit asks the originator to join a circuit under the originator's own circuit id, then sends data
    for h in (1, 2, 3):
        for kind in ("data_in", "data_out", "ping"):
            for stack in (None, "dual"):
                k += 1
                if k % nshards != shard:
                    continue
                case = {"seed": 5, "hops": h, "kind": kind, "size": 64, "shape": "bt", "nested": 0, "te": 0, "retiring": 0,
                        "stack": stack, "dest": ["5.5.5.5", 5555], "resp": 32, "nodes": h + 1,
                        "fault": {"type": "inject", "link": 0, "own_create": 1}}
                try:
                    run_case(ctx, case)
                except Violation as v:
                    ctx.violation(v)
    for kind in ("data_out", "data_in"):
        for link in range(hops):
            for byte in range(0, total, step):
                k += 1
                if k % nshards != shard:
                    continue
                case = {"seed": 7, "hops": hops, "kind": kind, "size": size, "shape": "bt", "dest": ["5.5.5.5", 5555],
                        "nodes": hops + 1, "fault": {"type": "flip", "link": link, "byte": byte, "mask": 1 << (byte % 8)}}
                try:
                    run_case(ctx, case)
                except Violation as v:
                    ctx.violation(v)


def run(ctx: Ctx) -> None:
    shard_run(ctx, _random_shard, extra=(500 if ctx.quick else 12000,))
    if ctx.quick:
        shard_run(ctx, _sweep_shard, extra=(2, 24, 3))
    else:
        shard_run(ctx, _sweep_shard, extra=(3, 40, 1))
        shard_run(ctx, _sweep_shard, extra=(1, 300, 1))


def replay(ctx: Ctx, case: dict) -> None:
    run_case(None, case)
