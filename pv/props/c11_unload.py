"""
C11 - an unloaded overlay is silent and holds no resources.

Part 1 (unload at every moment): each scripted protocol run of pv.capture (one per shipped overlay class, production
default settings) is cut after the k-th delivered datagram - for every k of the run (sampled in the quick tier) and at
drawn virtual times - by calling ``await overlay.unload()`` on the observed node while the other nodes carry on.
After unload() has returned the check delivers late datagrams (everything the observed node received in an honest
run, plus prefix + every message id 0..255) and advances virtual time by two hours. Oracle:
  U1 no datagram with the overlay's prefix leaves the node and nothing is written to an outside socket it owns;
  U2 no message handler of the overlay (decode_map / cell handlers) is entered;
  U3 register_task returns a completed dummy and starts nothing; no task registered through the overlay, its request
     cache or its exit sockets is still pending;
  U4 every outside socket opened on its behalf is closed;
  U5 neither the overlay nor its crypto listener is registered at the endpoint any more.

Part 2 (task manager rules): generated operation lists on a real TaskManager under the virtual clock:
  T1 registering a name that is still active raises;  T2 replace_task starts the new body only after the old task
  has finished;  T3 after shutdown nothing runs and nothing can be registered; every running body is tracked.
"""
from __future__ import annotations

import asyncio

from .. import capture, vloop
from ..core import Ctx, HarnessError, Violation, hyp_run, shard_run

PID = "C11"
LEVEL = "exploration"
RULE = ("part 1: for each of 12 scripted runs (plain Community, the same on a TunnelEndpoint, Discovery, DHTDiscovery, Tunnel, "
        "HiddenTunnel seeding a swarm, Pex, Identity, Attestation, and three complete ipv8_service.IPv8 instances with the "
        "default configuration where Discovery / HiddenTunnel / DHTDiscovery is unloaded through IPv8.unload_overlay) unload is requested after delivery k for k = 0..K (quick: ~60 evenly spread k per run, rotated by "
        "seed; thorough: every k) and at Hypothesis-drawn virtual times; then ~100-600 late datagrams + 256 ids and 2 h "
        "of virtual time. Non-trivial = at the cut the overlay had a pending request cache entry, a circuit / relay / exit "
        "entry, an open outside socket or a running non-periodic task. part 2: Hypothesis op lists (<= 40 ops) over "
        "register / replace / cancel / advance / shutdown with 3 names; non-trivial = a replace or a same-name "
        "re-registration while the old task is still running. part 3 (pex_retire): PexCommunity started and unloaded by "
        "an introduction point itself under real ipv8_service.IPv8 instances that tick its walkers (1-3 introduction points x "
        "seeder leaves / introduction point unloads its tunnel overlay / seeder vanishes x meeting time x seeds); non-trivial "
        "= the retired Pex overlay knew a peer. distinct = (scenario, cut) resp. op list.")
ASSUMPTIONS = [
    "application-level calls on the overlay after the unload request are not made (the property is about what the "
    "overlay does by itself)",
    "bootstrappers are attached by configuration and are not part of these runs; HiddenTunnelCommunity is covered "
    "through its TunnelCommunity base only",
    "virtual time: two hours after unload are simulated, not waited",
]

LATE_CACHE: dict[str, list] = {}


def honest_corpus(name: str) -> tuple[list, int]:
    """
    Datagrams the observed node receives in an uninterrupted run, and the number of deliveries of that run.
    """
    if name in LATE_CACHE:
        return LATE_CACHE[name]

    async def main(loop):
        env = capture.Env(loop)
        env.net.single_step = True
        env = await capture.run_scenario(loop, name, env)
        tgt, ov = env.target_node, env.target_overlay
        got = [(fl.src, fl.data) for fl in env.net.delivered if fl.dst == tgt.address and fl.data[:22] == ov.get_prefix()]
        n = len(env.net.delivered)
        await env.close()
        return got, n
    LATE_CACHE[name] = vloop.run(main)
    return LATE_CACHE[name]


def owned_pending_tasks(loop, ov) -> list[str]:
    """
    Pending asyncio tasks that run code of the overlay, its request cache or an exit socket it created - found from the
    tasks themselves (coroutine frames, bound methods, closures), whether or not a TaskManager still keeps track of them.
    """
    import functools
    rc = getattr(ov, "request_cache", None)

    def owner_of(obj) -> str | None:
        if obj is ov:
            return type(ov).__name__
        if rc is not None and obj is rc:
            return "RequestCache"
        if type(obj).__name__.endswith("ExitSocket") and getattr(obj, "overlay", None) is ov:
            return type(obj).__name__
        return None

    def reach(obj, depth: int, seen: set) -> str | None:
        if depth > 5 or id(obj) in seen:
            return None
        seen.add(id(obj))
        o = owner_of(obj)
        if o:
            return o
        nxt: list = []
        if hasattr(obj, "__self__") and hasattr(obj, "__func__"):
            nxt += [obj.__self__, obj.__func__]
        if isinstance(obj, functools.partial):
            nxt += [obj.func, *obj.args, *obj.keywords.values()]
        if getattr(obj, "__closure__", None):
            for cell in obj.__closure__:
                try:
                    nxt.append(cell.cell_contents)
                except ValueError:
                    pass
        fr = getattr(obj, "cr_frame", None) or getattr(obj, "gi_frame", None)
        if fr is not None:
            nxt += list(fr.f_locals.values())
        aw = getattr(obj, "cr_await", None)
        if aw is not None:
            nxt.append(aw)
        if isinstance(obj, (tuple, list)) and len(obj) <= 8:
            nxt += list(obj)
        for x in nxt:
            r = reach(x, depth + 1, seen)
            if r:
                return r
        return None
    out = []
    cur = asyncio.current_task()
    for t in asyncio.all_tasks(loop):
        if t is cur or t.done():
            continue
        coro = t.get_coro()
        o = reach(coro, 0, set())
        if o:
            out.append(f"{o}:{getattr(coro, '__qualname__', '?')}")
    return out


class UnloadRun:
    def __init__(self, case: dict) -> None:
        self.case = case
        self.info = {"nontrivial": False, "cls": "", "desc": None}

    def fail(self, clause: str, site: str, msg: str) -> None:
        raise Violation(clause, site, msg, self.case)

    async def main(self, loop: vloop.VirtualLoop) -> None:
        c = self.case
        name = c["scenario"]
        late, _ = honest_corpus(name) if not c.get("_nolate") else ([], 0)
        env = capture.Env(loop)
        env.net.single_step = True     # one delivery per loop iteration, so that the unload really lands between two
        st = {"deliveries": 0, "unload_task": None, "done": False, "handler_after": [], "owned_transports": [],
              "tracked": [], "busy": False, "sends_after": []}
        self.st = st

        def start_unload() -> None:
            if st["unload_task"] is None and env.target_overlay is not None:
                env.stopped = True
                st["unload_task"] = loop.create_task(self.do_unload(env))

        orig_deliver = env.net.deliver

        def counting_deliver(fl):
            res = orig_deliver(fl)
            st["deliveries"] += 1
            if c.get("cut") is not None and st["deliveries"] == c["cut"]:
                # lag: the unload is requested that many loop iterations after the delivery (tasks started by the
                # delivery - e.g. the opening of an exit's outside sockets - are then part-way through)
                def later(k: int) -> None:
                    if k <= 0:
                        start_unload()
                    else:
                        loop.call_soon(later, k - 1)
                later(c.get("lag", 0))
            return res
        env.net.deliver = counting_deliver

        def on_transport(tr):
            cb = getattr(tr.protocol, "received_cb", None)
            sock = getattr(cb, "__self__", None)
            if sock is None and getattr(tr.protocol, "overlay", None) is env.target_overlay:
                sock = tr.protocol          # a socket a bootstrapper opened for the overlay
            if sock is not None and getattr(sock, "overlay", None) is env.target_overlay:
                st["owned_transports"].append(tr)
                orig_sendto = tr.sendto

                def sendto(data, addr=None):
                    if st["done"]:
                        st["sends_after"].append(("outside socket", bytes(data)[:16].hex()))
                    return orig_sendto(data, addr)
                tr.sendto = sendto
        loop.on_transport = on_transport

        def instrument() -> None:
            ov = env.target_overlay

            def shim(tag, fn):
                def wrapped(*a, **kw):
                    if st["done"]:
                        st["handler_after"].append(tag)
                    return fn(*a, **kw)
                return wrapped
            for i, h in enumerate(ov.decode_map):
                if h is not None:
                    ov.decode_map[i] = shim(f"msg{i}", h)
            if hasattr(ov, "decode_map_private"):
                for i, h in list(ov.decode_map_private.items()):
                    ov.decode_map_private[i] = shim(f"cell{i}", h)
            # every future registered through the overlay, its request cache or its exit sockets
            managers = [ov]
            if getattr(ov, "request_cache", None) is not None:
                managers.append(ov.request_cache)
            for m in managers:
                self.track_manager(m)
            if c.get("cut") == 0:
                def later0(k: int) -> None:
                    if k <= 0:
                        start_unload()
                    else:
                        loop.call_soon(later0, k - 1)
                later0(c.get("lag", 0))
        env.on_target = instrument
        if c.get("cut_time") is not None:
            loop.call_later(c["cut_time"], start_unload)
        try:
            await capture.run_scenario(loop, name, env)
            if st["unload_task"] is None:
                start_unload()
            if st["unload_task"] is None:
                raise HarnessError(f"scenario {name} never named a target")
            await asyncio.wait_for(st["unload_task"], 600)
            await self.after_unload(loop, env, late)
        finally:
            loop.on_transport = None
            await env.close()

    def track_manager(self, m) -> None:
        st = self.st
        orig = m.register_task

        def register_task(name, task, *a, **kw):
            fut = orig(name, task, *a, **kw)
            st["tracked"].append((type(m).__name__, str(name)[:40], fut))
            return fut
        m.register_task = register_task
        for name, fut in list(m._pending_tasks.items()):  # noqa: SLF001 - tasks registered by the constructor
            st["tracked"].append((type(m).__name__, str(name)[:40], fut))

    async def do_unload(self, env) -> None:
        ov = env.target_overlay
        st = self.st
        # busy-ness at the cut (non-triviality)
        rc = getattr(ov, "request_cache", None)
        busy = bool(rc is not None and getattr(rc, "_identifiers", None))
        for tbl in ("circuits", "relay_from_to", "exit_sockets"):
            busy = busy or bool(getattr(ov, tbl, None))
        busy = busy or any(not t.closed for t in st["owned_transports"])
        busy = busy or any(not f.done() and not getattr(f, "interval", None) for (_, n, f) in st["tracked"]
                           if n not in ("_check_tasks",))
        st["busy"] = busy
        for sock in list(getattr(ov, "exit_sockets", {}).values()):
            self.track_manager(sock)
        if env.unload_fn is not None:
            await env.unload_fn()          # through the service object, as an application does
        else:
            await ov.unload()
        st["done"] = True
        st["seq_done"] = env.net.seq

    async def after_unload(self, loop, env, late) -> None:
        st = self.st
        c = self.case
        ov, node = env.target_overlay, env.target_node
        prefix = ov.get_prefix()
        name = c["scenario"]
        where = f"unload of {type(ov).__name__} {c.get('lag', 0)} loop iteration(s) after delivery {c.get('cut')}" \
            if c.get("cut") is not None else \
            f"unload of {type(ov).__name__} at t={c.get('cut_time')}"

        def check(phase: str) -> None:
            if st["handler_after"]:
                self.fail("U2", f"{name}:handler:{phase}", f"{where}: handler {st['handler_after'][0]} ran after unload() "
                                                           f"had returned ({phase})")
            sent = [fl for fl in env.net.log if fl.seq > st["seq_done"] and fl.data[:22] == prefix
                    and (fl.origin is node.raw_endpoint or (node.raw_endpoint6 is not None and fl.origin is node.raw_endpoint6))]
            if sent:
                self.fail("U1", f"{name}:send:{phase}", f"{where}: the overlay sent message id {sent[0].data[22]} to "
                                                        f"{sent[0].dst} after unload() had returned ({phase})")
            if st["sends_after"]:
                self.fail("U1", f"{name}:outside_send:{phase}", f"{where}: data left through an {st['sends_after'][0][0]} "
                                                                f"after unload ({phase})")
            if node.raw_endpoint.escaped:
                e = node.raw_endpoint.escaped[0][2]
                self.fail("U2", f"{name}:exception:{phase}", f"{where}: {type(e).__name__}: {e} escaped the receive path")
        # immediately after unload() returned
        check("at return")
        ep = node.raw_endpoint
        listeners = list(ep._listeners) + [l for ls in ep._prefix_map.values() for l in ls]  # noqa: SLF001
        ep6 = node.raw_endpoint6
        if ep6 is not None:
            listeners += list(ep6._listeners) + [l for ls in ep6._prefix_map.values() for l in ls]  # noqa: SLF001
        if any(l is ov for l in listeners):
            self.fail("U5", f"{name}:listener", f"{where}: the overlay is still registered as endpoint listener")
        ce = getattr(ov, "crypto_endpoint", None)
        if ce is not None and any(l is ce for l in listeners):
            self.fail("U5", f"{name}:crypto_listener", f"{where}: the overlay's crypto endpoint still listens on the endpoint")
        fut = ov.register_task("pv-late-task", lambda: st["handler_after"].append("late task body"))
        await asyncio.sleep(0)
        if not fut.done() or ov.is_pending_task_active("pv-late-task"):
            self.fail("U3", f"{name}:register_task", f"{where}: register_task after unload started a task")
        pending = [(m, n) for (m, n, f) in st["tracked"] if not f.done()]
        if pending:
            self.fail("U3", f"{name}:pending_task:{pending[0][0]}", f"{where}: tasks still pending after unload() "
                                                                    f"returned: {pending[:4]}")
        await asyncio.sleep(0)
        left = owned_pending_tasks(loop, ov)
        if left:
            self.fail("U3", f"{name}:untracked_task:{left[0].split(':')[0]}",
                      f"{where}: asyncio tasks running code of the overlay / its exit sockets are still pending after "
                      f"unload() returned (no task manager keeps track of them): {sorted(set(left))[:4]} x{len(left)}")
        open_tr = [t.local_addr for t in st["owned_transports"] if not t.closed]
        if open_tr:
            self.fail("U4", f"{name}:socket", f"{where}: outside sockets {open_tr} opened for this overlay are still open")
        # late datagrams
        for src, data in late:
            ep.deliver(src, data)
        for i in range(256):
            ep.deliver(("1.0.0.2", 8001), prefix + bytes([i]) + b"\x00" * 8)
        if ep6 is not None:
            # the node's second address family: the same late traffic arrives there
            for src, data in late[:200]:
                ep6.deliver(("2001:db8::2", 8001), data)
            for i in range(256):
                ep6.deliver(("2001:db8::2", 8001), prefix + bytes([i]) + b"\x00" * 8)
        await env.net.settle()
        check("late datagrams")
        # one more minute with the neighbours alive (their periodic traffic keeps arriving), then they are stopped and
        # the observed node is left alone for the rest of the two hours
        await asyncio.sleep(60)
        check("a minute later")
        for inst in getattr(env, "instances", [])[1:]:
            if inst.state_machine_task:
                inst.state_machine_task.cancel()
        for nd in env.nodes:
            if nd is not node:
                try:
                    await nd.unload()
                except BaseException:  # noqa: BLE001
                    pass
        # a complete service instance keeps ticking its remaining walkers 20 times a second: two more minutes there,
        # two hours for a bare overlay
        await asyncio.sleep(120 if getattr(env, "instances", None) else 7200)
        check("two hours later")
        open_tr = [t.local_addr for t in st["owned_transports"] if not t.closed]
        if open_tr:
            self.fail("U4", f"{name}:socket", f"{where}: outside sockets {open_tr} still open two hours after unload")
        self.info["nontrivial"] = st["busy"]
        self.info["cls"] = f"{name}:{'busy' if st['busy'] else 'idle'}"
        self.info["desc"] = (name, c.get("cut"), c.get("cut_time"), c.get("lag", 0))


def run_rc_window_case(ctx: Ctx | None, case: dict) -> None:
    """
    Part 3: what arrives WHILE an overlay is unloading. The overlays shut their request cache down first and stop
    listening afterwards, so a handler may try to register a request while ``RequestCache.shutdown()`` is still waiting
    for cancelled timeouts. Whatever it does with that request - refuse it or take it - nothing of it may be left when
    the shutdown has completed: no pending task, no timeout firing later.
    """
    from ipv8.requestcache import NumberCache, RequestCache

    def fail(clause, site, msg):
        raise Violation(clause, site, msg, case)

    async def main(loop):
        rc = RequestCache()
        fired: list = []

        class Req(NumberCache):
            def __init__(self, number, timeout):
                super().__init__(rc, "pv", number)
                self._t = timeout

            @property
            def timeout_delay(self):
                return self._t

            def on_timeout(self):
                fired.append(self.number)
        for i in range(case["pending"]):
            rc.add(Req(i, 5.0 + i))
        task = asyncio.ensure_future(rc.shutdown())
        for _ in range(case["rc_window"]):
            await asyncio.sleep(0)
        late = Req(100, 1.0)
        accepted = None
        if not task.done():
            accepted = rc.add(late)
        await task
        if not task.done():
            raise HarnessError("shutdown did not complete")
        after = rc.add(Req(101, 1.0))
        if after is not None:
            fail("U3", "request_cache:add_after_shutdown", "RequestCache.add accepted a request after shutdown() had completed")
        await asyncio.sleep(30)
        left = [str(n) for n, f in rc._pending_tasks.items() if not f.done()]  # noqa: SLF001
        if fired:
            fail("U3", "request_cache:timeout_after_shutdown",
                 f"a request registered {case['rc_window']} loop iteration(s) into RequestCache.shutdown() "
                 f"({'accepted' if accepted is not None else 'refused'}) had its timeout fire after the shutdown had completed: "
                 f"{fired}")
        if left or rc._identifiers:  # noqa: SLF001
            fail("U3", "request_cache:left_after_shutdown", f"after shutdown() completed the request cache still holds "
                                                            f"{sorted(rc._identifiers)} / pending tasks {left}")  # noqa: SLF001
    vloop.run(main)
    if ctx is not None:
        ctx.case(case, case["rc_window"] > 0 and case["pending"] > 0, cls="rc_window")


def run_tm_window_case(ctx: Ctx | None, case: dict) -> None:
    """
    The same for a bare TaskManager: a task registered while shutdown_task_manager() is still waiting for cancelled tasks
    to finish is either refused or gone by the time the shutdown has completed.
    """
    from ipv8.taskmanager import TaskManager

    def fail(clause, site, msg):
        raise Violation(clause, site, msg, case)

    async def main(loop):
        tm = TaskManager()
        ran: list = []

        async def slow():
            try:
                await asyncio.sleep(100)
            except asyncio.CancelledError:
                await asyncio.sleep(0.25)      # clean-up after cancellation
                raise
        for i in range(case["pending"]):
            tm.register_task("old%d" % i, slow)
        await asyncio.sleep(0)
        task = asyncio.ensure_future(tm.shutdown_task_manager())
        if case["tm_window"] < 0:
            await asyncio.sleep(0.1)           # in the middle of the clean-up of the cancelled tasks
        for _ in range(max(0, case["tm_window"])):
            await asyncio.sleep(0)

        async def body():
            await asyncio.sleep(case["delay"])
            ran.append(loop.time())
        fut = None
        if not task.done():
            fut = tm.register_task("late", body, **({"interval": 1.0} if case["delay"] == 0 else {}))
        await task
        t_done = loop.time()
        await asyncio.sleep(30)
        late_runs = [t for t in ran if t > t_done]
        if late_runs:
            fail("T3", "register_during_shutdown:runs_later",
                 f"a task registered while shutdown_task_manager() was waiting ran {len(late_runs)} time(s) after the "
                 f"shutdown had completed")
        if fut is not None and not fut.done():
            fail("T3", "register_during_shutdown:pending", "a task registered while shutdown_task_manager() was waiting is "
                                                           "still pending long after the shutdown completed")
    vloop.run(main)
    if ctx is not None:
        ctx.case(case, case["pending"] > 0, cls="tm_window")


def run_pex_retire_case(ctx: Ctx | None, case: dict) -> None:
    """
    The shipped PexCommunity is started and unloaded by the library itself: an introduction point starts one per swarm
    (walkers registered with the application's IPv8 service object) and unloads it when the last introduction circuit of
    that swarm is gone. Real ipv8_service.IPv8 instances tick the walkers. After PexCommunity.unload() has completed the
    node must not send another packet under the Pex prefix and the overlay must not run a task.
    """
    c = case
    info = {"nt": False, "cls": "pex_retire/how%d" % c["how"]}

    def fail(clause, site, msg):
        raise Violation(clause, "pex_retire:" + site, msg, case)

    async def main(loop):
        import random

        from ..tunnelsim import HiddenWorld
        w = HiddenWorld(loop, 6, service="real")
        insts = [nd.stub for nd in w.nodes]
        try:
            random.seed(c["seed"])
            for nd, inst in zip(w.nodes, insts):
                inst.overlays.append(nd.overlay)
                await inst.start()
            seeder, ih = w.nodes[0], b"\x35" * 20
            seeder.overlay.join_swarm(ih, 1, lambda addr: None, seeding=True)
            for _ in range(6):
                try:
                    await asyncio.wait_for(seeder.overlay.create_introduction_point(ih), 30.0)
                except asyncio.TimeoutError:
                    pass
                await asyncio.sleep(1.0)
                if len([nd for nd in w.nodes if nd.overlay.pex]) >= c["points"]:
                    break
            points = [(nd, pex) for nd in w.nodes for pex in nd.overlay.pex.values()]
            if not points:
                info["cls"] += "/no_pex"
                return
            # the Pex overlays of the swarm get to know each other (any peer may walk in at any time)
            for nd, pex in points:
                for other, _ in points:
                    if other is not nd:
                        pex.walk_to(other.address)
            await asyncio.sleep(c["meet"])
            done: dict = {}
            for nd, pex in points:
                def wrap(pex=pex, orig=pex.unload):
                    async def unload():
                        await orig()
                        done[id(pex)] = (w.net.seq, loop.time())
                    return unload
                pex.unload = wrap()
            had_peers = {id(pex): len(pex.get_peers()) for _, pex in points}
            walkers = {id(pex): [type(s_).__name__ for s_, _ in nd.stub.strategies if s_.overlay is pex] for nd, pex in points}
            how = c["how"]
            if how == 0:
                seeder.overlay.leave_swarm(ih)
            elif how == 1:
                for nd, _ in points:
                    await nd.stub.unload_overlay(nd.overlay)
            else:
                # the seeder's host vanishes (its service's ticker would spin on a closed endpoint without ever sleeping)
                insts[0].state_machine_task.cancel()
                seeder.raw_endpoint.close()
            await asyncio.sleep(c["after"])
            for nd, pex in points:
                if id(pex) not in done:
                    continue
                seq_done, t_done = done[id(pex)]
                prefix = pex.get_prefix()
                late = [fl for fl in w.net.log if fl.seq > seq_done and fl.origin is nd.raw_endpoint and fl.data[:22] == prefix]
                if late:
                    fail("U1", "sends", f"node {nd.idx}: PexCommunity.unload() completed at t={t_done - 1.7e9:.1f}; afterwards the "
                                        f"node sent {len(late)} packet(s) under the Pex prefix (message ids "
                                        f"{sorted({fl.data[22] for fl in late})}, first at t={late[0].t - 1.7e9:.1f}); walkers "
                                        f"registered with the service for it: {walkers[id(pex)]}, peers it knew: "
                                        f"{had_peers[id(pex)]}")
                pending = [t for t in pex.get_tasks() if not t.done()]
                if pending:
                    fail("U3", "tasks", f"node {nd.idx}: the unloaded PexCommunity still has {len(pending)} pending task(s)")
                info["nt"] = info["nt"] or had_peers[id(pex)] > 0
            info["cls"] += "/%dpoints/%s" % (len(points), "unloaded" if done else "kept")
        finally:
            for inst in insts:
                if inst.state_machine_task:
                    inst.state_machine_task.cancel()
            await w.close()
    try:
        vloop.run(main)
    finally:
        if ctx is not None:
            ctx.case(("pex_retire", c["how"], c["points"], c["meet"], c["after"], c["seed"]), info["nt"], cls=info["cls"],
                     sample=case)


def run_case(ctx: Ctx | None, case: dict) -> None:
    if "pex_retire" in case:
        return run_pex_retire_case(ctx, case)
    if "rc_window" in case:
        return run_rc_window_case(ctx, case)
    if "tm_window" in case:
        return run_tm_window_case(ctx, case)
    if "ops" in case:
        return run_tm_case(ctx, case)
    r = UnloadRun(case)
    honest_corpus(case["scenario"])      # cached; must not be computed inside a running loop
    try:
        vloop.run(r.main)
    finally:
        if ctx is not None and r.info["desc"] is not None:
            ctx.case(r.info["desc"], r.info["nontrivial"], cls=r.info["cls"], sample=case)


# ---- part 2: task manager ----------------------------------------------------------------------------------------

def run_tm_case(ctx: Ctx | None, case: dict) -> None:
    from ipv8.taskmanager import TaskManager
    info = {"nt": False}

    def fail(clause, site, msg):
        raise Violation(clause, site, msg, case)

    async def main(loop):
        tm = TaskManager()
        running: dict[int, str] = {}       # body id -> name, while inside a body
        log: list = []
        counter = [0]
        shutdown_done = [False]
        live_futs: dict[str, object] = {}

        cancelling: set[int] = set()
        chained: set[str] = set()     # names for which a replace arrived while an earlier cancelled body still ran

        replaced: set[int] = set()    # bodies that some replace_task call has asked to replace

        started: set = set()          # tags of replacement bodies that began to run
        last_call: dict[str, tuple] = {}   # name -> (kind of the last operation on that name, tag, future)

        def make_body(name: str, dur: float, olds: tuple | None = None, chained_call: bool = False, tag: object = None):
            async def body():
                counter[0] += 1
                me = counter[0]
                started.add(tag)
                if shutdown_done[0]:
                    fail("T3", "body_after_shutdown", f"a body of task {name!r} started after shutdown completed")
                if olds is not None and any(o in running for o in olds):
                    site = "overlap:replace_during_replace" if chained_call else "overlap"
                    fail("T2", site, f"replace_task started the new body of {name!r} while the old task had not "
                                     f"finished yet" + (" (a second replace_task arrived while the task cancelled by the "
                                                        "first one was still finishing)" if chained_call else ""))
                running[me] = name
                try:
                    await asyncio.sleep(dur)
                except asyncio.CancelledError:
                    cancelling.add(me)
                    if dur == 2.0:
                        # a body with clean-up work: it is finished only after the clean-up
                        await asyncio.sleep(0.25)
                    raise
                finally:
                    running.pop(me, None)
                log.append(("end", name, me))
            return body

        for op in case["ops"]:
            kind = op[0]
            if kind in ("register", "replace"):
                _, nm, mode, dur = op
                name = "n%d" % nm
                if kind == "register":
                    # replace calls that are still waiting keep acting later: they stay in the group
                    keep = tuple(x for x in last_call.get(name, ("", (), None))[1] if not x[1].done())
                    last_call[name] = ("register", keep, None)
                kw = {"delay": 0.5} if mode == 1 else {"interval": 1.0} if mode == 2 else {}
                active = tm.is_pending_task_active(name)
                if kind == "register":
                    try:
                        fut = tm.register_task(name, make_body(name, dur), **kw)
                        if active and not shutdown_done[0]:
                            fail("T1", "register_active", f"register_task accepted the name {name!r} while a task of that name "
                                                          f"was still active")
                        if shutdown_done[0]:
                            if not fut.done():
                                fail("T3", "register_after_shutdown", "register_task after shutdown returned a pending future")
                        else:
                            live_futs[name] = fut
                    except RuntimeError:
                        if not active:
                            fail("T1", "register_inactive", f"register_task refused the free name {name!r}")
                        info["nt"] = True
                else:
                    if active:
                        info["nt"] = True
                    # the old task of this replacement: the body of the active task of that name, or - when an
                    # earlier replace_task is still waiting for its old task to finish - that still-finishing body
                    act = tuple(me for me, n in running.items() if n == name and me not in cancelling)
                    pend = tuple(me for me, n in running.items() if n == name and me in replaced)
                    olds = act if active else pend
                    replaced.update(olds)
                    tag = ("replace", len(last_call), counter[0], id(op))
                    rfut = tm.replace_task(name, make_body(name, dur, olds=olds, chained_call=not active and bool(pend),
                                                           tag=tag), **kw)
                    # replace calls for one name that overlap (none of them followed by another kind of operation on the
                    # name) form one group: the statement does not say which of them wins
                    prev = last_call.get(name)
                    last_call[name] = ("replace", (*(prev[1] if prev else ()), (tag, rfut)), rfut)
            elif kind == "cancel":
                name = "n%d" % op[1]
                keep = tuple(x for x in last_call.get(name, ("", (), None))[1] if not x[1].done())
                last_call[name] = ("cancel", keep, None)
                tm.cancel_pending_task(name)
                if op[2]:
                    # cancel immediately followed by a registration under the same name (same loop iteration)
                    info["nt"] = True
                    try:
                        live_futs[name] = tm.register_task(name, make_body(name, op[3]), interval=1.0)
                    except RuntimeError:
                        fail("T1", "register_after_cancel", f"the name {name!r} is refused right after cancel_pending_task")
            elif kind == "advance":
                await asyncio.sleep(op[1])
            elif kind == "shutdown":
                last_call.clear()
                earlier = set(cancelling) & set(running)      # cancelled before the shutdown, still cleaning up
                await tm.shutdown_task_manager()
                shutdown_done[0] = True
                late = [n for me, n in running.items() if me not in earlier]
                if late:
                    fail("T3", "running_at_shutdown_return", f"shutdown_task_manager() returned while bodies "
                                                             f"{sorted(late)} had not finished (still cleaning up)")
                if running:
                    fail("T3", "running_at_shutdown_return:cancelled_earlier",
                         f"shutdown_task_manager() returned while bodies {sorted(running.values())}, cancelled before the "
                         f"shutdown by cancel_pending_task / replace_task, were still cleaning up")
            # every body that is running must belong to a task the manager still tracks (else shutdown cannot stop it)
            if not shutdown_done[0]:
                # let cancellations requested by this operation unwind (a cancelled body leaves at the next iteration)
                await asyncio.sleep(0)
                await asyncio.sleep(0)
                for me, name in list(running.items()):
                    if me in cancelling:
                        continue     # cancelled and busy cleaning up: not the manager's responsibility any more
                    if not tm.is_pending_task_active(name):
                        fail("T3", "untracked", f"a body registered as {name!r} is running but the manager no longer tracks "
                                                f"a task of that name")
        # a replacement that nothing superseded must get its turn once the old tasks are done ("starts the new one ...
        # after the old one has finished"): every chained wait is at most one clean-up (0.25 s) long, delays are 0.5 / 1 s
        if last_call and not shutdown_done[0]:
            await asyncio.sleep(0.5 * len(case["ops"]) + 3.0)
            for name, (last_kind, group, rfut) in sorted(last_call.items()):
                if last_kind != "replace":
                    continue
                tags = [t for t, _ in group]
                if not any(t in started for t in tags):
                    state = "pending" if not rfut.done() else "cancelled" if rfut.cancelled() else \
                        f"failed with {rfut.exception()!r}"[:120] if rfut.exception() is not None else "registered"
                    fail("T2", "replacement_lost", f"{len(tags)} replace_task call(s) for {name!r} were the last thing asked for "
                                                   f"that name, yet none of their tasks ever started (the last call's future "
                                                   f"is {state})")
        await tm.shutdown_task_manager()
        shutdown_done[0] = True
        await asyncio.sleep(30)
        if running:
            fail("T3", "running_after_shutdown", f"bodies {sorted(running.values())} still run after shutdown")
        if loop.escaped:
            exc = loop.escaped[0].get("exception")
            if isinstance(exc, Violation):
                raise exc
    vloop.run(main)
    if ctx is not None:
        ctx.case(case, info["nt"], cls="taskmanager")


# ---- drivers -------------------------------------------------------------------------------------------------------

def _cut_shard(ctx: Ctx, shard: int, nshards: int, per_scenario: int) -> None:
    jobs = []
    for name in capture.SCENARIOS:
        _, n = honest_corpus(name)
        ks = list(range(0, n + 1))
        if name.startswith("service"):
            # a complete service instance costs ~1.5 s per cut: fewer cuts per variant
            per = 16 if per_scenario else 120
            step = len(ks) / per
            off = ctx.seed % max(1, int(step))
            ks = sorted({min(n, int(i * step) + off) for i in range(per)} | {0, n})
        elif per_scenario and len(ks) > per_scenario:
            step = len(ks) / per_scenario
            off = ctx.seed % max(1, int(step))
            ks = sorted({min(n, int(i * step) + off) for i in range(per_scenario)} | {0, n})
        if name.startswith("bootstrap"):
            # tiny scenario: every cut with every lag (the bootstrappers initialise over a few loop iterations)
            jobs += [{"scenario": name, "cut": k, "lag": lag} for k in ks for lag in range(8)]
        elif name.startswith(("tunnel", "hidden")):
            lags = [None] if per_scenario else range(0, 6)
            jobs += [{"scenario": name, "cut": k, "lag": (k + ctx.seed) % 6 if lag is None else lag} for k in ks
                     for lag in lags]
        else:
            jobs += [{"scenario": name, "cut": k} for k in ks]
    jobs += [{"rc_window": k, "pending": m} for k in range(0, 7) for m in range(0, 4)]
    jobs += [{"tm_window": k, "pending": m, "delay": d} for k in (-1, 0, 1, 2, 3) for m in (0, 1, 2) for d in (0, 0.5)]
    ctx.note("cut_jobs", len(jobs) if shard == 0 else 0)
    for i, case in enumerate(jobs):
        if i % nshards != shard:
            continue
        try:
            run_case(ctx, case)
        except Violation as v:
            ctx.violation(v)


def _pex_shard(ctx: Ctx, shard: int, nshards: int, deep: int) -> None:
    jobs = [{"pex_retire": 1, "how": how, "points": points, "meet": meet, "after": 60.0, "seed": seed}
            for how in range(3) for points in (1, 2, 3) for meet in ((6.0,) if not deep else (0.0, 1.0, 6.0, 30.0))
            for seed in (range(ctx.seed, ctx.seed + 2) if not deep else range(ctx.seed, ctx.seed + 12))]
    for i, case in enumerate(jobs):
        if i % nshards != shard:
            continue
        try:
            run_case(ctx, case)
        except Violation as v:
            ctx.violation(v)


def _random_shard(ctx: Ctx, shard: int, nshards: int, n_time: int, n_tm: int) -> None:
    from hypothesis import strategies as st
    times = st.fixed_dictionaries({"scenario": st.sampled_from(sorted(capture.SCENARIOS)),
                                   "cut_time": st.floats(0.0, 20.0).map(lambda x: round(x, 3))})
    hyp_run(ctx, "cut_times", times, lambda c: run_case(ctx, c), n_time)
    nm = st.integers(0, 2)
    dur = st.sampled_from([0.0, 0.3, 2.0])
    op = st.one_of(
        st.tuples(st.just("register"), nm, st.integers(0, 2), dur).map(list),
        st.tuples(st.just("replace"), nm, st.integers(0, 2), dur).map(list),
        st.tuples(st.just("cancel"), nm, st.booleans(), dur).map(list),
        st.tuples(st.just("advance"), st.sampled_from([0.0, 0.1, 0.5, 1.0, 3.0])).map(list),
        st.just(["shutdown"]),
    )
    hyp_run(ctx, "taskmanager", st.fixed_dictionaries({"ops": st.lists(op, min_size=1, max_size=40)}),
            lambda c: run_case(ctx, c), n_tm)


def run(ctx: Ctx) -> None:
    shard_run(ctx, _cut_shard, extra=(60 if ctx.quick else 0,))
    shard_run(ctx, _pex_shard, extra=(0 if ctx.quick else 1,))
    shard_run(ctx, _random_shard, extra=(10, 300) if ctx.quick else (150, 6000))


def replay(ctx: Ctx, case: dict) -> None:
    run_case(None, case)
