"""
C02 - every shipped wire message survives encode/decode unchanged.

Subjects: every concrete ``Serializable`` class found by importing all non-test ``ipv8`` modules, every packer name
registered by ``Serializer()`` and by the overlays' ``get_serializer()`` (driven through a one-field harness
message, the way ``to_pack_list`` tuples reach a packer), the tunnel ``CellPayload`` and one harness dataclass
payload. For a drawn legal value ``x`` of subject ``C`` the clauses of DESIGN C02 are evaluated:

  (f) ``pack(x)`` equals the bytes ``pv.refcodec`` computes from the documented layout
      (``specs/wire_layouts.json`` for messages, the documented packer table for packers),
  (a) ``unpack(pack(x))`` equals ``x`` field by field,
  (b) the returned offset is ``len(pack(x))``,
  (c) ``pack(unpack(pack(x))) == pack(x)``,
  (d) (a)-(c) again at a non-zero start offset inside random leading / trailing bytes,
  (e) (a)-(d),(f) again with ``C`` nested through ``payload`` and ``[C]`` in a harness container.

A failing message-level case is re-examined packer by packer ("blame"), so that a broken packer is reported once
under its own name instead of once per message that uses it.
"""
from __future__ import annotations

import importlib
import inspect
import ipaddress
import itertools
import json
import os
import pkgutil
import random

from .. import keypool, refcodec
from ..core import ROOT, Ctx, HarnessError, Violation, digest, hyp_run, shard_run

PID = "C02"
LEVEL = "exploration"
EXHAUSTIVE = False
RULE = ("[plus histories on one Serializer: a format name re-registered after a decode, a dataclass type offered before its first instance] per subject (each discovered Serializable class, each registered packer name, CellPayload, one harness "
        "dataclass payload): Hypothesis-drawn legal values (boundary-biased integers, empty/large byte strings with "
        "the unit of the length prefix respected, IPv4 / IPv6 / non-literal host names, bit fields, nested and listed "
        "payloads, floats incl. +-0, inf, NaN), each with a drawn start offset 1..32 inside random leading/trailing "
        "bytes and a drawn nesting (payload + 0..3 listed copies); plus index-enumerated sweeps: every combination "
        "of the small-domain fields (all 256 values of each bits byte, connection types, booleans) and every start "
        "offset 0..32. Non-trivial = the value is not all-default (some integer/flag/bytes/list field differs from "
        "zero/False/empty); distinct = digest of (subject, packed bytes, offset, nesting).")
ASSUMPTIONS = [
    "specs/wire_layouts.json (hand transcription of payload docstrings and DESIGN Appendix B) and pv.refcodec "
    "(written from doc/reference/serialization.rst) are the trusted base of clause (f)",
    "element byte order of arrayH-q / arrayH-d is not pinned by the documentation: both orders are accepted, "
    "prefix, element width and total length are pinned",
    "field domains are the documented ones: integers within their width, fixed 'NNs' fields of exactly NN bytes, "
    "varlenBx2 / varlenHx20 payloads in whole units, lists of at most 255 items, utf8 strings without surrogates, "
    "IPv4 dotted quads, IPv6 text compared by its 128-bit value, host names that are not IP literals, "
    "'raw' only as the last field, float32 fields compared after IEEE round-to-nearest, NaN only as the canonical "
    "quiet NaN, tunnel flags compared as the ascending set of bits",
    "flag fields are compared by truth value, addresses as (host, port)",
]

# ---- discovery ---------------------------------------------------------------------------------------------

OPTIONAL_MODULES = {
    "ipv8.messaging.interfaces.lan_addresses.any_os.netifaces": "needs the optional third-party package netifaces",
    "ipv8.messaging.interfaces.lan_addresses.windows.GetAdaptersAddresses": "Windows only (ctypes.WinDLL)",
}
# discovered classes that are not messages; each is verified to really have no fields / be abstract
SKIP_CLASSES = {
    "ipv8.messaging.serialization.Payload": "abstract base class",
    "ipv8.messaging.lazy_payload.VariablePayload": "framework base class without fields",
    "ipv8.messaging.lazy_payload.VariablePayloadWID": "framework base class without fields",
    "ipv8.messaging.payload_dataclass.DataClassPayload": "framework base class without fields",
    "ipv8.messaging.payload_dataclass.DataClassPayloadWID": "framework base class without fields",
    "ipv8.messaging.anonymization.payload.CellablePayload": "typing base class without fields",
}

# constructor fields of the old-style (hand-written) classes: (attribute == keyword argument, domain tag)
OLD_STYLE = {
    "ipv8.messaging.payload.IntroductionRequestPayload": [
        ("destination_address", "ipv4"), ("source_lan_address", "ipv4"), ("source_wan_address", "ipv4"),
        ("advice", "truth"), ("connection_type", "conntype"), ("identifier", "H"), ("extra_bytes", "raw"),
        ("supports_new_style", "truth")],
    "ipv8.peerdiscovery.payload.DiscoveryIntroductionRequestPayload": [
        ("introduce_to", "20s"), ("destination_address", "ipv4"), ("source_lan_address", "ipv4"),
        ("source_wan_address", "ipv4"), ("advice", "truth"), ("connection_type", "conntype"), ("identifier", "H"),
        ("extra_bytes", "raw")],
    "ipv8.messaging.payload.IntroductionResponsePayload": [
        ("destination_address", "ipv4"), ("source_lan_address", "ipv4"), ("source_wan_address", "ipv4"),
        ("lan_introduction_address", "ipv4"), ("wan_introduction_address", "ipv4"), ("connection_type", "conntype"),
        ("identifier", "H"), ("extra_bytes", "raw"), ("supports_new_style", "truth"),
        ("intro_supports_new_style", "truth"), ("peer_limit_reached", "truth")],
    "ipv8.messaging.payload.PunctureRequestPayload": [
        ("lan_walker_address", "ipv4"), ("wan_walker_address", "ipv4"), ("identifier", "H")],
    "ipv8.messaging.payload.PuncturePayload": [
        ("source_lan_address", "ipv4"), ("source_wan_address", "ipv4"), ("identifier", "H")],
    "ipv8.messaging.payload_headers.BinMemberAuthenticationPayload": [("public_key_bin", "varlenH")],
    "ipv8.messaging.payload_headers.GlobalTimeDistributionPayload": [("global_time", "Q")],
    "ipv8.peerdiscovery.payload.SimilarityRequestPayload": [
        ("identifier", "H"), ("lan_address", "ipv4"), ("wan_address", "ipv4"), ("connection_type", "conntype"),
        ("preference_list", "list20")],
    "ipv8.peerdiscovery.payload.SimilarityResponsePayload": [
        ("identifier", "H"), ("preference_list", "list20"), ("tb_overlap", "tb")],
    "ipv8.peerdiscovery.payload.PingPayload": [("identifier", "H")],
    "ipv8.peerdiscovery.payload.PongPayload": [("identifier", "H")],
    "ipv8.attestation.wallet.payload.RequestAttestationPayload": [("metadata", "raw")],
    "ipv8.attestation.wallet.payload.VerifyAttestationRequestPayload": [("attestation_hash", "20s")],
    "ipv8.attestation.wallet.payload.AttestationChunkPayload": [
        ("attestation_hash", "20s"), ("sequence_number", "H"), ("data", "raw")],
    "ipv8.attestation.wallet.payload.ChallengePayload": [("attestation_hash", "20s"), ("challenge", "raw")],
    "ipv8.attestation.wallet.payload.ChallengeResponsePayload": [("challenge_hash", "20s"), ("response", "raw")],
}

CONN_TYPES = ["unknown", "public", "symmetric-NAT"]


def _is_test(modname: str) -> bool:
    return "test" in modname.split(".")


def discover() -> dict:
    """
    Import every non-test ipv8 module; return {qualified name: class} of all Serializable subclasses defined there.
    """
    import ipv8
    from ipv8.messaging.serialization import Serializable
    for m in pkgutil.walk_packages(ipv8.__path__, "ipv8."):
        if _is_test(m.name):
            continue
        try:
            importlib.import_module(m.name)
        except Exception as e:  # noqa: BLE001
            if m.name not in OPTIONAL_MODULES:
                raise HarnessError(f"cannot import {m.name}: {type(e).__name__}: {e}") from e
    found: dict = {}
    todo = [Serializable]
    seen = set()
    while todo:
        for sub in todo.pop().__subclasses__():
            if sub in seen:
                continue
            seen.add(sub)
            todo.append(sub)
            if sub.__module__.startswith("ipv8.") and not _is_test(sub.__module__):
                found[f"{sub.__module__}.{sub.__qualname__}"] = sub
    return dict(sorted(found.items()))


def overlay_packers() -> dict:
    """
    {packer name: packer} for every name an overlay's ``get_serializer`` adds to the default set.
    """
    from ipv8.messaging.serialization import Serializer
    from ipv8.overlay import Overlay
    base = set(Serializer().get_available_formats())
    extra: dict = {}
    todo, seen = [Overlay], set()
    while todo:
        for sub in todo.pop().__subclasses__():
            if sub in seen:
                continue
            seen.add(sub)
            todo.append(sub)
            if not sub.__module__.startswith("ipv8.") or _is_test(sub.__module__):
                continue
            if "get_serializer" not in sub.__dict__:
                continue
            try:
                ser = sub.get_serializer(object.__new__(sub))
            except Exception as e:  # noqa: BLE001
                raise HarnessError(f"cannot obtain the serializer of {sub.__qualname__}: {e}") from e
            for name in ser.get_available_formats():
                if name not in base:
                    if name in extra and type(extra[name]) is not type(ser.get_packer_for(name)):
                        raise HarnessError(f"packer name {name} registered with different packers")
                    extra.setdefault(name, ser.get_packer_for(name))
    return dict(sorted(extra.items()))


# ---- field kinds -----------------------------------------------------------------------------------------------

INT_RANGE = {"B": (0, 2 ** 8 - 1), "H": (0, 2 ** 16 - 1), "I": (0, 2 ** 32 - 1), "L": (0, 2 ** 32 - 1),
             "Q": (0, 2 ** 64 - 1), "l": (-2 ** 31, 2 ** 31 - 1), "q": (-2 ** 63, 2 ** 63 - 1)}
TEXT_POOL = "aZ09 -_.éßλж中\U0001f600"


class Field:
    """
    One logical field: ``kind`` decides strategy, materialisation and comparison; ``fmt`` is the packer name when
    the field maps 1:1 onto a packer; ``sub`` the nested subject for payload kinds; ``members`` for struct kinds.
    """

    def __init__(self, name: str, kind: str, fmt: str | None = None, sub: "Subject | None" = None,
                 members: list | None = None) -> None:
        self.name, self.kind, self.fmt, self.sub, self.members = name, kind, fmt, sub, members


def field_for_format(name: str, fmt: str) -> Field:
    """
    The logical field of a packer name (raises KeyError for an unknown packer).
    """
    if fmt in refcodec.STRUCTS:
        members = refcodec.STRUCTS[fmt]
        if len(members) > 1:
            return Field(name, "struct", fmt, members=members)
        m = members[0]
        if m in INT_RANGE:
            return Field(name, "int", fmt)
        if m == "?":
            return Field(name, "truth", fmt)
        if m == "c":
            return Field(name, "fixed", fmt, members=[1])
        if m == "f":
            return Field(name, "f32", fmt)
        if m == "d":
            return Field(name, "f64", fmt)
        return Field(name, "fixed", fmt, members=[int(m[:-1])])
    table = {"bits": "bits8", "ipv4": "addr", "ip_address": "addr", "address": "addr", "raw": "bytes",
             "varlenH-list": "blist", "arrayH-?": "abool", "arrayH-q": "aint", "arrayH-d": "af64", "flags": "flags",
             "node-list": "nodes"}
    if fmt in table:
        return Field(name, table[fmt], fmt)
    if fmt in refcodec.VARLEN:
        return Field(name, "str" if refcodec.VARLEN[fmt][2] else "bytes", fmt)
    raise KeyError(fmt)


OLD_TAGS = {"truth": ("truth", None), "conntype": ("conntype", None), "list20": ("list20", None), "tb": ("tb", None)}


def field_for_tag(name: str, tag: str) -> Field:
    if tag in OLD_TAGS:
        return Field(name, OLD_TAGS[tag][0], None)
    return field_for_format(name, tag)


# ---- strategies (plain JSON-able data) --------------------------------------------------------------------------

def _st():
    from hypothesis import strategies as st
    return st


def s_int(lo: int, hi: int):
    st = _st()
    edges = sorted({v for v in (lo, lo + 1, -1, 0, 1, 127, 128, 255, 256, 65535, 65536, 2 ** 31 - 1, 2 ** 31,
                                2 ** 32 - 1, 2 ** 32, hi - 1, hi) if lo <= v <= hi})
    return st.one_of(st.sampled_from(edges), st.integers(lo, hi))


def s_bytes(unit: int, max_units: int, big_units: tuple = ()):
    st = _st()
    small = st.lists(st.binary(min_size=unit, max_size=unit), max_size=min(max_units, 12)).map(b"".join) \
        if unit > 1 else st.binary(max_size=min(max_units, 48))
    if not big_units:
        return small
    big = st.tuples(st.sampled_from(sorted(big_units)), st.binary(min_size=1, max_size=7)).map(
        lambda t: (t[1] * (t[0] * unit // len(t[1]) + 1))[:t[0] * unit])
    return st.one_of(small, small, small, big)


def s_text(max_bytes: int, big: bool):
    st = _st()
    small = st.one_of(st.text(max_size=24), st.text(alphabet=TEXT_POOL, max_size=24))
    if not big:
        return small
    # encoded lengths at the edge of the length prefix (two-byte characters + padding)
    edge = st.sampled_from([255, 256, max_bytes - 1, max_bytes]).map(lambda n: "é" * (n // 2) + "a" * (n % 2))
    return st.one_of(small, small, small, edge)


def s_ipv4():
    st = _st()
    host = st.one_of(st.sampled_from(["0.0.0.0", "127.0.0.1", "255.255.255.255", "10.0.0.1", "192.168.1.254"]),
                     st.tuples(*[st.integers(0, 255)] * 4).map(lambda t: "%d.%d.%d.%d" % t))
    return st.tuples(host, s_int(0, 65535)).map(list)


def s_ipv6():
    st = _st()
    raw = st.one_of(st.sampled_from([bytes(16), bytes(15) + b"\x01", b"\xff" * 16,
                                     bytes.fromhex("20010db8000000000000000000000001"),
                                     bytes.fromhex("fe800000000000000000000000000001"),
                                     bytes(10) + b"\xff\xff\x01\x02\x03\x04"]),
                    st.binary(min_size=16, max_size=16),
                    st.lists(st.sampled_from([b"\x00\x00", b"\x00\x01", b"\xab\xcd", b"\xff\xff"]),
                             min_size=8, max_size=8).map(b"".join))
    return st.tuples(raw.map(lambda b: str(ipaddress.IPv6Address(b))), s_int(0, 65535)).map(list)


def s_domain():
    st = _st()
    first = st.tuples(st.sampled_from("abcxyz"), st.text(alphabet="abcdefxyz0123456789-", max_size=10),
                      st.sampled_from("abz019")).map("".join)
    label = st.one_of(st.text(alphabet="abcdefxyz0123456789", min_size=1, max_size=12),
                      st.text(alphabet="éßλ中", min_size=1, max_size=4))
    host = st.tuples(first, st.lists(label, max_size=4)).map(lambda t: ".".join([t[0], *t[1]]))
    host = st.one_of(host, host, st.sampled_from(["localhost", "a", "tracker.example.org", "x" * 63 + ".com",
                                                  ".".join(["y" * 60] * 4)]))
    return st.tuples(host, s_int(0, 65535)).map(list)


def s_float32():
    st = _st()
    return st.one_of(st.floats(width=32, allow_nan=False),
                     st.floats(min_value=-3.4e38, max_value=3.4e38, allow_nan=False),
                     st.sampled_from([0.0, -0.0, float("inf"), float("-inf"), float("nan"), 1e-45, 3.4028234e38,
                                      16777217.0, 0.1]))


def s_float64():
    st = _st()
    return st.one_of(st.floats(allow_nan=False),
                     st.sampled_from([0.0, -0.0, float("inf"), float("-inf"), float("nan"), 5e-324,
                                      1.7976931348623157e308, 0.1]))


def s_member(m):
    st = _st()
    if m in INT_RANGE:
        return s_int(*INT_RANGE[m])
    if m == "c":
        return st.binary(min_size=1, max_size=1)
    if m == "?":
        return st.booleans()
    if m.endswith("s"):
        return st.binary(min_size=int(m[:-1]), max_size=int(m[:-1]))
    raise HarnessError(f"no strategy for struct member {m}")


def s_field(f: Field, big: bool):
    """
    Strategy of plain values of one field. ``big`` additionally admits values at the upper end of the length
    prefixes (used at packer level, where nothing else has to fit next to them).
    """
    st = _st()
    k, fmt = f.kind, f.fmt
    if k == "int":
        return s_int(*INT_RANGE[refcodec.STRUCTS[fmt][0]])
    if k == "truth":
        return st.booleans() if fmt == "?" or fmt is None else st.sampled_from([0, 1, False, True])
    if k == "fixed":
        return st.one_of(st.binary(min_size=f.members[0], max_size=f.members[0]),
                         st.sampled_from([bytes(f.members[0]), b"\xff" * f.members[0]]))
    if k == "f32":
        return s_float32()
    if k == "f64":
        return s_float64()
    if k == "struct":
        return st.tuples(*[s_member(m) for m in f.members]).map(list)
    if k == "bits8":
        return st.lists(st.sampled_from([0, 1, False, True]), min_size=8, max_size=8)
    if k == "addr":
        if fmt == "ipv4":
            return s_ipv4()
        if fmt == "ip_address":
            return st.one_of(s_ipv4(), s_ipv6())
        return st.one_of(s_ipv4(), s_ipv6(), s_domain())
    if k == "bytes":
        if fmt == "raw":
            return s_bytes(1, 48, (255, 256, 65535, 70000) if big else (300,))
        width, unit, _ = refcodec.VARLEN[fmt]
        top = 2 ** (8 * width) - 1
        if width == 4:
            return s_bytes(unit, 48, (255, 256, 65535, 65536, 70001) if big else (300,))
        if unit == 20:
            return s_bytes(20, 12, (255, 256, 3276, top if STATE.get("max_edges") else 3277) if big else (40,))
        if unit == 2:
            return s_bytes(2, 12, (127, 128, 254, top))
        return s_bytes(1, 48, (255, 256, top - 1, top) if big else (255, 256, 600))
    if k == "str":
        width = refcodec.VARLEN[fmt][0]
        return s_text(65535 if width == 2 else 70001, big)
    if k == "blist":
        item = s_bytes(1, 24, (255, 256) if not big else (255, 256, 65535))
        lists = st.lists(item, max_size=6)
        return st.one_of(lists, lists, st.sampled_from([254, 255]).map(lambda n: [b"", b"\x01"] * (n // 2) +
                                                                  [b"z"] * (n % 2)))
    if k in ("abool", "aint", "af64"):
        item = {"abool": st.booleans(), "aint": s_int(*INT_RANGE["q"]), "af64": s_float64()}[k]
        lists = st.lists(item, max_size=8)
        if not big:
            return lists
        fill = {"abool": [True, False, True], "aint": [1, -2, 2 ** 62], "af64": [0.5, -1.25, 1e300]}[k]
        edge = st.sampled_from([255, 256, 257, 65535 if STATE.get("max_edges") else 1025]).map(
            lambda n: (fill * (n // 3 + 1))[:n])
        return st.one_of(lists, lists, lists, edge)
    if k == "flags":
        bits = [1 << i for i in range(16)]
        clean = st.lists(st.sampled_from(bits), unique=True, max_size=16).map(sorted)
        return st.one_of(clean, clean, st.lists(st.sampled_from(bits), max_size=6))
    if k == "nodes":
        node = st.tuples(st.one_of(s_ipv4(), s_ipv6()), st.sampled_from(node_keys())).map(list)
        lists = st.lists(node, max_size=5)
        return st.one_of(lists, lists, st.tuples(st.sampled_from([254, 255]), node).map(lambda t: [t[1]] * t[0])) \
            if big else lists
    if k == "conntype":
        return st.sampled_from(CONN_TYPES)
    if k == "list20":
        return st.lists(st.binary(min_size=20, max_size=20), max_size=6)
    if k == "tb":
        return st.lists(st.tuples(st.binary(min_size=20, max_size=20), s_int(0, 2 ** 32 - 1)).map(list), max_size=5)
    if k == "payload":
        return f.sub.strategy(False)
    if k == "plist":
        lists = st.lists(f.sub.strategy(False), max_size=3)
        if not big:
            return lists
        return st.one_of(lists, lists, st.tuples(st.sampled_from([254, 255]), f.sub.strategy(False)).map(
            lambda t: [t[1]] * t[0]))
    raise HarnessError(f"no value strategy for field kind {k} ({f.name})")


# ---- deterministic values for the enumerated sweeps ---------------------------------------------------------------

def r_bytes(rng: random.Random, n: int) -> bytes:
    return bytes(rng.randrange(1, 256) for _ in range(n))


def r_addr(rng: random.Random, fmt: str) -> list:
    port = rng.choice([1, 80, 8090, 65535, rng.randrange(65536)])
    which = rng.randrange({"ipv4": 1, "ip_address": 2, "address": 3}[fmt])
    if which == 0:
        return ["%d.%d.%d.%d" % tuple(rng.randrange(1, 255) for _ in range(4)), port]
    if which == 1:
        return [str(ipaddress.IPv6Address(b"\x20\x01\x0d\xb8" + bytes(8) + r_bytes(rng, 4))), port]
    return ["node%d.example.org" % rng.randrange(1000), port]


def r_member(rng: random.Random, m: str):
    if m in INT_RANGE:
        lo, hi = INT_RANGE[m]
        return rng.choice([hi, lo, rng.randint(lo, hi), rng.randint(lo, hi)])
    if m == "c":
        return r_bytes(rng, 1)
    if m == "?":
        return rng.random() < 0.5
    return r_bytes(rng, int(m[:-1]))


def r_field(f: Field, rng: random.Random):
    k, fmt = f.kind, f.fmt
    if k == "int":
        return r_member(rng, refcodec.STRUCTS[fmt][0])
    if k == "truth":
        return rng.random() < 0.5
    if k == "fixed":
        return r_bytes(rng, f.members[0])
    if k == "f32":
        return rng.choice([1.5, -0.1, 3.0e38, 1e-40])
    if k == "f64":
        return rng.choice([1.5, -0.1, 1e300, 5e-324])
    if k == "struct":
        return [r_member(rng, m) for m in f.members]
    if k == "bits8":
        return [rng.randrange(2) for _ in range(8)]
    if k == "addr":
        return r_addr(rng, fmt)
    if k == "bytes":
        unit = refcodec.VARLEN[fmt][1] if fmt in refcodec.VARLEN else 1
        return r_bytes(rng, unit * rng.randrange(1, 5))
    if k == "str":
        return "".join(rng.choice(TEXT_POOL) for _ in range(rng.randrange(1, 9)))
    if k == "blist":
        return [r_bytes(rng, rng.randrange(0, 6)) for _ in range(rng.randrange(1, 4))]
    if k == "abool":
        return [rng.random() < 0.5 for _ in range(rng.randrange(1, 6))]
    if k == "aint":
        return [rng.randint(*INT_RANGE["q"]) for _ in range(rng.randrange(1, 5))]
    if k == "af64":
        return [rng.choice([0.5, -2.25, 1e-300]) for _ in range(rng.randrange(1, 5))]
    if k == "flags":
        return sorted(rng.sample([1 << i for i in range(16)], rng.randrange(1, 6)))
    if k == "nodes":
        return [[r_addr(rng, "ip_address"), rng.choice(node_keys())] for _ in range(rng.randrange(1, 4))]
    if k == "conntype":
        return rng.choice(CONN_TYPES)
    if k == "list20":
        return [r_bytes(rng, 20) for _ in range(rng.randrange(1, 4))]
    if k == "tb":
        return [[r_bytes(rng, 20), rng.randrange(2 ** 32)] for _ in range(rng.randrange(1, 4))]
    if k == "payload":
        return f.sub.det_value(rng)
    if k == "plist":
        return [f.sub.det_value(rng) for _ in range(rng.randrange(1, 3))]
    raise HarnessError(f"no deterministic value for field kind {k}")


# ---- comparison ----------------------------------------------------------------------------------------------------

def same_host(got: str, want: str) -> bool:
    if not isinstance(got, str):
        return False
    if refcodec.ip_kind(want) == "ipv6":
        try:
            return ipaddress.IPv6Address(got) == ipaddress.IPv6Address(want)
        except ValueError:
            return False
    return got == want


def same_addr(got, want) -> bool:
    try:
        host, port = got
    except (TypeError, ValueError):
        return False
    return same_host(host, want[0]) and type(port) is int and port == want[1]


def same_member(m: str, got, want) -> bool:
    if m in INT_RANGE:
        return type(got) is int and got == want
    if m == "?":
        return bool(got) == bool(want)
    return isinstance(got, bytes) and got == want


def same(f: Field, got, want) -> bool:  # noqa: C901, PLR0911, PLR0912
    k = f.kind
    try:
        if k == "int":
            return type(got) is int and got == want
        if k in ("truth",):
            return bool(got) == bool(want)
        if k in ("fixed", "bytes"):
            return isinstance(got, bytes) and got == want
        if k == "str":
            return isinstance(got, str) and got == want
        if k == "conntype":
            return got == want
        if k == "f32":
            return isinstance(got, float) and refcodec.f32_bits(got) == refcodec.f32_bits(want)
        if k == "f64":
            return isinstance(got, float) and refcodec.f64_bits(got) == refcodec.f64_bits(want)
        if k == "struct":
            return len(got) == len(want) and all(same_member(m, g, w) for m, g, w in zip(f.members, got, want))
        if k == "bits8":
            return len(got) == 8 and all(bool(g) == bool(w) for g, w in zip(got, want))
        if k == "addr":
            return same_addr(got, want)
        if k in ("blist", "list20"):
            return len(got) == len(want) and all(isinstance(g, bytes) and g == w for g, w in zip(got, want))
        if k == "abool":
            return len(got) == len(want) and all(bool(g) == w for g, w in zip(got, want))
        if k == "aint":
            return len(got) == len(want) and all(type(g) is int and g == w for g, w in zip(got, want))
        if k == "af64":
            return len(got) == len(want) and all(refcodec.f64_bits(g) == refcodec.f64_bits(w)
                                                 for g, w in zip(got, want))
        if k == "flags":
            return list(got) == sorted(set(want))
        if k == "nodes":
            return len(got) == len(want) and all(same_addr(g.address, w[0]) and g.public_key.key_to_bin() == w[1]
                                                 for g, w in zip(got, want))
        if k == "tb":
            return len(got) == len(want) and all(len(g) == 2 and g[0] == w[0] and g[1] == w[1]
                                                 for g, w in zip(got, want))
        if k == "payload":
            # the class of the decoded object is not pinned by the statement (PongPayload decodes to a PingPayload)
            return f.sub.mismatch(got, want) is None
        if k == "plist":
            return len(got) == len(want) and all(f.sub.mismatch(g, w) is None for g, w in zip(got, want))
    except (TypeError, AttributeError, ValueError):
        return False
    raise HarnessError(f"no comparison for field kind {k}")


def is_default(f: Field, v) -> bool:
    k = f.kind
    if k == "int":
        return v == 0
    if k == "truth":
        return not v
    if k == "fixed":
        return not any(v)
    if k in ("f32", "f64"):
        return v == 0
    if k == "struct":
        return all((not any(x)) if isinstance(x, bytes) else not x for x in v)
    if k == "bits8":
        return not any(v)
    if k == "addr":
        return v[0] in ("0.0.0.0", "::") and v[1] == 0
    if k == "conntype":
        return v == "unknown"
    return len(v) == 0 if k != "payload" else f.sub.all_default(v)


def materialize(f: Field, v):
    k = f.kind
    if k == "addr":
        return (v[0], v[1])
    if k == "struct":
        return tuple(v)
    if k == "tb":
        return [(a, b) for a, b in v]
    if k in ("blist", "list20", "abool", "aint", "af64", "flags"):
        return list(v)
    if k == "nodes":
        from ipv8.dht.routing import Node
        return [Node(key, address=(addr[0], addr[1])) for addr, key in v]
    if k == "payload":
        return f.sub.build(v)
    if k == "plist":
        return [f.sub.build(x) for x in v]
    return v


_NODE_KEYS: list = []


def node_keys() -> list:
    if not _NODE_KEYS:
        _NODE_KEYS.extend(keypool.key(i).pub().key_to_bin() for i in range(5))
        _NODE_KEYS.extend(keypool.key(i, "very-low").pub().key_to_bin() for i in range(2))
    return _NODE_KEYS


# ---- subjects ----------------------------------------------------------------------------------------------------------

class Subject:
    """
    A message class under test: logical fields (for strategy / construction / comparison) on one side, the
    independent wire layout (for the reference bytes) on the other.
    """

    is_probe = False

    def __init__(self, key: str, cls: type, fields: list, layout: list | None) -> None:
        self.key = key                      # registry key, stored in cases
        self.cls = cls
        self.fields = fields
        self.layout = layout                # wire_layouts entry ("wire" list), None = derived by the harness
        self.short = key.split(":", 1)[1].removeprefix("ipv8.")
        self.ends_raw = bool(cls.format_list) and cls.format_list[-1] == "raw"
        self.by_name = {f.name: f for f in fields}

    # -- values ------------------------------------------------------------------------------------------------
    def strategy(self, big: bool):
        return _st().fixed_dictionaries({f.name: s_field(f, big) for f in self.fields})

    def det_value(self, rng: random.Random) -> dict:
        return {f.name: r_field(f, rng) for f in self.fields}

    def build(self, plain: dict):
        return self.cls(**{f.name: materialize(f, plain[f.name]) for f in self.fields})

    def all_default(self, plain: dict) -> bool:
        return all(is_default(f, plain[f.name]) for f in self.fields)

    def small_domains(self) -> list:
        """
        [(field name, [values])] of the fields whose whole domain is enumerable (flags, booleans, connection type).
        """
        out = []
        for f in self.fields:
            if f.kind == "truth":
                out.append((f.name, [0, 1] if f.fmt == "bits" else [False, True]))
            elif f.kind == "conntype":
                out.append((f.name, CONN_TYPES))
        return out

    # -- comparison ------------------------------------------------------------------------------------------------
    def mismatches(self, obj, plain: dict) -> list:
        out = []
        for f in self.fields:
            try:
                got = getattr(obj, f.name)
            except AttributeError:
                out.append((f.name, "<attribute missing>", plain[f.name]))
                continue
            if not same(f, got, plain[f.name]):
                out.append((f.name, got, plain[f.name]))
        return out

    def mismatch(self, obj, plain: dict):
        bad = self.mismatches(obj, plain)
        return bad[0] if bad else None

    # -- reference ---------------------------------------------------------------------------------------------------
    def wire(self, plain: dict) -> list:
        """
        [(field label, format, reference value, nested subject | None)] in wire order, from the layout.
        """
        out = []
        for item in self.layout:
            fmt, src = item[0], item[1]
            if fmt in ("payload", "payload-list"):
                sub = REG["cls:" + item[2]] if isinstance(item[2], str) else item[2]
                val = plain[src]
                ref = [(x[1], x[2]) for x in sub.wire(val)] if fmt == "payload" else \
                    [[(x[1], x[2]) for x in sub.wire(v)] for v in val]
                out.append((src, fmt, ref, sub))
            else:
                out.append((_label(src), fmt, _resolve(src, plain), None))
        return out

    def ref(self, plain: dict, order: str = "big") -> bytes:
        return refcodec.encode_fields([(fmt, val) for _, fmt, val, _ in self.wire(plain)], order)

    def has_open_order(self) -> bool:
        return any(refcodec.has_open_element_order(item[0]) for item in self.layout)

    def walk_formats(self) -> list:
        """
        The layout as a format list for ``refcodec.walk`` (nested messages as tuples).
        """
        out: list = []
        for item in self.layout:
            if item[0] in ("payload", "payload-list"):
                sub = REG["cls:" + item[2]] if isinstance(item[2], str) else item[2]
                nested = tuple(sub.walk_formats())
                out.append(nested if item[0] == "payload" else [nested])
            else:
                out.append(item[0])
        return out

    def layout_attrs(self) -> set:
        out: set = set()
        for item in self.layout:
            src = item[1]
            for m in (src if isinstance(src, list) else [src]):
                if isinstance(m, str):
                    out.add(m)
                elif isinstance(m, dict) and "conn_bit" in m:
                    out.add("connection_type")
                elif isinstance(m, dict) and ("concat" in m or "concat_20s_u32" in m):
                    out.add(m.get("concat") or m.get("concat_20s_u32"))
        return out


def _label(src) -> str:
    if isinstance(src, str):
        return src
    if isinstance(src, dict):
        return next(iter(src.values()))
    names = [m for m in src if isinstance(m, str)]
    return names[0] if len(names) == 1 else "bits" if len(src) == 8 else "+".join(names)


def _resolve(src, plain: dict):
    if isinstance(src, str):
        return plain[src]
    if isinstance(src, dict):
        if "concat" in src:
            return b"".join(plain[src["concat"]])
        if "concat_20s_u32" in src:
            return b"".join(h + n.to_bytes(4, "big") for h, n in plain[src["concat_20s_u32"]])
        raise HarnessError(f"unknown layout source {src}")
    out = []
    for m in src:
        if isinstance(m, str):
            out.append(plain[m])
        elif isinstance(m, int):
            out.append(m)
        elif "const_hex" in m:
            out.append(bytes.fromhex(m["const_hex"]))
        elif "const" in m:
            out.append(m["const"])
        elif "conn_bit" in m:
            out.append(LAYOUTS["connection_type_bits"][plain["connection_type"]][m["conn_bit"]])
        else:
            raise HarnessError(f"unknown layout member {m}")
    return out


class Probe(Subject):
    """
    A single packer, driven through a one-field message; the plain value IS the refcodec value.
    """

    is_probe = True

    def __init__(self, fmt: str, cls: type, field: Field) -> None:
        super().__init__("packer:" + fmt, cls, [field], None)
        self.fmt = fmt
        self.field = field
        self.short = "packer:" + fmt
        self.ends_raw = fmt == "raw"

    def strategy(self, big: bool):
        return s_field(self.field, big)

    def det_value(self, rng: random.Random):
        return r_field(self.field, rng)

    def build(self, plain):
        v = materialize(self.field, plain)
        if self.field.kind in ("struct", "bits8"):
            return self.cls(list(v))
        return self.cls([v])

    def all_default(self, plain) -> bool:
        return is_default(self.field, plain)

    def small_domains(self) -> list:
        return [("*bits", None)] if self.field.kind == "bits8" else \
            [("*truth", None)] if self.field.kind == "truth" else []

    def mismatches(self, obj, plain) -> list:
        bad = self.mismatch(obj, plain)
        return [bad] if bad else []

    def mismatch(self, obj, plain):
        args = obj.args
        if self.field.kind in ("bits8", "struct"):
            ok = same(self.field, args, plain)
        else:
            ok = len(args) == 1 and same(self.field, args[0], plain)
        return None if ok else (self.fmt, args, plain)

    def wire(self, plain) -> list:
        f = self.field
        if f.kind == "payload":
            return [(self.fmt, "payload", [(x[1], x[2]) for x in f.sub.wire(plain)], f.sub)]
        if f.kind == "plist":
            return [(self.fmt, "payload-list", [[(x[1], x[2]) for x in f.sub.wire(v)] for v in plain], f.sub)]
        return [(self.fmt, self.fmt, plain, None)]

    def has_open_order(self) -> bool:
        return refcodec.has_open_element_order(self.fmt)

    def walk_formats(self) -> list:
        f = self.field
        if f.kind == "payload":
            return [tuple(f.sub.walk_formats())]
        if f.kind == "plist":
            return [[tuple(f.sub.walk_formats())]]
        return [self.fmt]


class Container(Subject):
    """
    ``inner`` nested via ``payload`` and ``[inner]`` between an ``H`` and a ``B`` field.
    """

    def __init__(self, inner: Subject, cls: type) -> None:
        fields = [Field("pre", "int", "H"), Field("one", "payload", sub=inner), Field("many", "plist", sub=inner),
                  Field("post", "int", "B")]
        layout = [["H", "pre"], ["payload", "one", inner], ["payload-list", "many", inner], ["B", "post"]]
        super().__init__("container:" + inner.key, cls, fields, layout)
        self.inner = inner
        self.short = inner.short

    def has_open_order(self) -> bool:
        return self.inner.has_open_order()


REG: dict = {}
LAYOUTS: dict = {}
STATE: dict = {}


def load_layouts() -> dict:
    with open(os.path.join(ROOT, "specs", "wire_layouts.json")) as f:
        return json.load(f)


def vp_fields(key: str, cls: type, subject_of: dict) -> list:
    """
    Logical fields of a VariablePayload-style class, derived from ``format_list`` / ``names``.
    """
    names = list(cls.names)
    fields, i = [], 0
    for fmt in cls.format_list:
        if isinstance(fmt, str) and fmt == "bits":
            for _ in range(8):
                fields.append(Field(names[i], "truth", "bits"))
                i += 1
            continue
        if isinstance(fmt, str):
            try:
                fields.append(field_for_format(names[i], fmt))
            except KeyError:
                raise HarnessError(f"{key}: no value strategy / reference for packer {fmt!r}") from None
        elif isinstance(fmt, list):
            fields.append(Field(names[i], "plist", sub=subject_of[fmt[0]]))
        else:
            fields.append(Field(names[i], "payload", sub=subject_of[fmt]))
        i += 1
    if i != len(names):
        raise HarnessError(f"{key}: {len(names)} names for {i} format slots")
    return fields


def build_registry() -> dict:  # noqa: C901, PLR0912, PLR0915
    """
    Discover, then create one subject per class / packer. Anything discovered that cannot be given a value
    strategy, a comparison and a reference layout is a HarnessError - never a silent skip.
    """
    if REG:
        return REG
    refcodec.selftest()
    from ipv8.messaging.lazy_payload import VariablePayload
    from ipv8.messaging.serialization import Serializer
    LAYOUTS.update(load_layouts())
    classes = discover()
    extra = overlay_packers()
    ser = Serializer()
    for name, packer in extra.items():
        ser.add_packer(name, packer)
    STATE["serializer"] = ser

    from .. import c02_fixtures
    fx = c02_fixtures.build()

    for key, why in SKIP_CLASSES.items():
        cls = classes.pop(key, None)
        if cls is None:
            raise HarnessError(f"skip-listed class {key} no longer exists ({why})")
        if not inspect.isabstract(cls) and (cls.format_list or getattr(cls, "names", [])):
            raise HarnessError(f"skip-listed class {key} has fields now: {cls.format_list}")

    messages = LAYOUTS["messages"]
    stale = sorted(set(messages) - set(classes))
    if stale:
        raise HarnessError(f"wire_layouts.json describes classes that were not discovered: {stale}")

    # nested classes first: create subjects in dependency order
    subject_of: dict = {}
    pending = dict(classes)
    progress = True
    while pending and progress:
        progress = False
        for key, cls in list(pending.items()):
            deps = [f[0] if isinstance(f, list) else f for f in cls.format_list if not isinstance(f, str)]
            if any(d not in subject_of for d in deps):
                continue
            if key not in messages:
                raise HarnessError(f"discovered class {key} has no entry in specs/wire_layouts.json")
            if issubclass(cls, VariablePayload):
                fields = vp_fields(key, cls, subject_of)
            elif key in OLD_STYLE:
                fields = [field_for_tag(n, t) for n, t in OLD_STYLE[key]]
            else:
                raise HarnessError(f"discovered old-style class {key} has no value strategy (OLD_STYLE table)")
            subj = Subject("cls:" + key, cls, fields, messages[key]["wire"])
            if subj.layout_attrs() != set(subj.by_name):
                raise HarnessError(f"{key}: layout fields {sorted(subj.layout_attrs())} != class fields "
                                   f"{sorted(subj.by_name)}")
            subj.msg_id = messages[key]["msg_id"]
            subject_of[cls] = subj
            REG[subj.key] = subj
            del pending[key]
            progress = True
    if pending:
        raise HarnessError(f"unresolvable nested classes: {sorted(pending)}")

    # harness classes: nested fixture, dataclass payload
    inner = Subject("fixture:FxInner", fx["FxInner"], [Field("a", "int", "H"), Field("b", "bytes", "varlenH")],
                    [["H", "a"], ["varlenH", "b"]])
    subject_of[fx["FxInner"]] = inner
    REG[inner.key] = inner
    fxd = fx["FxData"]
    # the documented mapping: bool ?, int q (signed 8 bytes), float d, bytes varlenH, str varlenHutf8,
    # [bool] arrayH-?, [int] arrayH-q, [float] arrayH-d, type_from_format("I") -> I, nested / listed payloads
    dc_layout = [["?", "flag"], ["q", "num"], ["d", "real"], ["varlenH", "blob"], ["varlenHutf8", "text"],
                 ["arrayH-q", "nums"], ["arrayH-?", "flags"], ["arrayH-d", "reals"], ["I", "small"],
                 ["payload", "one", inner], ["payload-list", "many", inner]]
    dc_fields = [field_for_format(n, f) for f, n in [x[:2] for x in dc_layout[:9]]] + \
        [Field("one", "payload", sub=inner), Field("many", "plist", sub=inner)]
    dc = Subject("fixture:FxData", fxd, dc_fields, dc_layout)
    dc.build(dc.det_value(random.Random(0)))     # the first instance derives format_list
    dc.ends_raw = False
    REG[dc.key] = dc

    # dataclass hierarchies: A is first used parent-before-child, B child-before-parent (the grandchild last)
    def dc_subject(name: str, layout: list, subs: dict | None = None) -> Subject:
        subs = subs or {}
        fields = [Field(n, "payload" if f == "payload" else "plist", sub=subs[n]) if f in ("payload", "payload-list")
                  else field_for_format(n, f) for f, n in [x[:2] for x in layout]]
        lay = [[f, n, subs[n]] if f in ("payload", "payload-list") else [f, n] for f, n in [x[:2] for x in layout]]
        s = Subject("fixture:" + name, fx[name], fields, lay)
        s.ends_raw = False
        REG[s.key] = s
        return s

    base_a = dc_subject("FxBaseA", [["q", "num"], ["varlenHutf8", "text"]])
    deriv_a = dc_subject("FxDerivA", [["q", "num"], ["varlenHutf8", "text"], ["varlenH", "blob"], ["arrayH-?", "flags"]])
    base_b = dc_subject("FxBaseB", [["?", "flag"], ["varlenH", "blob"]])
    deriv_b = dc_subject("FxDerivB", [["?", "flag"], ["varlenH", "blob"], ["d", "real"], ["payload", "one"]],
                         {"one": inner})
    deriv2_b = dc_subject("FxDeriv2B", [["?", "flag"], ["varlenH", "blob"], ["d", "real"], ["payload", "one"],
                                        ["I", "small"]], {"one": inner})
    plain_dc = dc_subject("FxPlain", [["q", "num"], ["payload", "base"], ["payload-list", "bases"],
                                      ["varlenHutf8", "text"], ["arrayH-q", "nums"]],
                          {"base": base_a, "bases": base_b})
    for s in (base_a, deriv_a, deriv_b, base_b, deriv2_b, plain_dc, deriv_a, base_a):
        s.build(s.det_value(random.Random(0)))
        subject_of[s.cls] = s

    for name in ("FxRuled", "FxTwin"):
        s = Subject("fixture:" + name, fx[name], [Field("n", "int", "I"), Field("label", "bytes", "varlenH")],
                    [["I", "n"], ["varlenH", "label"]])
        s.ends_raw = False
        REG[s.key] = s
        subject_of[s.cls] = s

    # packers
    names = ser.get_available_formats()
    for name in names:
        if name == "payload":
            field, entry = Field("v", "payload", sub=inner), fx["FxInner"]
        elif name == "payload-list":
            field, entry = Field("v", "plist", sub=inner), [fx["FxInner"]]
        else:
            try:
                field, entry = field_for_format("v", name), name
            except KeyError:
                raise HarnessError(f"registered packer {name!r} has no value strategy / reference encoder") from None
            if name not in refcodec.known_formats():
                raise HarnessError(f"registered packer {name!r} unknown to refcodec")
        nargs = len(field.members) if field.kind == "struct" else 8 if field.kind == "bits8" else 1
        REG["packer:" + name] = Probe(name, fx["make_probe"](name, entry, nargs), field)

    STATE["containers"] = {}
    STATE["fx"] = fx
    STATE["n_classes"] = len(classes)
    STATE["packers"] = list(names)
    return REG


def container_for(subj: Subject) -> Container:
    cont = STATE["containers"].get(subj.key)
    if cont is None:
        cont = Container(subj, STATE["fx"]["make_container"](subj.cls))
        STATE["containers"][subj.key] = cont
    return cont


# ---- oracle ----------------------------------------------------------------------------------------------------------------

def _hex(b: bytes, n: int = 48) -> str:
    return b[:n].hex() + ("..." if len(b) > n else "")


def _first_diff(a: bytes, b: bytes) -> int:
    for i, (x, y) in enumerate(zip(a, b)):
        if x != y:
            return i
    return min(len(a), len(b))


def _field_at(subj: Subject, plain, pos: int) -> str:
    off = 0
    for label, fmt, val, _ in subj.wire(plain):
        off += len(refcodec.encode(fmt, val))
        if pos < off:
            return label
    return "<end>"


def core(subj: Subject, plain, lead: bytes, trail: bytes, case: dict) -> bytes:  # noqa: C901, PLR0912
    """
    Clauses (f), (a), (b), (c) at offset 0 and (d) at offset len(lead). Returns the packed bytes.
    """
    ser = STATE["serializer"]
    site = subj.short

    def fsite(name: str) -> str:
        return site if subj.is_probe else f"{site}.{name}"

    try:
        obj = subj.build(plain)
        packed = ser.pack_serializable(obj)
    except Violation:
        raise
    except Exception as e:  # noqa: BLE001
        raise Violation("a", site, f"a legal value cannot be encoded: {type(e).__name__}: {e}", case) from None
    if not isinstance(packed, bytes):
        raise Violation("a", site, f"pack returned {type(packed).__name__}", case)

    # (f) documented bytes
    want = subj.ref(plain)
    if packed != want and not (subj.has_open_order() and packed == subj.ref(plain, "little")):
        pos = _first_diff(packed, want)
        raise Violation("f", fsite(_field_at(subj, plain, pos)),
                        f"encoded bytes differ from the documented layout at byte {pos}: got {_hex(packed[pos:], 16)} "
                        f"expected {_hex(want[pos:], 16)} (lengths {len(packed)} / {len(want)})", case)

    # self-check of the reference walker (reused by C03): it must delimit exactly the documented bytes
    buf = lead + want + (b"" if subj.ends_raw else trail)
    formats = subj.walk_formats()
    try:
        end = refcodec.walk(formats, buf, len(lead))
    except (refcodec.Truncated, refcodec.Malformed) as e:
        raise HarnessError(f"refcodec.walk rejects the reference encoding of {site}: {e}") from e
    if end != len(lead) + len(want):
        raise HarnessError(f"refcodec.walk delimits {len(lead)}..{end} for {site}, reference bytes end at "
                           f"{len(lead) + len(want)}")
    if want and not subj.ends_raw:
        try:
            refcodec.walk(formats, (lead + want)[:-1], len(lead))
        except refcodec.Truncated:
            pass
        else:
            raise HarnessError(f"refcodec.walk accepts a truncated {site}")

    def roundtrip(clause: str, buf: bytes, start: int) -> None:
        where = f"at offset {start}" if start else "at offset 0"
        try:
            dec, end = ser.unpack_serializable(subj.cls, buf, start)
        except Exception as e:  # noqa: BLE001
            raise Violation(clause, site, f"own encoding is rejected {where}: {type(e).__name__}: {e}", case) from None
        bads = subj.mismatches(dec, plain)
        if bads:
            vs = [Violation(clause, fsite(bad[0]), f"field {bad[0]} decodes to {bad[1]!r:.120} {where}, "
                                                   f"encoded value was {bad[2]!r:.120}", case) for bad in bads]
            vs[0].others = vs[1:]     # every wrong field is its own root-cause signature
            raise vs[0]
        if end != start + len(packed):
            raise Violation("b" if clause == "a" else clause, site,
                            f"decode {where} returns end offset {end}, the message occupies {start}.."
                            f"{start + len(packed)}", case)
        try:
            again = ser.pack_serializable(dec)
        except Exception as e:  # noqa: BLE001
            raise Violation("c" if clause == "a" else clause, site,
                            f"decoded message cannot be re-encoded: {type(e).__name__}: {e}", case) from None
        if again != packed:
            pos = _first_diff(again, packed)
            raise Violation("c" if clause == "a" else clause, fsite(_field_at(subj, plain, pos)),
                            f"re-encoding the decoded message {where} differs at byte {pos}: {_hex(again[pos:], 16)} "
                            f"vs {_hex(packed[pos:], 16)}", case)

    roundtrip("a", packed, 0)
    if lead or trail:
        roundtrip("d", lead + packed + (b"" if subj.ends_raw else trail), len(lead))

    # the packer-level API used by custom packers and callers (Serializer.pack / Serializer.unpack)
    if subj.is_probe and subj.cls.nargs == 1:
        entry = subj.cls.format_list[0]
        buf = lead + packed + (b"" if subj.ends_raw else trail)
        try:
            val, end = ser.unpack(entry, buf, len(lead))
        except Exception as e:  # noqa: BLE001
            raise Violation("d", site, f"Serializer.unpack rejects the packer's own output at offset {len(lead)}: "
                                       f"{type(e).__name__}: {e}", case) from None
        if not same(subj.field, val, plain):
            raise Violation("d", site, f"Serializer.unpack at offset {len(lead)} gives {val!r:.120}, encoded value "
                                       f"was {plain!r:.120}", case)
        if end != len(lead) + len(packed):
            raise Violation("d", site, f"Serializer.unpack at offset {len(lead)} returns end offset {end}, the "
                                       f"field occupies {len(lead)}..{len(lead) + len(packed)}", case)
        if isinstance(entry, str):
            try:
                direct = ser.pack(entry, materialize(subj.field, plain))
            except Exception as e:  # noqa: BLE001
                raise Violation("a", site, f"Serializer.pack fails on a legal value: {type(e).__name__}: {e}",
                                case) from None
            if direct != packed:
                raise Violation("f", site, "Serializer.pack and pack_serializable disagree", case)
    return packed


def mkcase(subj: Subject, plain, lead: bytes, trail: bytes, nest=None) -> dict:
    return {"site": subj.key, "value": plain, "lead": lead, "trail": trail, "nest": nest}


def blame(subj: Subject, plain, lead: bytes, trail: bytes) -> Violation | None:
    """
    Re-run the oracle on every field of a failing message separately: a nested message or a packer that fails on
    its own is the root cause.
    """
    if subj.is_probe and subj.field.kind not in ("payload", "plist"):
        return None
    try:
        items = subj.wire(plain)
    except Exception:  # noqa: BLE001
        return None
    for label, fmt, val, sub in items:
        if sub is not None:
            values = [plain] if subj.is_probe and fmt == "payload" else plain if subj.is_probe else \
                [plain[label]] if fmt == "payload" else plain[label]
            for v in values:
                try:
                    run_core_blamed(sub, v, lead, trail)
                except Violation as v2:
                    return v2
            continue
        probe = REG.get("packer:" + fmt)
        if probe is None:
            continue
        try:
            core(probe, val, lead, trail, mkcase(probe, val, lead, trail))
        except Violation as v2:
            return v2
        except Exception:  # noqa: BLE001
            continue
    return None


def run_core_blamed(subj: Subject, plain, lead: bytes, trail: bytes, case: dict | None = None) -> bytes:
    try:
        return core(subj, plain, lead, trail, case or mkcase(subj, plain, lead, trail))
    except Violation as v:
        root = blame(subj, plain, lead, trail)
        raise (root or v) from None


def evaluate(ctx: Ctx | None, case: dict) -> None:
    """
    All clauses for one case: {"site", "value", "lead", "trail", "nest": None | [pre, [more values], post]}.
    """
    subj = REG.get(case["site"])
    if subj is None:
        raise HarnessError(f"unknown subject {case['site']}")
    plain, lead, trail, nest = case["value"], case["lead"], case["trail"], case.get("nest")
    nested = False
    try:
        packed = run_core_blamed(subj, plain, lead, trail, case)
        if nest is not None and len(packed) <= 65535:
            pre, more, post = nest
            cont = container_for(subj)
            cplain = {"pre": pre, "one": plain, "many": list(more), "post": post}
            if all(len(subj.ref(m)) <= 65535 for m in more):
                nested = True
                _refused_before(cont, cplain)
                try:
                    core(cont, cplain, lead, trail, case)
                except Violation as v:
                    root = None
                    for fmt, val in (("payload", plain), ("payload-list", list(more))):
                        # is the nesting packer broken for any content? (checked with the small fixture message)
                        probe = REG["packer:" + fmt]
                        pv = probe.det_value(random.Random(len(more)))
                        try:
                            core(probe, pv, lead, trail, mkcase(probe, pv, lead, trail))
                        except Violation as v2:
                            root = v2
                            break
                    if root is None:
                        for m in more:
                            try:
                                run_core_blamed(subj, m, lead, trail)
                            except Violation as v2:
                                root = v2
                                break
                    raise (root or Violation("e", v.site,
                                             f"nested via payload / [payload]: ({v.clause}) {v.msg}", case)) from None
    except Violation as v:
        if ctx is not None:
            for other in getattr(v, "others", []):
                ctx.violation(other)
        raise
    finally:
        if ctx is not None:
            nt = not subj.all_default(plain)
            desc = digest((subj.key, repr(plain), len(lead), len(trail), repr(nest)))
            sample = None
            if len(ctx.samples) < ctx.sample_slots and len(repr(plain)) < 400:
                sample = {"subject": subj.short, "value": plain, "start_offset": len(lead), "nested": nested}
            ctx.case(desc, nt, cls=subj.key.split(":")[0] + (":nested" if nested else ""), sample=sample)


# ---- the tunnel cell (not a Serializable) --------------------------------------------------------------------------------------

def evaluate_cell(ctx: Ctx | None, case: dict) -> None:
    from ipv8.messaging.anonymization.payload import CellPayload
    v = case["value"]
    prefix, cid, msg, plaintext, relay_early = v["prefix"], v["circuit_id"], v["message"], v["plaintext"], \
        v["relay_early"]
    spec = LAYOUTS["cell"]
    site = "CellPayload"
    try:
        if len(prefix) != spec["prefix_len"]:
            raise HarnessError("cell prefix must be 22 bytes")
        cell = CellPayload(cid, msg, plaintext, relay_early)
        got = cell.to_bin(prefix)
        fields = {"circuit_id": cid, "plaintext": plaintext, "relay_early": relay_early, "message": msg}
        want = prefix + refcodec.encode_fields(
            [(fmt, src["const"] if isinstance(src, dict) else fields[src]) for fmt, src in spec["wire"]])
        if got != want:
            pos = _first_diff(got, want)
            raise Violation("f", site, f"cell bytes differ from the documented layout at byte {pos}: "
                                       f"{_hex(got[pos:], 16)} vs {_hex(want[pos:], 16)}", case)
        try:
            dec = CellPayload.from_bin(got)
        except Exception as e:  # noqa: BLE001
            raise Violation("a", site, f"own cell is rejected: {type(e).__name__}: {e}", case) from None
        for name, val in fields.items():
            g = getattr(dec, name)
            ok = (bool(g) == bool(val)) if name in ("plaintext", "relay_early") else g == val
            if not ok:
                raise Violation("a", f"{site}.{name}", f"cell field {name} decodes to {g!r:.80}, was {val!r:.80}", case)
        if dec.to_bin(prefix) != got:
            raise Violation("c", site, "re-encoding the decoded cell gives different bytes", case)
        if msg:
            # message = inner id + inner payload without circuit id; unwrap puts the circuit id back after the id
            want_unwrapped = prefix + msg[:1] + refcodec.encode("I", cid) + msg[1:]
            if dec.unwrap(prefix) != want_unwrapped:
                raise Violation("f", site + ".unwrap", "unwrap does not reinsert the circuit id after the inner "
                                                       "message id", case)
    finally:
        if ctx is not None:
            ctx.case(digest(("cell", repr(v))), bool(cid or msg or plaintext or relay_early), cls="cell",
                     sample={"subject": "CellPayload", "value": v} if len(msg) < 64 else None)


def cell_strategy():
    st = _st()
    value = st.fixed_dictionaries({
        "prefix": st.binary(min_size=22, max_size=22), "circuit_id": s_int(0, 2 ** 32 - 1),
        "message": s_bytes(1, 48, (300, 1400)), "plaintext": st.booleans(), "relay_early": st.booleans()})
    return st.fixed_dictionaries({"site": st.just("cell:CellPayload"), "value": value})


# ---- static layout facts ----------------------------------------------------------------------------------------------------------

def static_checks(ctx: Ctx) -> None:
    """
    Message ids (the byte that selects the decoder on the wire) as documented.
    """
    for key, subj in REG.items():
        want = getattr(subj, "msg_id", None)
        if not key.startswith("cls:") or want is None:
            continue
        got = getattr(subj.cls, "msg_id", None)
        if got != want:
            ctx.violation(Violation("f", subj.short + ".msg_id", f"message id is {got}, documented {want}",
                                    {"site": key, "static": "msg_id"}))


def history_checks(ctx: Ctx) -> None:
    """
    "For every history" on one Serializer object: what it decoded earlier must not matter to what it decodes later.
    (1) a format name is re-registered with another packer (``add_packer`` is public) after a class using it was decoded;
    (2) a dataclass payload type is offered for decoding before any instance of it exists (refused on the pinned tree),
        instances are created afterwards and their encodings must decode.
    """
    import dataclasses

    from ipv8.messaging.lazy_payload import VariablePayload
    from ipv8.messaging.payload_dataclass import DataClassPayload
    from ipv8.messaging.serialization import Serializer, VarLen

    def bad(name: str, msg: str) -> None:
        ctx.violation(Violation("a", "history:" + name, msg, {"site": "history", "history": name}))
    for offset in (0, 3):
        # (1)
        ser = Serializer()
        ser.add_packer("pvblob", VarLen(">H"))
        cls = type("PvLate", (VariablePayload,), {"format_list": ["pvblob", "H"], "names": ["blob", "n"]})
        first = cls(b"first", 1)
        try:
            ser.unpack_serializable(cls, b"\x00" * offset + ser.pack_serializable(first), offset=offset)
            ser.add_packer("pvblob", VarLen(">I"))
            want = cls(b"\x00\x00\x00payload", 7)
            buf = b"\x00" * offset + ser.pack_serializable(want)
            got, end = ser.unpack_serializable(cls, buf, offset=offset)
            if (got.blob, got.n) != (want.blob, want.n) or end != len(buf):
                bad("late_packer", f"format name re-registered (2-byte -> 4-byte length prefix) after the class was decoded once: "
                                   f"{(want.blob, want.n)} encodes to {buf.hex()} and decodes to {(got.blob, got.n)}, consumed up "
                                   f"to {end} of {len(buf)} (offset {offset})")
        except Exception as e:  # noqa: BLE001
            bad("late_packer", f"format name re-registered after the class was decoded once: {type(e).__name__}: {e}")
        # (2)
        ser = Serializer()
        dc = dataclasses.make_dataclass("PvEarly%d" % offset, [("a", int), ("b", bytes), ("c", str)], bases=(DataClassPayload,),
                                        module=__name__)
        globals()[dc.__name__] = dc
        try:
            ser.unpack_serializable(dc, b"\x00" * 40, offset=offset)
        except Exception:  # noqa: BLE001 - too early: refused on the pinned tree, not judged
            pass
        try:
            want = dc(5, b"bytes", "text")
            buf = b"\x00" * offset + ser.pack_serializable(want)
            got, end = ser.unpack_serializable(type(want), buf, offset=offset)
            if (got.a, got.b, got.c) != (5, b"bytes", "text") or end != len(buf):
                bad("early_decode", f"dataclass payload decoded to {(got.a, got.b, got.c)}, consumed up to {end} of {len(buf)}")
        except Exception as e:  # noqa: BLE001
            bad("early_decode", f"a Serializer that was offered a dataclass payload type before any instance existed can never "
                                f"decode it afterwards: {type(e).__name__}: {e}")
    ctx.case("history", True, cls="history")


# ---- drivers ------------------------------------------------------------------------------------------------------------------------

def sites() -> list:
    return sorted(REG) + ["cell:CellPayload"]


def _refused_before(cont: "Subject", cplain: dict, n: int = 20) -> None:
    """
    "For every history": before the genuine message is decoded, the same Serializer is handed damaged versions of it
    whose nested part is cut short (length prefix reduced, outer size kept) - each is refused or decodes to something
    else, and must leave nothing behind that matters to the next decode.
    """
    ser = STATE["serializer"]
    try:
        buf = ser.pack_serializable(cont.build(cplain))
    except Exception:  # noqa: BLE001 - the genuine encode is judged by core()
        return
    if len(buf) < 6:
        return
    inner_len = int.from_bytes(buf[2:4], "big")
    for k in range(n):
        cut = 1 + k % max(1, min(inner_len, 9))
        if inner_len < cut:
            break
        bad = buf[:2] + (inner_len - cut).to_bytes(2, "big") + buf[4:]
        try:
            ser.unpack_serializable(cont.cls, bad)
        except Exception:  # noqa: BLE001, S110 - refusing it is fine
            pass


def _hyp_shard(ctx: Ctx, shard: int, nshards: int, n_examples: int) -> None:
    st = _st()
    ctx.sample_slots = 2
    for site in sites()[shard::nshards]:
        if site == "cell:CellPayload":
            hyp_run(ctx, site, cell_strategy(), lambda c: evaluate_cell(ctx, c), n_examples)
            continue
        subj = REG[site]
        value = subj.strategy(subj.is_probe)
        nest = st.none() if subj.is_probe else st.one_of(
            st.none(), st.tuples(s_int(0, 65535), st.lists(subj.strategy(False), max_size=3), s_int(0, 255)).map(list))
        strat = st.fixed_dictionaries({"site": st.just(site), "value": value,
                                       "lead": st.binary(min_size=1, max_size=32), "trail": st.binary(max_size=16),
                                       "nest": nest})
        hyp_run(ctx, site, strat, lambda c: evaluate(ctx, c), n_examples)


def sweep_cases(subj: Subject, n_values: int, seed: int):
    """
    Index-enumerated cases: all combinations of the small-domain fields, then every start offset 0..32.
    """
    rng = random.Random(digest((seed, subj.key)))
    doms = subj.small_domains()
    if doms and doms[0][0] == "*bits":
        for byte in range(256):
            yield [(byte >> (7 - i)) & 1 for i in range(8)], rng.randrange(0, 5)
    elif doms and doms[0][0] == "*truth":
        for b in (False, True):
            yield b, 1
    elif doms:
        names = [d[0] for d in doms]
        combos = itertools.product(*[d[1] for d in doms])
        for k, combo in enumerate(itertools.islice(combos, 4096)):
            plain = subj.det_value(rng)
            plain.update(dict(zip(names, combo)))
            yield plain, k % 4
    for _ in range(n_values):
        plain = subj.det_value(rng)
        for off in range(33):
            yield plain, off


def _sweep_shard(ctx: Ctx, shard: int, nshards: int, n_values: int) -> None:
    ctx.sample_slots = 1
    for site in sorted(REG)[shard::nshards]:
        subj = REG[site]
        rng = random.Random(digest((ctx.seed, site, "pad")))
        for plain, off in sweep_cases(subj, n_values, ctx.seed):
            lead = r_bytes(rng, off)
            trail = r_bytes(rng, rng.randrange(0, 9))
            nest = None
            if not subj.is_probe and off % 8 == 3:
                nest = [rng.randrange(65536), [subj.det_value(rng) for _ in range(rng.randrange(0, 3))],
                        rng.randrange(256)]
            try:
                evaluate(ctx, mkcase(subj, plain, lead, trail, nest))
            except Violation as v:
                ctx.violation(v)


def run(ctx: Ctx) -> None:
    build_registry()
    STATE["max_edges"] = not ctx.quick      # the most expensive maximal lengths only in the thorough tier
    static_checks(ctx)
    history_checks(ctx)
    n_cls = sum(1 for k in REG if k.startswith("cls:"))
    ctx.note("discovered_classes", n_cls)
    ctx.note("skipped_classes", SKIP_CLASSES)
    ctx.note("packer_names", STATE["packers"])
    ctx.note("subjects", len(sites()))
    shard_run(ctx, _sweep_shard, extra=(1 if ctx.quick else 6,))
    shard_run(ctx, _hyp_shard, extra=(300 if ctx.quick else 5000,))


def replay(ctx: Ctx, case: dict) -> None:
    build_registry()
    if case.get("static") == "msg_id":
        sub = Ctx(PID, "quick", 0)
        static_checks(sub)
        for rec in sub.violations.values():
            if rec["case"]["site"] == case["site"]:
                raise Violation(rec["clause"], rec["site"], rec["msg"], case)
        return
    if case["site"] == "history":
        sub = Ctx(PID, "quick", 0)
        history_checks(sub)
        for rec in sub.violations.values():
            if rec["case"].get("history") == case.get("history"):
                raise Violation(rec["clause"], rec["site"], rec["msg"], case)
        return
    if case["site"] == "cell:CellPayload":
        evaluate_cell(None, case)
        return
    try:
        evaluate(None, case)
    except Violation as v:
        field = case.get("field")      # a regression case may single out one field (one root cause per case)
        if field is None:
            raise
        for x in [v, *getattr(v, "others", [])]:
            if x.site.endswith("." + field):
                raise x from None
