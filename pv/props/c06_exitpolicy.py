"""
C06 - an exit node never emits traffic its exit policy forbids.

(a) predicate sweep: TunnelExitSocket.is_allowed of a real exit socket is compared with a reference policy written
    from the classifier docstrings, exhaustively over the header bytes the classifier inspects x lengths x flag sets;
(b) emission path: payloads are sent through a real 1-2 hop circuit to a real TunnelExitSocket whose outside socket
    is a recording transport; datagrams from outside are injected at that transport;
(c) socket-opening rule: the first data cell is re-sent from another source address.
"""
from __future__ import annotations

import asyncio
import json
import struct

from .. import vloop
from ..core import Ctx, Violation, hyp_run, shard_run
from ..tunnelsim import World, parse_cell

PID = "C06"
LEVEL = "exploration"
RULE = ("[plus first_src other_ip_after_ping: the circuit's ping reaches the exit before any data] (a) all 65536 values of the first two bytes x lengths {0,1,2,7,8,11,12,19,20,21,22,23,24,64} (thorough: 0..64) x "
        "bytes 8..11 in {0..4, 0xffffffff} x first/last byte d..e variants x tunnel-prefix / other prefix, under the 4 "
        "subsets of {EXIT_BT, EXIT_IPV8} - exhaustive over that grid; (b,c) Hypothesis-drawn (flags, RELAY on/off, hops "
        "1..2, payload class, destination in IPv4/IPv6/domain/0.0.0.0:0, direction, source of the first data cell). "
        "Non-trivial = the datum is forbidden under the drawn flags or sits on a classifier boundary (length within 1 of "
        "a threshold or a header byte within 1 of an accepted range); distinct = (flags, class, length, boundary).")
ASSUMPTIONS = [
    "reference policy transcribed from the DataChecker / is_allowed docstrings: BitTorrent = uTP | UDP tracker | bencoded "
    "dict; IPv8 = length >= 23, byte0 = 0, byte1 in {1,2}; allowed = (BT and EXIT_BT) or (IPv8 and (EXIT_IPV8 or tunnel prefix))",
    "name resolution is served from a table by the virtual loop",
]

EXIT_BT, EXIT_IPV8, RELAY, SPEED = 2, 4, 1, 8
LENGTHS_Q = [0, 1, 2, 7, 8, 11, 12, 19, 20, 21, 22, 23, 24, 64]


# ---- reference policy (from the docstrings, independent code) ---------------------------------------------

def ref_utp(d: bytes) -> bool:
    return len(d) >= 20 and (d[0] >> 4) in (0, 1, 2, 3, 4) and (d[0] & 0x0F) == 1 and d[1] in (0, 1, 2, 3)


def ref_tracker(d: bytes) -> bool:
    a = len(d) >= 8 and int.from_bytes(d[0:4], "big") <= 3
    b = len(d) >= 12 and int.from_bytes(d[8:12], "big") <= 3
    return a or b


def ref_dht(d: bytes) -> bool:
    return len(d) > 1 and d[:1] == b"d" and d[-1:] == b"e"


def ref_bt(d: bytes) -> bool:
    return ref_utp(d) or ref_tracker(d) or ref_dht(d)


def ref_ipv8(d: bytes) -> bool:
    return len(d) >= 23 and d[0] == 0 and d[1] in (1, 2)


def ref_allowed(d: bytes, flags: set, tunnel_prefix: bytes) -> bool:
    return (ref_bt(d) and EXIT_BT in flags) or (ref_ipv8(d) and (EXIT_IPV8 in flags or d[:22] == tunnel_prefix))


def boundary(d: bytes) -> bool:
    n = len(d)
    if n in (1, 2, 7, 8, 11, 12, 19, 20, 22, 23):
        return True
    if n >= 2 and ((d[0] >> 4) in (4, 5) or (d[0] & 15) in (0, 1, 2) and d[1] in (3, 4)):
        return True
    return n >= 2 and d[0] == 0 and d[1] in (0, 1, 2, 3)


def flag_sets() -> list:
    return [set(), {EXIT_BT}, {EXIT_IPV8}, {EXIT_BT, EXIT_IPV8}]


# ---- (a) predicate sweep -------------------------------------------------------------------------------------

B1_QUICK = sorted({0, 1, 2, 3, 4, 5, 0x10, 0x11, 0x21, 0x41, 0x51, 0x64, 0x65, 0x80, 0xFE, 0xFF})


def _sweep_shard(ctx: Ctx, shard: int, nshards: int, lengths: list, b1_values: list) -> None:
    async def main(loop):
        w = World(loop, 2)
        try:
            circuit = await w.build_circuit(w.nodes[0], 1, seed=1)
            exit_node = w.path(circuit)[0]
            sock = next(iter(exit_node.overlay.exit_sockets.values()))
            prefix = w.prefix
            tails = [bytes(4), b"\x00\x00\x00\x03", b"\x00\x00\x00\x04", b"\xff\xff\xff\xff"]
            for b0 in range(shard, 256, nshards):
                for b1 in b1_values:
                    for n in lengths:
                        for ti, tail in enumerate(tails):
                            for last in (b"e", b"x", None):     # None: last byte as the body has it (e.g. bare prefix)
                                for pfx in (0, 1):
                                    if pfx and not (b0 == prefix[0] and b1 == prefix[1]):
                                        continue
                                    if pfx:
                                        body = bytearray(prefix + bytes(max(0, n - 22)))
                                    else:
                                        body = bytearray(n)
                                    if n >= 1:
                                        body[0] = b0
                                    if n >= 2:
                                        body[1] = b1
                                    if n >= 12 and not pfx:
                                        body[8:12] = tail
                                    elif ti:
                                        continue
                                    if last is None:
                                        pass
                                    elif n >= 3:
                                        body[-1] = last[0]
                                    elif last == b"x":
                                        continue
                                    d = bytes(body[:n])
                                    for fi, fs in enumerate(flag_sets()):
                                        if (n + fi) % 2:
                                            exit_node.overlay.settings.peer_flags = fs | {RELAY}
                                        else:
                                            # reconfigured in place
                                            exit_node.overlay.settings.peer_flags.clear()
                                            exit_node.overlay.settings.peer_flags.update(fs | {RELAY})
                                        got = sock.is_allowed(d)
                                        want = ref_allowed(d, fs, prefix)
                                        key = ((((((b0 << 8 | b1) * 80 + n) * 4 + ti) * 3 + (b"e", b"x", None).index(last)) * 2 + pfx) * 4
                                               + (EXIT_BT in fs) * 2 + (EXIT_IPV8 in fs)) | (1 << 62)
                                        ctx.case(key, (not want) or boundary(d),
                                                 cls="sweep:" + ("allow" if want else "deny"),
                                                 sample={"data": d[:16].hex(), "len": n, "flags": sorted(fs), "allowed": want})
                                        if got != want:
                                            cls = "bt" if ref_bt(d) else "ipv8" if ref_ipv8(d) else "other"
                                            raise Violation("P1", f"is_allowed:{cls}:{'allows' if got else 'denies'}",
                                                            f"is_allowed({d[:24].hex()}.. len {n}) = {got} under flags "
                                                            f"{sorted(fs)}; documented policy says {want}",
                                                            {"sweep": {"hex": d.hex()}, "flags": sorted(fs)})
        finally:
            await w.close()
    try:
        vloop.run(main)
    except Violation as v:
        ctx.violation(v)


# ---- (b, c) emission path ---------------------------------------------------------------------------------------

def make_payload(kind: str, n: int, prefix: bytes, salt: int) -> bytes:
    fill = bytes((salt + 3 * i) & 0xFF or 1 for i in range(max(n, 24)))
    if kind == "dht":
        return (b"d" + fill[:max(0, n - 2)] + b"e")[:max(n, 2)]
    if kind == "utp":
        return bytes([0x21, salt % 4]) + fill[:max(18, n - 2)]
    if kind == "utp_badver":
        return bytes([0x22, 0]) + b"\xff" * 6 + b"\xff\xff\xff\xff" + b"\xff" * max(8, n - 12)
    if kind == "tracker":
        return struct.pack(">I", salt % 4) + b"\xff" * 4 + b"\xff" * max(0, n - 8)
    if kind == "ipv8_other":
        return b"\x00\x02" + b"\xee" * 20 + fill[:max(1, n - 22)]
    if kind == "ipv8_tunnel":
        return prefix + fill[:max(1, n - 22)]
    if kind == "ipv8_v3":
        return b"\x00\x03" + b"\xee" * 20 + b"\xff" * max(1, n - 22)
    if kind == "short_ipv8":
        return b"\x00\x02" + b"\xee" * 20
    if kind == "bare_tunnel":
        return prefix[:22] if n >= 22 else prefix[:max(2, n)]
    if kind == "junk":
        return b"\xff" + fill[:max(0, n - 2)] + b"\xfe"
    raise AssertionError(kind)


KINDS = ["dht", "utp", "utp_badver", "tracker", "ipv8_other", "ipv8_tunnel", "ipv8_v3", "short_ipv8", "bare_tunnel", "junk"]
DESTS = [["5.5.5.5", 5555], ["2001:db8::5", 5555], ["example.com", 80], ["unknown.invalid", 80], ["0.0.0.0", 0],
         ["zero.example", 0]]       # a host name that resolves to 0.0.0.0
NULL_DESTS = ("0.0.0.0", "zero.example")


class Emission:
    def __init__(self, case: dict) -> None:
        self.case = case
        self.info = {"nontrivial": False, "cls": "", "desc": None}

    def fail(self, clause: str, site: str, msg: str) -> None:
        raise Violation(clause, site, msg, self.case)

    async def main(self, loop: vloop.VirtualLoop) -> None:
        from ipv8.messaging.interfaces.udp.endpoint import DomainAddress, UDPv4Address, UDPv6Address
        c = self.case
        fs = set(c["flags"])
        exit_flags = fs | ({RELAY} if c["relay"] else set())
        hops = c["hops"]
        loop.hosts["example.com"] = "93.184.216.34"
        loop.hosts["zero.example"] = "0.0.0.0"

        def flags(i: int) -> set:
            return exit_flags if i == hops else {RELAY, EXIT_BT, EXIT_IPV8, SPEED}
        w = World(loop, hops + 1, flags=flags)
        try:
            origin, exit_node = w.nodes[0], w.nodes[hops]
            prefix = w.prefix
            payload = make_payload(c["kind"], c["size"], prefix, c["seed"])
            want = ref_allowed(payload, fs, prefix)
            self.info["cls"] = "emit:%s:%s:%s" % (c["direction"], c["kind"], "allow" if want else "deny")
            self.info["nontrivial"] = (not want) or boundary(payload) or c["dest"][0] == "0.0.0.0" or c["first_src"] != "prev"
            self.info["desc"] = (tuple(sorted(exit_flags)), c["kind"], len(payload), c["direction"], c["dest"][0],
                                 c["first_src"], hops, tuple(map(tuple, c.get("followups", []))), c.get("in_via", "v4"),
                                 json.dumps(c.get("reflag"), sort_keys=True))
            exit_peer = [p for p in origin.overlay.candidates if p.public_key.key_to_bin() == exit_node.key.pub().key_to_bin()][0]
            if not exit_flags:
                # a node without any flag ignores create requests: no circuit, nothing can be emitted
                circuit = await w.build_circuit(origin, hops, seed=c["seed"], timeout=15, required_exit=exit_peer)
                if circuit is not None:
                    self.fail("P2", "no_flags", "a node without any peer flag joined a circuit")
                return
            circuit = await w.build_circuit(origin, hops, seed=c["seed"], required_exit=exit_peer)
            if circuit is None:
                self.fail("P5", "build", f"circuit to an exit with flags {sorted(exit_flags)} not built")
            if w.path(circuit)[-1] is not exit_node:
                self.fail("P5", "build", "circuit does not end at the required exit")
            got_raw = []
            origin.overlay.on_raw_data = lambda circ, org, data: got_raw.append((tuple(org), data))
            dest_t = tuple(c["dest"])
            if ":" in dest_t[0]:
                dest = UDPv6Address(*dest_t)
            elif dest_t[0][0].isdigit():
                dest = UDPv4Address(*dest_t)
            else:
                dest = DomainAddress(*dest_t)
            def mk_dest(dt: tuple):
                if ":" in dt[0]:
                    return UDPv6Address(*dt)
                if dt[0][0].isdigit():
                    return UDPv4Address(*dt)
                return DomainAddress(*dt)

            def resolve(dt: tuple) -> tuple:
                return {"example.com": ("93.184.216.34", 80), "zero.example": ("0.0.0.0", 0)}.get(dt[0], dt)
            resolved = resolve(dest_t)
            prev = ([origin] + w.path(circuit))[-2]

            # (c) who delivers the first data cell to the exit
            state = {"redirected": 0}
            if c["first_src"] == "other_ip_after_replay":
                # somebody at another IP address first replays a genuine signed message of the previous hop (an
                # introduction request: no replay protection) to the exit, then delivers the first data cell from there
                intro = prev.overlay.create_introduction_request(UDPv4Address(*exit_node.address))
                w.net.inject(("6.6.6.6", prev.address[1]), exit_node.address, intro, note="replayed signed message")
                await w.net.settle()
            if c["first_src"] != "prev":
                def hook(fl):
                    cell = parse_cell(fl.data, prefix)
                    if cell is None or cell["plaintext"] or fl.dst != exit_node.address or state["redirected"]:
                        return None
                    state["redirected"] += 1
                    src = (prev.address[0], 9) if c["first_src"] == "same_ip_other_port" else ("6.6.6.6", prev.address[1])
                    w.net.inject(src, fl.dst, fl.data, note="resent")
                    return []
                w.net.on_send = hook
            if c["first_src"] == "other_ip_after_ping":
                # the circuit's keep-alive ping reaches the exit before any data does - also delivered from the other address
                origin.overlay.do_ping()
                await asyncio.sleep(0.2)
                state["redirected"] = 0
                if loop.transports:
                    self.fail("P4", "enable:ping", "an outside socket was opened by a ping, before any data arrived")
            opener = make_payload("dht", 12, prefix, 1) if c["direction"] == "in" else payload
            origin.overlay.send_data(circuit.hop.address, circuit.circuit_id, dest if c["direction"] == "out"
                                     else UDPv4Address("5.5.5.5", 5555), ("0.0.0.0", 0), opener)
            await asyncio.sleep(0.3)
            w.net.on_send = None
            emitted = [(d, tuple(a)) for t in loop.transports for (d, a) in t.sent]
            # P2 / P3 on everything that left any outside socket
            for d, a in emitted:
                if not ref_allowed(d, fs, prefix):
                    self.fail("P2", "sendto:" + c["kind"], f"outside socket emitted forbidden data {d[:24].hex()} (len {len(d)}) "
                                                           f"under exit flags {sorted(fs)}")
                if a[0] in ("0.0.0.0", "::") and a[1] == 0:
                    self.fail("P3", "sendto", "a datagram was emitted towards the null address")
            foreign_first = c["first_src"] in ("other_ip", "other_ip_after_replay", "other_ip_after_ping")
            if foreign_first:
                if loop.transports:
                    self.fail("P4", "enable", "an outside socket was opened by a data cell that did not come from the "
                                              "previous hop's IP address")
                return
            if c["direction"] == "out":
                opener_ok = want and dest_t[0] not in NULL_DESTS + ("unknown.invalid",)
                expected = [(payload, resolved)] if opener_ok else []
                if emitted != expected:
                    self.fail("P5" if expected else "P2", "outbound:" + c["kind"],
                              f"emitted {[(d[:16].hex(), a) for d, a in emitted]}, expected "
                              f"{[(d[:16].hex(), a) for d, a in expected]} (flags {sorted(fs)}, dest {dest_t})")
                # later packets on the same circuit: the gate must not depend on the socket being fresh
                for j, fu in enumerate(c.get("followups", [])):
                    kind2, size2, di = fu[:3]
                    foreign = len(fu) > 3 and fu[3]
                    rf = c.get("reflag")
                    if rf is not None and j == rf["at"] % len(c["followups"]):
                        # the operator reconfigures the exit while the circuit is in use: what is configured at the
                        # moment of the packet decides
                        fs = set(rf["flags"])
                        new_flags = fs | ({RELAY} if c["relay"] else set())
                        if rf["how"] == "assign":
                            exit_node.overlay.settings.peer_flags = new_flags
                        else:
                            cur = exit_node.overlay.settings.peer_flags
                            for f in list(cur):
                                if f not in new_flags:
                                    cur.discard(f)
                            cur |= new_flags
                    dt2 = tuple(DESTS[di % len(DESTS)])
                    p2 = make_payload(kind2, size2, prefix, c["seed"] + j + 1)
                    want2 = ref_allowed(p2, fs, prefix) and dt2[0] not in NULL_DESTS + ("unknown.invalid",)
                    n0 = {id(t): len(t.sent) for t in loop.transports}
                    ntr0 = len(loop.transports)
                    if foreign:
                        # this cell reaches the exit from another IP address (captured and re-sent, or re-routed)
                        st2 = {"n": 0}

                        def hook2(fl):
                            cell = parse_cell(fl.data, prefix)
                            if cell is None or cell["plaintext"] or fl.dst != exit_node.address or st2["n"]:
                                return None
                            st2["n"] += 1
                            w.net.inject(("6.6.6.6", prev.address[1]), fl.dst, fl.data, note="re-sent from elsewhere")
                            return []
                        w.net.on_send = hook2
                    origin.overlay.send_data(circuit.hop.address, circuit.circuit_id, mk_dest(dt2), ("0.0.0.0", 0), p2)
                    await asyncio.sleep(0.3)
                    w.net.on_send = None
                    if foreign and len(loop.transports) > ntr0:
                        self.fail("P4", "enable:later_socket", f"packet {j + 2} of the circuit came from another IP address "
                                                               f"than the previous hop's and opened an outside socket "
                                                               f"{[t.local_addr for t in loop.transports[ntr0:]]} (destination {dt2})")
                    new = [(d, tuple(a)) for t in loop.transports for (d, a) in t.sent[n0.get(id(t), 0):]]
                    for d, a in new:
                        if a[0] in ("0.0.0.0", "::") and a[1] == 0:
                            self.fail("P3", "sendto:later_packet", f"packet {j + 2} of the circuit was emitted towards the "
                                                                   f"null address (destination given as {dt2})")
                        if not ref_allowed(d, fs, prefix):
                            self.fail("P2", "sendto:later_packet:" + kind2, f"packet {j + 2} of the circuit: outside socket "
                                      f"emitted forbidden data {d[:24].hex()} under exit flags {sorted(fs)}")
                    exp2 = [(p2, resolve(dt2))] if want2 else []
                    if foreign and not new:
                        # whether a cell re-sent from elsewhere is still served is not the statement's business
                        continue
                    if new != exp2:
                        self.fail("P5" if exp2 else "P2", "outbound:later_packet:" + kind2,
                                  f"packet {j + 2} of the circuit: emitted {[(d[:16].hex(), a) for d, a in new]}, expected "
                                  f"{[(d[:16].hex(), a) for d, a in exp2]} (flags {sorted(fs)}, dest {dt2})")
                    self.info["nontrivial"] = True
                return
            # inbound: the opener (a bencoded dict) opened the socket only if BT exit is allowed
            trs = [t for t in loop.transports if t.local_addr[0] == "0.0.0.0" and not t.closed]
            if EXIT_BT not in fs:
                if emitted:
                    self.fail("P2", "sendto:opener", "opener emitted without EXIT_BT")
            if not trs:
                # socket may legitimately exist even when the opener itself was refused (enable precedes the policy)
                return
            cells_before = len([f for f in w.net.log if f.origin is exit_node.raw_endpoint])
            via = c.get("in_via", "v4")
            outside = ("7.7.7.7", 7777)
            if via == "v4":
                trs[0].inject(payload, outside)
            else:
                # the datagram arrives on the exit's IPv6 outside socket: from an IPv6 host, or from an IPv4 host that a
                # dual-stack socket reports in IPv4-mapped form
                trs6 = [t for t in loop.transports if t.local_addr[0] == "::" and not t.closed]
                if not trs6:
                    return
                outside = ("2001:db8::7", 7777) if via == "v6" else ("::ffff:7.7.7.7", 7777)
                trs6[0].inject(payload, (*outside, 0, 0))
            await asyncio.sleep(0.3)
            cells_after = len([f for f in w.net.log if f.origin is exit_node.raw_endpoint])
            if via == "v6mapped":
                # what the exit does with allowed data from a mapped sender is its business; forbidden data stays out
                if not want and (cells_after != cells_before or got_raw):
                    self.fail("P2", "inbound:v6mapped:" + c["kind"], f"forbidden outside datagram {payload[:24].hex()} from an "
                              f"IPv4-mapped sender on the IPv6 outside socket was tunnelled back under exit flags {sorted(fs)}")
                return
            if not want:
                if cells_after != cells_before or got_raw:
                    self.fail("P2", "inbound:" + c["kind"], f"forbidden outside datagram {payload[:24].hex()} was tunnelled "
                                                            f"back under exit flags {sorted(fs)}")
            else:
                # IPv8-shaped data is not handed to on_raw_data at the originator; the cell on the wire is what counts
                if cells_after != cells_before + 1:
                    self.fail("P5", "inbound:" + c["kind"], "allowed outside datagram was not tunnelled back")
                if not ref_ipv8(payload) and got_raw != [(outside, payload)]:
                    self.fail("P5", "inbound:" + c["kind"], f"allowed outside datagram arrived as {got_raw}")
        finally:
            await w.close()


def run_nested_open(ctx: Ctx | None, case: dict) -> None:
    """
    E is the exit of circuit Y (owner R, who has not sent anything yet: Y's outside socket is closed) and the owner of a
    circuit X of its own (exit F) whose id is given - every 32-bit id is a legal draw, 0 included. Somebody on R's IP
    address answers X's outside socket at F with a datagram that is itself a data message of the tunnel overlay naming
    Y. Nothing E receives that way came from Y's previous hop: Y's outside socket must stay closed, nothing is emitted.
    """
    c = case["nested_open"]

    async def main(loop):
        w = World(loop, 3)
        try:
            r, e, f = w.nodes
            def peer_of(owner, target):
                k = target.key.pub().key_to_bin()
                return [p for p in owner.overlay.candidates if p.public_key.key_to_bin() == k][0]
            y = await w.build_circuit(r, 1, seed=c["seed"], required_exit=peer_of(r, e))
            forced = c["id"] & 0xFFFFFFFF
            e.overlay._generate_circuit_id = lambda: forced  # noqa: SLF001 - one of the 2**32 legal outcomes
            x = await w.build_circuit(e, 1, seed=c["seed"] + 1, required_exit=peer_of(e, f))
            del e.overlay._generate_circuit_id
            if y is None or x is None or x.circuit_id != forced:
                raise Violation("P5", "nested_open:build", f"circuits not built (Y {y}, X {x})", case)
            e.overlay.send_data(x.hop.address, x.circuit_id, ("5.5.5.5", 5555), ("0.0.0.0", 0), make_payload("dht", 24, w.prefix, 3))
            await asyncio.sleep(0.3)
            at_f = [t for t in loop.transports if t.local_addr[0] == "0.0.0.0" and not t.closed]
            if not at_f:
                raise Violation("P5", "nested_open:opener", "X's exit did not open its outside socket", case)
            n_tr, sent0 = len(loop.transports), sum(len(t.sent) for t in loop.transports)
            inner = make_payload(c["kind"], 40, w.prefix, 9)
            nested = (w.prefix + b"\x01" + struct.pack(">I", y.circuit_id) + b"\x01\x05\x06\x07\x08\x00\x01"
                      + b"\x01\x09\x09\x09\x09\x00\x09" + inner)
            src = (r.address[0], 9) if c["from"] == "prev_ip" else tuple(r.address) if c["from"] == "prev_addr" else ("7.7.7.7", 7)
            at_f[0].inject(nested, src)
            await asyncio.sleep(0.5)
            if len(loop.transports) != n_tr:
                raise Violation("P4", "enable:nested", f"an outside socket {[t.local_addr for t in loop.transports[n_tr:]]} was "
                                f"opened at E for circuit Y by a data message that arrived as content of E's own circuit "
                                f"{forced} (sent to that circuit's exit by {src}); Y's previous hop {r.address} sent nothing", case)
            if sum(len(t.sent) for t in loop.transports) != sent0:
                raise Violation("P4", "emit:nested", "a nested data message made E emit a datagram for a circuit whose owner sent "
                                                     "nothing", case)
        finally:
            await w.close()
    try:
        vloop.run(main)
    finally:
        if ctx is not None:
            ctx.case(("nested_open", c["id"], c["kind"], c["from"], c["seed"]), True, cls="nested_open:id%s" % (
                "0" if c["id"] == 0 else "max" if c["id"] == 0xFFFFFFFF else "other"), sample=case)


def run_case(ctx: Ctx | None, case: dict) -> None:
    if "nested_open" in case:
        return run_nested_open(ctx, case)
    if "sweep" in case:
        d = case["sweep"]
        fs = set(case["flags"])

        async def main(loop):
            w = World(loop, 2)
            try:
                circuit = await w.build_circuit(w.nodes[0], 1, seed=1)
                exit_node = w.path(circuit)[0]
                sock = next(iter(exit_node.overlay.exit_sockets.values()))
                exit_node.overlay.settings.peer_flags = fs | {RELAY}
                got, want = sock.is_allowed(d), ref_allowed(d, fs, w.prefix)
                if got != want:
                    raise Violation("P1", "is_allowed", f"is_allowed = {got}, policy says {want}", case)
            finally:
                await w.close()
        vloop.run(main)
        return
    e = Emission(case)
    try:
        vloop.run(e.main)
    finally:
        if ctx is not None and e.info["desc"] is not None:
            ctx.case(e.info["desc"], e.info["nontrivial"], cls=e.info["cls"], sample=case)


def _strategy():
    from hypothesis import strategies as st
    return st.fixed_dictionaries({
        "flags": st.sampled_from([[], [EXIT_BT], [EXIT_IPV8], [EXIT_BT, EXIT_IPV8]]),
        "relay": st.booleans(),
        "hops": st.integers(1, 2),
        "kind": st.sampled_from(KINDS),
        "size": st.sampled_from([2, 8, 12, 20, 23, 24, 64, 300, 1200]),
        "dest": st.sampled_from(DESTS + DESTS[:2]),
        "direction": st.sampled_from(["out", "out", "in"]),
        "first_src": st.sampled_from(["prev", "prev", "prev", "same_ip_other_port", "other_ip", "other_ip_after_replay",
                                      "other_ip_after_ping"]),
        "in_via": st.sampled_from(["v4", "v4", "v6", "v6mapped"]),
        "followups": st.lists(st.tuples(st.sampled_from(KINDS), st.sampled_from([2, 12, 23, 64, 300]),
                                        st.integers(0, len(DESTS) - 1), st.integers(0, 1)).map(list), max_size=3),
        "reflag": st.none() | st.fixed_dictionaries({
            "at": st.integers(0, 2), "how": st.sampled_from(["assign", "inplace"]),
            "flags": st.sampled_from([[], [EXIT_BT], [EXIT_IPV8], [EXIT_BT, EXIT_IPV8]])}),
        "seed": st.integers(0, 1000),
    })


def _emit_shard(ctx: Ctx, shard: int, nshards: int, n: int) -> None:
    k = 0
    for cid in (0, 1, 0x7FFFFFFF, 0x80000000, 0xFFFFFFFF):
        for kind in ("dht", "ipv8_tunnel", "junk"):
            for frm in ("prev_ip", "prev_addr", "elsewhere"):
                k += 1
                if k % nshards != shard:
                    continue
                try:
                    run_case(ctx, {"nested_open": {"id": cid, "kind": kind, "from": frm, "seed": 5 + k}})
                except Violation as v:
                    ctx.violation(v)
    hyp_run(ctx, "emission", _strategy(), lambda c: run_case(ctx, c), n)


def run(ctx: Ctx) -> None:
    if ctx.quick:
        shard_run(ctx, _sweep_shard, extra=(LENGTHS_Q, B1_QUICK))
    else:
        shard_run(ctx, _sweep_shard, extra=(list(range(0, 65)), B1_QUICK))
        shard_run(ctx, _sweep_shard, extra=(LENGTHS_Q, list(range(256))))
    shard_run(ctx, _emit_shard, extra=(500 if ctx.quick else 5000,))


def replay(ctx: Ctx, case: dict) -> None:
    run_case(None, case)
