"""
C19 - stored identity data survives a crash at any point.

A child process (``pv.crash_child``) executes a workload of ``insert_token`` / ``insert_metadata`` /
``insert_attestation`` (identity database) and ``insert_attestation`` (wallet database) calls with real signed
objects on real database files in a private scratch directory and SIGKILLs itself at one chosen crash point; every
insert call that returned is acknowledged in an fsync'ed log first. This process then re-opens the files with fresh
``IdentityDatabase`` / ``AttestationsDB`` objects and judges what it finds against the log:

  F1  opening raises nothing, reports the latest schema version, the file passes ``PRAGMA integrity_check``
  F2  every acknowledged record is present and byte-identical (raw rows and through the reload API)
  F3  every visible row equals, in all columns, a record whose insert had at least been started
  F4  ``PseudonymManager`` rebuilt from the file: every credential's token is in the tree, ``tree.verify`` holds for
      it and for every loaded token, metadata and attestations carry valid signatures

The expected rows are written down here from the objects' fields (public key, pointers, signature, content); the
database layer under test is never asked what it "should" contain.

Records that collide on a table's primary key (the same token with and without content, two metadata for one token,
two authorities attesting one metadata, a repeated wallet hash) are judged as a group: which one wins is not a crash
question, so F2 only demands that one complete member of the group is there once any member was acknowledged.
"""
from __future__ import annotations

import hashlib
import json
import os
import shutil
import subprocess
import tempfile
import traceback
from functools import lru_cache

from .. import keypool
from ..core import REPO, ROOT, Ctx, HarnessError, Violation, hyp_run, shard_run

PID = "C19"
LEVEL = "fault_enumeration"
EXHAUSTIVE = True
RULE = ("a child process runs a workload of insert_token / insert_metadata / insert_attestation (identity db) and "
        "insert_attestation (wallet db, BonehAttestation blobs of 0..600 bit-pairs) over 1-3 pseudonyms, with exact "
        "and key-colliding duplicates and optional close/re-open steps, and SIGKILLs itself at one crash point; crash "
        "points = before/after every Database._connect/execute/executescript/commit call ('api') and before every "
        "statement sqlite starts, incl. those inside executescript, PRAGMAs, implicit BEGIN/COMMIT ('sql'). "
        "Exhaustive: every crash point of each scripted workload (count from an uninterrupted dry run); random: "
        "Hypothesis-drawn workloads (<= 12 ops) with a drawn crash point. Non-trivial = the child was killed after its "
        "first event and not after the final commit of the workload; a crash point beyond the last event is a clean "
        "exit (class 'clean-exit', trivial). distinct = digest of (definitions, op list, crash point).")
ASSUMPTIONS = [
    "SIGKILL models process death, not power loss: whatever the process wrote is kept by the OS page cache, so the "
    "PRAGMA synchronous level is invisible to this check",
    "callers insert a token before its metadata, metadata before its attestations and a parent token before its "
    "children, as PseudonymManager.add_credential does; F4 is only judged for such workloads",
    "for records colliding on a primary key the statement does not say which one is kept",
    "an insert call that raises (sqlite3.IntegrityError on a repeated wallet hash) has not returned: no obligation",
    "the ed25519 signatures of the key pool are deterministic, so a replayed case rebuilds identical records",
    "the wrappers and the sqlite trace callback in the child do not change what the database code does",
]

PYTHON = os.environ.get("VERIF_PYTHON", "/venv/bin/python")
SCRATCH_BASE = os.environ.get("TMPDIR") or os.path.join(ROOT, "scratch")
# the BonehPrivateKey used by the repository's own wallet tests (tiny primes, no key generation cost)
BONEH_SK_HEX = ("01064c65dcb113f901064228da3ea57101064793a4f9c77901062b083e"
                "8690fb0106408293c67e9f010601d1a9d3744901030f4243")
ID_FORMAT = "id_metadata"
AUTH_BASE = 10       # key pool index of authority 0
CHILD_TIMEOUT = 120

ID_TABLES = {
    "Tokens": ("public_key, previous_token_hash, signature, content_hash, content", (0, 1, 3)),
    "Metadata": ("public_key, token_pointer, signature, serialized_json_dict", (0, 1)),
    # one attestation per (subject, authority, metadata): several authorities may attest the same metadata
    "Attestations": ("public_key, authority_key, metadata_pointer, signature", (0, 1, 2)),
}
WALLET_TABLE = "attestations"


# ---- materialising a case ------------------------------------------------------------------------------

def prf(label: str, n: int) -> bytes:
    return hashlib.shake_256(label.encode()).digest(n) if n > 0 else b""


@lru_cache(maxsize=None)
def _pub_bin(i: int) -> bytes:
    return keypool.key(i).pub().key_to_bin()


@lru_cache(maxsize=None)
def _boneh():
    from ipv8.attestation.wallet.primitives.structs import BonehPrivateKey
    sk = BonehPrivateKey.unserialize(bytes.fromhex(BONEH_SK_HEX))
    return sk, sk.public_key()


@lru_cache(maxsize=4096)
def _blob(idx: int, nbits: int) -> bytes:
    """
    The private serialisation of a real BonehAttestation with ``nbits`` bit-pairs (values from the PRF).
    """
    from ipv8.attestation.wallet.bonehexact.structs import BitPairAttestation, BonehAttestation
    from ipv8.attestation.wallet.primitives.value import FP2Value
    sk, pk = _boneh()
    raw = prf(f"blob/{idx}/{nbits}", 48 * nbits)
    pairs = []
    for k in range(nbits):
        v = [int.from_bytes(raw[48 * k + 8 * j: 48 * k + 8 * j + 8], "big") % pk.p for j in range(6)]
        pairs.append(BitPairAttestation(FP2Value(pk.p, v[0], v[1]), FP2Value(pk.p, v[2], v[3]),
                                        FP2Value(pk.p, v[4], v[5])))
    att = BonehAttestation(pk, pairs, ID_FORMAT)
    blob = att.serialize_private(pk)
    if BonehAttestation.unserialize(blob, ID_FORMAT).serialize_private(pk) != blob:
        raise HarnessError("generated attestation blob does not survive its own unserialize/serialize")
    return blob


class Record:
    """
    One expected database row, written down from the inserted object's fields.
    """

    def __init__(self, table: str, row: tuple, key_cols: tuple, obj=None, pseud: int | None = None) -> None:
        self.table = table
        self.row = row
        self.key = tuple(row[c] for c in key_cols)
        self.obj = obj
        self.pseud = pseud
        self.group: int | None = None      # index of the compound call this record belongs to, if any


SUBJECT_BASE = 9          # key-pool index of the foreign pseudonym whose disclosures are loaded


def _row_key(r: Record) -> str:
    """
    The key under which the child acknowledges the inner insert of a compound call (see crash_child.wrap_insert).
    """
    if r.table == "Tokens":
        return "tok:" + r.row[1].hex() + ":" + r.row[3].hex()
    if r.table == "Metadata":
        return "meta:" + r.row[1].hex()
    return "att:" + r.row[1].hex() + ":" + r.row[2].hex()


def materialise(case: dict) -> tuple[list[dict], list[Record | None], list[int]]:
    """
    Build the real signed objects of a case. Returns (ops for the child, expected record per op, pseudonyms used).
    """
    from ipv8.attestation.identity.attestation import Attestation
    from ipv8.attestation.identity.metadata import Metadata
    from ipv8.attestation.tokentree.token import Token

    tokens: list[tuple] = []   # (pseud, Token with content, content)
    for t, (pseud, parent, clen) in enumerate(case["tokens"]):
        key = keypool.key(pseud)
        if parent >= 0:
            if parent >= t or case["tokens"][parent][0] != pseud:
                raise HarnessError(f"token {t}: parent {parent} must be an earlier token of the same pseudonym")
            prev = tokens[parent][1].get_hash()
        else:
            prev = hashlib.sha3_256(_pub_bin(pseud)).digest()   # "SHA3-256(PUBLIC KEY) <- TOKEN <- TOKEN"
        content = prf(f"token/{t}/{clen}", clen)
        tokens.append((pseud, Token(prev, content=content, private_key=key), content))

    def meta(m: int, variant: int):
        tok, pad = case["metas"][m]
        pseud = tokens[tok][0]
        body = json.dumps({"name": f"attribute{m}", "variant": variant, "pad": "x" * pad}).encode()
        if (m + variant + pad) % 3 == 1:
            # the JSON other implementations write: compact separators, an exponent-form number, non-ASCII left as it is -
            # signed as it is, so it has to come back as it is
            body = ('{"name":"attribute%d","variant":%d,"date":1.7E9,"pad":"%s","note":"\u00e9t\u00e9"}'
                    % (m, variant, "x" * pad)).encode().replace(b"\\u00e9", "\u00e9".encode())
        return pseud, Metadata(tokens[tok][1].get_hash(), body, private_key=keypool.key(pseud))

    sk, _ = _boneh()
    ops: list[dict] = []
    records: list[Record | None] = []
    pseuds: set[int] = set()
    for op in case["ops"]:
        kind = op[0]
        if kind == "token":
            _, t, with_content = op
            pseud, tok, content = tokens[t]
            pk = _pub_bin(pseud)
            chash = hashlib.sha3_256(content).digest()
            if tok.content_hash != chash:
                raise HarnessError("Token content hash is not sha3-256 of the content")
            stored = content if with_content else None
            ops.append({"op": "token", "pk": pk.hex(), "prev": tok.previous_token_hash.hex(),
                        "sig": tok.signature.hex(), "chash": chash.hex(),
                        "content": None if stored is None else stored.hex()})
            records.append(Record("Tokens", (pk, tok.previous_token_hash, tok.signature, chash, stored), (0, 1, 3),
                                  (tok, stored), pseud))
            pseuds.add(pseud)
        elif kind == "meta":
            _, m, variant = op
            pseud, md = meta(m, variant)
            pk = _pub_bin(pseud)
            ops.append({"op": "meta", "pk": pk.hex(), "tp": md.token_pointer.hex(), "sig": md.signature.hex(),
                        "json": md.serialized_json_dict.hex()})
            records.append(Record("Metadata", (pk, md.token_pointer, md.signature, md.serialized_json_dict), (0, 1),
                                  md, pseud))
            pseuds.add(pseud)
        elif kind == "att":
            _, m, authority = op
            pseud, md = meta(m, 0)
            pk = _pub_bin(pseud)
            auth = _pub_bin(AUTH_BASE + authority)
            att = Attestation(md.get_hash(), private_key=keypool.key(AUTH_BASE + authority))
            ops.append({"op": "att", "pk": pk.hex(), "auth": auth.hex(), "mp": att.metadata_pointer.hex(),
                        "sig": att.signature.hex()})
            records.append(Record("Attestations", (pk, auth, att.metadata_pointer, att.signature), (0, 1, 2), att, pseud))
            pseuds.add(pseud)
        elif kind == "blob":
            _, b = op
            blob = _blob(b, case["blobs"][b])
            h = hashlib.sha1(blob).digest()
            ops.append({"op": "blob", "hash": h.hex(), "blob": blob.hex(), "sk": BONEH_SK_HEX, "fmt": ID_FORMAT})
            records.append(Record(WALLET_TABLE, (h, blob, sk.serialize(), ID_FORMAT.encode()), (0,)))
        elif kind == "cred":
            # one credential through the manager API: PseudonymManager.add_credential(token, metadata, attestations)
            # writes up to 2 + n rows with a commit each; one call = one acknowledgement for all of them
            _, t, with_content, m, auths = op
            pseud, tok, content = tokens[t]
            pk = _pub_bin(pseud)
            chash = hashlib.sha3_256(content).digest()
            stored = content if with_content else None
            _, md = meta(m, 0)
            if case["metas"][m][0] != t:
                raise HarnessError(f"cred op: metadata {m} does not belong to token {t}")
            sub = [Record("Tokens", (pk, tok.previous_token_hash, tok.signature, chash, stored), (0, 1, 3), (tok, stored), pseud),
                   Record("Metadata", (pk, md.token_pointer, md.signature, md.serialized_json_dict), (0, 1), md, pseud)]
            atts = []
            for a in auths:
                auth = _pub_bin(AUTH_BASE + a)
                att = Attestation(md.get_hash(), private_key=keypool.key(AUTH_BASE + a))
                atts.append({"auth": auth.hex(), "mp": att.metadata_pointer.hex(), "sig": att.signature.hex()})
                sub.append(Record("Attestations", (pk, auth, att.metadata_pointer, att.signature), (0, 1, 2), att, pseud))
            first = len(ops)
            ops.append({"op": "cred", "pk": pk.hex(), "prev": tok.previous_token_hash.hex(), "sig": tok.signature.hex(),
                        "chash": chash.hex(), "content": None if stored is None else stored.hex(),
                        "tp": md.token_pointer.hex(), "msig": md.signature.hex(), "json": md.serialized_json_dict.hex(),
                        "atts": atts, "span": len(sub)})
            ops.extend({"op": "nop"} for _ in sub[1:])
            ops[first]["index_of"] = {_row_key(r): first + j for j, r in enumerate(sub)}
            for r in sub:
                r.group = first
            records.extend(sub)
            pseuds.add(pseud)
        elif kind == "subst":
            # a disclosure of ANOTHER party's pseudonym (public key only) loaded through IdentityManager.substantiate:
            # its metadata and attestations are stored (its tokens only go into the in-memory tree), one inner insert
            # each; optionally with a damaged tail that makes the call raise after the valid part
            _, ms, auths_of, damage = op
            subject = SUBJECT_BASE
            key = keypool.key(subject)
            pk = _pub_bin(subject)
            prev = hashlib.sha3_256(pk).digest()
            toks, sub, metas_o, atts_o = [], [], [], []
            for j, pad in enumerate(ms):
                tok = Token(prev, content=prf(f"subst/{j}", 8), private_key=key)
                prev = tok.get_hash()
                toks.append(tok)
                body = json.dumps({"name": f"disclosed{j}", "pad": "y" * pad}).encode()
                if (j + pad) % 2:
                    body = ('{"name":"disclosed%d","pad":"%s","n":1E3}' % (j, "y" * pad)).encode()
                md = Metadata(tok.get_hash(), body, private_key=key)
                metas_o.append({"tp": md.token_pointer.hex(), "sig": md.signature.hex(), "json": md.serialized_json_dict.hex()})
                sub.append(Record("Metadata", (pk, md.token_pointer, md.signature, md.serialized_json_dict), (0, 1), md, None))
                for a in auths_of[j] if j < len(auths_of) else []:
                    auth = _pub_bin(AUTH_BASE + a)
                    att = Attestation(md.get_hash(), private_key=keypool.key(AUTH_BASE + a))
                    atts_o.append({"auth": auth.hex(), "mp": att.metadata_pointer.hex(), "sig": att.signature.hex()})
                    sub.append(Record("Attestations", (pk, auth, att.metadata_pointer, att.signature), (0, 1, 2), att, None))
            first = len(ops)
            ops.append({"op": "subst", "pk": pk.hex(), "tokens": b"".join(t.get_plaintext_signed() for t in toks).hex(),
                        "metas": metas_o, "atts": atts_o, "damage": bool(damage)})
            ops.extend({"op": "nop"} for _ in sub[1:])
            ops[first]["index_of"] = {_row_key(r): first + j for j, r in enumerate(sub)}
            for r in sub:
                r.group = first
            records.extend(sub)
        elif kind == "reopen":
            ops.append({"op": "reopen", "db": op[1]})
            records.append(None)
        elif kind == "batch_begin":
            ops.append({"op": "batch_begin"})
            records.append(None)
        elif kind == "batch_end":
            ops.append({"op": "batch_end", "end": op[1]})
            records.append(None)
        else:
            raise HarnessError(f"unknown op {op}")
    return ops, records, sorted(pseuds)


# ---- running the child ---------------------------------------------------------------------------------

def _child_env() -> dict:
    env = dict(os.environ)
    env["PYTHONPATH"] = REPO + os.pathsep + ROOT
    env["PYTHONHASHSEED"] = "0"
    env.pop("PYTHONDONTWRITEBYTECODE", None)
    return env


def v1_rows(seeds: list) -> list[tuple]:
    return [(hashlib.sha1(b"v1-row-%d" % k).digest(), b"old-blob-%d." % k * (3 + k), b"old-key-%d" % k) for k in seeds]


def make_v1_wallet(d: str, seeds: list) -> None:
    """
    A wallet database as version 1 of the schema left it (no id_format column, database_version '1'), holding some rows.
    """
    import sqlite3
    os.makedirs(os.path.join(d, "wallet", "sqlite"), exist_ok=True)
    con = sqlite3.connect(os.path.join(d, "wallet", "sqlite", WALLET_TABLE + ".db"))
    con.execute("PRAGMA journal_mode = WAL")
    con.executescript(f"""
        CREATE TABLE IF NOT EXISTS {WALLET_TABLE}(hash BLOB, blob LONGBLOB, key MEDIUMBLOB, PRIMARY KEY (hash));
        CREATE TABLE IF NOT EXISTS option(key TEXT PRIMARY KEY, value BLOB);
        INSERT INTO option(key, value) VALUES('database_version', '1');
    """)
    con.executemany(f"INSERT INTO {WALLET_TABLE}(hash, blob, key) VALUES(?,?,?)", v1_rows(seeds))  # noqa: S608
    con.commit()
    con.close()


def run_child(root: str, ops: list[dict], kill: dict, wallet_v1: list | None = None) -> tuple[str, int, list[dict]]:
    """
    Execute the workload in a child process inside a fresh directory under ``root``.
    Returns (directory, return code, parsed log). The caller removes the directory.
    """
    d = tempfile.mkdtemp(prefix="run_", dir=root)
    if wallet_v1 is not None:
        make_v1_wallet(d, wallet_v1)
    with open(os.path.join(d, "workload.json"), "w") as f:
        json.dump({"ops": ops, "kill": kill, "repo": REPO, "alarm": CHILD_TIMEOUT // 2}, f)
    env = _child_env()
    env["PYTHONPYCACHEPREFIX"] = os.path.join(root, "pyc")
    proc = subprocess.Popen([PYTHON, "-m", "pv.crash_child", d], env=env, cwd=d, stdin=subprocess.DEVNULL,
                            stdout=subprocess.DEVNULL, stderr=subprocess.PIPE)
    try:
        try:
            _, err = proc.communicate(timeout=CHILD_TIMEOUT)
        except subprocess.TimeoutExpired as e:
            raise HarnessError(f"crash child did not end within {CHILD_TIMEOUT}s") from e
    finally:
        if proc.poll() is None:
            proc.kill()
            proc.wait()
    rc = proc.returncode
    log: list[dict] = []
    path = os.path.join(d, "ack.log")
    if os.path.exists(path):
        with open(path, "rb") as f:
            for line in f.read().split(b"\n"):
                if line.strip():
                    log.append(json.loads(line))
    if rc not in (0, -9):
        detail = err.decode(errors="replace")[-2000:]
        raise HarnessError(f"crash child ended with code {rc} (kill={kill}): {detail}")
    return d, rc, log


# ---- oracle ----------------------------------------------------------------------------------------------

def _short(x) -> str:
    if x is None:
        return "NULL"
    x = bytes(x)
    return f"{x[:6].hex()}..({len(x)}B)" if len(x) > 8 else x.hex()


def _site(e: BaseException, fallback: str) -> str:
    """
    Root-cause site of an exception: the innermost frame inside the ipv8 package.
    """
    site = fallback
    for fr in traceback.extract_tb(e.__traceback__):
        parts = fr.filename.replace(os.sep, "/").split("/ipv8/")
        if len(parts) > 1:
            site = f"ipv8/{parts[-1]}:{fr.name}"
    return site


def _describe(rec: Record) -> str:
    return f"{rec.table}[{', '.join(_short(k) for k in rec.key)}]"


def judge(case: dict, d: str, rc: int, log: list[dict], records: list[Record | None], pseuds: list[int]) -> None:
    """
    Re-open what the dead child left behind and apply F1-F4. Raises Violation.
    """
    from ipv8.attestation.identity.database import IdentityDatabase
    from ipv8.attestation.identity.manager import PseudonymManager
    from ipv8.attestation.wallet.database import AttestationsDB
    from ipv8.keyvault.crypto import default_eccrypto

    acked = {r["i"] for r in log if r["t"] == "ack"}
    settled = acked | {r["i"] for r in log if r["t"] in ("rej", "ret", "skip")}
    returned = acked | {r["i"] for r in log if r["t"] == "ret"}
    in_progress = 0
    while in_progress in settled:
        in_progress += 1
    def group_of(i: int):
        return records[i].group if i < len(records) and records[i] is not None else None
    # (inside one compound call the inner inserts may return in any order)
    if any(i > in_progress and not (group_of(i) is not None and group_of(i) == group_of(in_progress)) for i in settled):
        raise HarnessError(f"acknowledgement log has a gap: {sorted(settled)}")
    if rc == 0 and in_progress != len(records):
        raise HarnessError("child ended cleanly without settling every op")
    # (the rows of a compound call - one credential through the manager - all count as started once the call has begun)
    started = [r for i, r in enumerate(records) if r is not None and (i <= in_progress or
                                                                      (r.group is not None and r.group <= in_progress))]
    must = [r for i, r in enumerate(records) if r is not None and i in acked]
    where = next((f"{r['mode']} point: {r['phase']} #{r['event']} {r['name']} (op {r['op']})"
                  for r in log if r["t"] == "kill"), "clean exit")

    def fail(clause: str, site: str, msg: str) -> None:
        raise Violation(clause, site, f"{msg}; crash at {where}; acknowledged ops {sorted(acked)}", case)

    uses_id = any(r.table != WALLET_TABLE for r in records if r is not None) or ["reopen", "id"] in case["ops"]
    uses_wallet = any(r.table == WALLET_TABLE for r in records if r is not None) or ["reopen", "wallet"] in case["ops"]
    opened = []
    try:
        # F1 ------------------------------------------------------------------------------------------------
        idb = wdb = None
        if uses_id:
            try:
                idb = IdentityDatabase(os.path.join(d, "identity", "identity.db"))
                idb.open()
                opened.append(idb)
            except Exception as e:  # noqa: BLE001
                fail("F1", _site(e, "identity.open"), f"re-opening the identity database raised {type(e).__name__}: {e}")
        if uses_wallet:
            try:
                wdb = AttestationsDB(os.path.join(d, "wallet"), WALLET_TABLE)
                opened.append(wdb)
            except Exception as e:  # noqa: BLE001
                fail("F1", _site(e, "wallet.open"), f"re-opening the wallet database raised {type(e).__name__}: {e}")
        for db, name, latest in ((idb, "identity", 1), (wdb, "wallet", 2)):
            if db is None:
                continue
            stored = [tuple(r) for r in db.execute("SELECT value FROM option WHERE key = 'database_version'")]
            if db.database_version != latest or stored != [(str(latest).encode(),)]:
                fail("F1", f"{name}.version", f"{name} database re-opened with version {db.database_version}, "
                                              f"stored {stored}, expected {latest}")
            ok = [tuple(r) for r in db.execute("PRAGMA integrity_check")]
            if ok != [(b"ok",)]:
                fail("F1", f"{name}.integrity", f"{name} database fails PRAGMA integrity_check: {ok[:3]}")

        # visible rows --------------------------------------------------------------------------------------
        visible: dict[str, list[tuple]] = {}
        # (a file that opens but whose tables cannot be read has not "opened again without error": every start of the
        # overlays loads these rows first - AttestationCommunity.__init__ calls get_all(), PseudonymManager the tokens)
        if idb is not None:
            for table, (cols, _) in ID_TABLES.items():
                try:
                    visible[table] = [tuple(r) for r in idb.execute(f"SELECT {cols} FROM {table}")]  # noqa: S608
                except Exception as e:  # noqa: BLE001
                    fail("F1", _site(e, "identity.load"), f"the identity database opens, but reading table {table} raises "
                                                          f"{type(e).__name__}: {e}")
        if wdb is not None:
            try:
                visible[WALLET_TABLE] = [tuple(r) for r in wdb.execute(
                    f"SELECT hash, blob, key, id_format FROM {WALLET_TABLE}")]  # noqa: S608
            except Exception as e:  # noqa: BLE001
                fail("F1", _site(e, "wallet.load"), f"the wallet database opens, but its records cannot be loaded: "
                                                    f"{type(e).__name__}: {e}")
        key_cols = {t: kc for t, (_, kc) in ID_TABLES.items()}
        key_cols[WALLET_TABLE] = (0,)

        def rows_with_key(rec: Record) -> list[tuple]:
            return [row for row in visible.get(rec.table, ())
                    if tuple(row[c] for c in key_cols[rec.table]) == rec.key]

        # F2 ------------------------------------------------------------------------------------------------
        def first_acked(rec: Record) -> Record:
            # a record stays as it was acknowledged: a later insert under the same primary key is ignored by the identity
            # tables (INSERT OR IGNORE) and refused by the wallet, so the FIRST acknowledged record of a key is the one
            # that must be there, unchanged
            # (a record whose call returned inside a "with database:" block that was then left by an exception sits in
            # the same open transaction: it is the one a later insert of the same key collides with)
            for i, r in enumerate(records):
                if r is not None and i in returned and r.table == rec.table and r.key == rec.key:
                    return r
            return rec

        for rec in must:
            hits = rows_with_key(rec)
            if not hits:
                fail("F2", rec.table, f"acknowledged record {_describe(rec)} is missing after the crash")
            want = first_acked(rec)
            if want.row not in hits:
                diff = [i for i, (a, b) in enumerate(zip(hits[0], want.row)) if a != b]
                fail("F2", rec.table, f"acknowledged record {_describe(want)} came back changed in columns {diff}: "
                                      f"{[_short(x) for x in hits[0]]}")
        # the same through the reload API
        if idb is not None:
            for p in pseuds:
                pub = default_eccrypto.key_from_public_bin(_pub_bin(p))
                got_tokens = idb.get_tokens_for(pub)
                got_meta = idb.get_metadata_for(pub)
                got_att = idb.get_attestations_for(pub)
                for rec in must:
                    if rec.pseud != p:
                        continue
                    group = [first_acked(rec)]
                    if rec.table == "Tokens":
                        if not any(g.obj[0] == t and g.obj[1] == t.content for g in group for t in got_tokens):
                            fail("F2", "Tokens:get_tokens_for", f"acknowledged token {_describe(rec)} is not returned "
                                                                f"(with its content) by get_tokens_for")
                    elif rec.table == "Metadata":
                        if not any(g.obj == x for g in group for x in got_meta):
                            fail("F2", "Metadata:get_metadata_for", f"acknowledged metadata {_describe(rec)} is not "
                                                                    f"returned by get_metadata_for")
                    elif not any(g.obj == x for g in group for x in got_att):
                        fail("F2", "Attestations:get_attestations_for", f"acknowledged attestation {_describe(rec)} "
                                                                        f"is not returned by get_attestations_for")
        if wdb is not None:
            everything = [tuple(r) for r in wdb.get_all()]
            for rec in must:
                if rec.table != WALLET_TABLE:
                    continue
                group = [r.row for r in started if r.table == rec.table and r.key == rec.key]
                if wdb.get_attestation_by_hash(rec.key[0]) not in [[g[1]] for g in group]:
                    fail("F2", "wallet:get_attestation_by_hash", f"acknowledged attestation blob {_describe(rec)} is "
                                                                 f"not returned unchanged by get_attestation_by_hash")
                if not any(g in everything for g in group):
                    fail("F2", "wallet:get_all", f"acknowledged attestation blob {_describe(rec)} is not in get_all()")

        # rows that were in the (version 1) wallet file before the workload began
        pre_rows = [(h, b, k, b"id_metadata") for h, b, k in v1_rows(case["wallet_v1"])] if case.get("wallet_v1") else []
        for row in pre_rows:
            if row not in visible.get(WALLET_TABLE, []):
                fail("F2", "wallet:upgrade", f"a row of the version-1 wallet file ({_short(row[0])}) is missing or changed "
                                             f"after the upgrade: {[tuple(_short(x) for x in r) for r in visible.get(WALLET_TABLE, []) if r[0] == row[0]]}")
        # F3 ------------------------------------------------------------------------------------------------
        for table, rows in visible.items():
            allowed = [r.row for r in started if r.table == table] + (pre_rows if table == WALLET_TABLE else [])
            for row in rows:
                if row not in allowed:
                    fail("F3", table, f"visible row in {table} matches no insert that had been started: "
                                      f"{[_short(x) for x in row]}")
            keys = [tuple(row[c] for c in key_cols[table]) for row in rows]
            if len(set(keys)) != len(keys):
                fail("F3", table, f"{table} shows two rows for one primary key")

        # F4 ------------------------------------------------------------------------------------------------
        if idb is not None:
            for p in pseuds:
                pub = default_eccrypto.key_from_public_bin(_pub_bin(p))
                try:
                    mgr = PseudonymManager(idb, public_key=pub)
                except Exception as e:  # noqa: BLE001
                    fail("F4", _site(e, "PseudonymManager"), f"rebuilding pseudonym {p} raised {type(e).__name__}: {e}")
                skipped = {r["i"] for r in log if r["t"] == "skip"}
                token_inserts = {r.obj[0].get_hash() for i, r in enumerate(records)
                                 if r is not None and r in started and i not in skipped and r.table == "Tokens"
                                 and r.pseud == p}
                prev_of = {r.obj[0].get_hash(): r.obj[0].previous_token_hash for i, r in enumerate(records)
                           if r is not None and r in started and i not in skipped and r.table == "Tokens" and r.pseud == p}

                def rooted(h: bytes) -> bool:
                    # the workload itself stored the whole chain below this token (a token whose predecessor was never
                    # handed to the database - its credential was turned down by the manager and skipped - dangles by
                    # the caller's doing: nothing the database could keep or lose)
                    for _ in range(len(prev_of) + 1):
                        if h == mgr.tree.genesis_hash:
                            return True
                        if h not in prev_of:
                            return False
                        h = prev_of[h]
                    return False
                for h, tok in sorted(mgr.tree.elements.items()):
                    if h != tok.get_hash() or (rooted(h) and not mgr.tree.verify(tok)):
                        fail("F4", "tree.verify", f"pseudonym {p}: loaded token {_short(h)} does not verify back to "
                                                  f"the genesis hash")
                for cred in mgr.credentials:
                    tok = mgr.tree.elements.get(cred.metadata.token_pointer)
                    if tok is None and cred.metadata.token_pointer not in token_inserts:
                        # the workload never got as far as inserting this token (an add_credential that the manager
                        # turned down without inserting anything): "token before its metadata" was not met by the
                        # caller, so there is nothing to judge
                        continue
                    if tok is None:
                        fail("F4", "credential.token", f"pseudonym {p}: credential metadata points at token "
                                                       f"{_short(cred.metadata.token_pointer)} which is not in the tree")
                    if rooted(tok.get_hash()) and not mgr.tree.verify(tok):
                        fail("F4", "tree.verify", f"pseudonym {p}: the token of a credential does not verify")
                    if not cred.metadata.verify(pub):
                        fail("F4", "metadata.verify", f"pseudonym {p}: reloaded metadata has an invalid signature")
                    for att in cred.attestations:
                        authority = default_eccrypto.key_from_public_bin(idb.get_authority(att))
                        if not att.verify(authority):
                            fail("F4", "attestation.verify", f"pseudonym {p}: reloaded attestation does not verify "
                                                             f"against its stored authority")
    finally:
        for db in opened:
            try:
                db.close()
            except Exception:  # noqa: BLE001, S110
                pass


def classify(case: dict, rc: int, log: list[dict], total_api: int | None = None) -> tuple[bool, str]:
    """
    (non-trivial?, class label) of an executed case.
    """
    killrec = next((r for r in log if r["t"] == "kill"), None)
    if rc == 0 or killrec is None:
        return False, "clean-exit"
    if killrec["mode"] == "api":
        label = f"api:{killrec['phase']}:{killrec['name']}"
        first = killrec["event"] == 1 and killrec["phase"] == "before"
        if total_api is not None:
            last = killrec["event"] == total_api and killrec["phase"] == "after"
        else:
            last = (killrec["op"] == len(case["ops"]) - 1 and killrec["phase"] == "after"
                    and killrec["name"].endswith(".commit"))
    else:
        label = "sql:" + (killrec["name"].split() or ["?"])[0].upper()
        first = killrec["event"] == 1
        last = False
    return not (first or last), label


def run_case(ctx: Ctx | None, root: str, case: dict, total_api: int | None = None) -> None:
    ops, records, pseuds = materialise(case)
    d = None
    try:
        d, rc, log = run_child(root, ops, case["kill"], case.get("wallet_v1"))
        if ctx is not None:
            nt, label = classify(case, rc, log, total_api)
            ctx.case(case, nt, cls=label)
        judge(case, d, rc, log, records, pseuds)
    finally:
        if d is not None:
            shutil.rmtree(d, ignore_errors=True)


def dry_run(root: str, case: dict) -> tuple[int, int]:
    """
    Number of api events and sql statements of the uninterrupted workload.
    """
    ops, _, _ = materialise(case)
    d = None
    try:
        d, rc, log = run_child(root, ops, {"mode": "none"}, case.get("wallet_v1"))
        done = next((r for r in log if r["t"] == "done"), None)
        if rc != 0 or done is None:
            died = next((r for r in log if r["t"] == "kill" and r.get("mode") == "error"), None)
            if died is not None:
                # the library raised in the middle of a legal workload: crash points up to there are still enumerated
                return died["api_seen"], died["sql_seen"]
            raise HarnessError(f"dry run of a scripted workload did not finish: rc={rc}")
        return done["api"], done["sql"]
    finally:
        if d is not None:
            shutil.rmtree(d, ignore_errors=True)


def make_root() -> str:
    """
    The private scratch directory of one run; everything a run creates lives below it and goes away with it.
    Directories left behind by a runner that was itself killed (owner pid in the name, no longer alive) are purged.
    """
    os.makedirs(SCRATCH_BASE, exist_ok=True)
    for name in os.listdir(SCRATCH_BASE):
        parts = name.split("_")
        if len(parts) >= 3 and parts[0] == "c19" and parts[1].isdigit():
            try:
                os.kill(int(parts[1]), 0)
            except ProcessLookupError:
                shutil.rmtree(os.path.join(SCRATCH_BASE, name), ignore_errors=True)
            except OSError:
                pass
    return tempfile.mkdtemp(prefix=f"c19_{os.getpid()}_", dir=SCRATCH_BASE)


# ---- scripted workloads (exhaustive over their crash points) -----------------------------------------------

def _script(tokens=(), metas=(), blobs=(), ops=(), wallet_v1=None) -> dict:
    out = {"tokens": [list(t) for t in tokens], "metas": [list(m) for m in metas], "blobs": list(blobs),
           "ops": [list(o) for o in ops]}
    if wallet_v1 is not None:
        out["wallet_v1"] = list(wallet_v1)
    return out


SCRIPTS: list[tuple[str, dict]] = [
    ("one-token", _script(tokens=[(0, -1, 40)], ops=[("token", 0, 1)])),
    ("one-credential", _script(tokens=[(0, -1, 40)], metas=[(0, 10)],
                               ops=[("token", 0, 0), ("meta", 0, 0), ("att", 0, 0)])),
    ("chain-of-three", _script(tokens=[(0, -1, 10), (0, 0, 20), (0, 1, 30)], metas=[(0, 5), (2, 5)],
                               ops=[("token", 0, 1), ("meta", 0, 0), ("token", 1, 0), ("token", 2, 1),
                                    ("meta", 1, 0), ("att", 1, 1)])),
    ("two-pseudonyms", _script(tokens=[(0, -1, 16), (1, -1, 16), (1, 1, 16)], metas=[(0, 0), (1, 0)],
                               ops=[("token", 0, 1), ("token", 1, 1), ("meta", 1, 0), ("meta", 0, 0),
                                    ("att", 0, 0), ("token", 2, 0), ("att", 1, 0)])),
    ("exact-duplicates", _script(tokens=[(0, -1, 12)], metas=[(0, 3)],
                                 ops=[("token", 0, 1), ("token", 0, 1), ("meta", 0, 0), ("meta", 0, 0),
                                      ("att", 0, 0), ("att", 0, 0)])),
    ("colliding-keys", _script(tokens=[(2, -1, 12)], metas=[(0, 3)],
                               ops=[("token", 0, 0), ("token", 0, 1), ("meta", 0, 0), ("meta", 0, 1),
                                    ("att", 0, 0), ("att", 0, 1)])),
    ("one-blob", _script(blobs=[4], ops=[("blob", 0)])),
    ("blobs-large-and-repeated", _script(blobs=[0, 250, 600], ops=[("blob", 1), ("blob", 0), ("blob", 1),
                                                                 ("blob", 2)])),
    ("identity-and-wallet", _script(tokens=[(0, -1, 33)], metas=[(0, 40)], blobs=[30],
                                    ops=[("token", 0, 1), ("blob", 0), ("meta", 0, 0), ("att", 0, 0)])),
    ("identity-reopened", _script(tokens=[(0, -1, 8), (0, 0, 8)], metas=[(0, 2), (1, 2)],
                                  ops=[("token", 0, 1), ("meta", 0, 0), ("reopen", "id"), ("token", 1, 1),
                                       ("meta", 1, 0)])),
    ("wallet-reopened", _script(blobs=[3, 5], ops=[("blob", 0), ("reopen", "wallet"), ("blob", 1)])),
    # the wallet file was written by version 1 of the schema: the first open upgrades it (versioned schema), then records
    # are written - a kill inside the upgrade must leave a file that opens again, with the old rows in it
    ("wallet-upgraded-from-v1", _script(blobs=[3, 5], ops=[("blob", 0), ("reopen", "wallet"), ("blob", 1)],
                                        wallet_v1=[1, 2])),
    ("empty-wallet-upgraded-from-v1", _script(blobs=[4], ops=[("blob", 0)], wallet_v1=[])),
    ("large-content", _script(tokens=[(1, -1, 70000), (1, 0, 9000)], metas=[(1, 9000)],
                              ops=[("token", 0, 1), ("token", 1, 1), ("meta", 0, 0), ("att", 0, 0)])),
    # re-delivery: a record that is already stored is inserted again (ignored), then new records follow in the same
    # and in other tables - whatever bookkeeping an insert keeps about "nothing changed" must not leak into the next one
    # the documented "with database:" block groups commits: records inserted inside are durable once the block has been
    # left normally; a block left through an exception (an ordinary one caught by the application, or IgnoreCommits)
    # promises nothing for its own records - but everything inserted afterwards is durable again when its call returns
    ("batch-ok", _script(tokens=[(0, -1, 8), (0, 0, 8)], metas=[(0, 2), (1, 2)],
                         ops=[("token", 0, 1), ("batch_begin",), ("meta", 0, 0), ("token", 1, 1), ("meta", 1, 0),
                              ("batch_end", "ok"), ("att", 0, 0)])),
    ("batch-failed-then-inserts", _script(tokens=[(0, -1, 8), (0, 0, 8), (0, 1, 8)], metas=[(0, 2), (1, 2), (2, 2)],
                                          ops=[("token", 0, 1), ("meta", 0, 0), ("batch_begin",), ("token", 1, 1),
                                               ("batch_end", "raise"), ("meta", 1, 0), ("token", 2, 1), ("meta", 2, 0),
                                               ("att", 0, 0), ("att", 1, 1)])),
    ("batch-ignored-then-inserts", _script(tokens=[(0, -1, 8), (0, 0, 8)], metas=[(0, 2), (1, 2)],
                                           ops=[("token", 0, 1), ("batch_begin",), ("meta", 0, 0), ("batch_end", "ignore"),
                                                ("token", 1, 1), ("meta", 1, 0), ("att", 1, 0)])),
    # the same token first with its content, later again in its public form (no content): the stored content stays
    ("content-then-bare", _script(tokens=[(0, -1, 24), (0, 0, 8)], metas=[(0, 2), (1, 2)],
                                  ops=[("token", 0, 1), ("meta", 0, 0), ("token", 0, 0), ("token", 1, 1), ("meta", 1, 0),
                                       ("token", 0, 0), ("att", 0, 0)])),
    # credentials stored through the manager API (one call writes token, metadata and attestations, each with its own
    # commit): at whatever statement the process dies, the rebuilt pseudonym has no credential without its token
    ("credentials-through-manager", _script(tokens=[(0, -1, 12), (0, 0, 12), (1, -1, 12)], metas=[(0, 3), (1, 3), (2, 3)],
                                            ops=[("cred", 0, 1, 0, [0]), ("cred", 1, 0, 1, [0, 1]), ("cred", 2, 1, 2, []),
                                                 ("att", 0, 1)])),
    # disclosures of another party's pseudonym through IdentityManager.substantiate (what a disclose message triggers):
    # every inner insert that has returned is durable, also when the disclosure's tail is damaged and the call raises
    ("disclosures-substantiated", _script(tokens=[(0, -1, 8)], metas=[(0, 2)],
                                          ops=[("token", 0, 1), ("subst", [2, 30, 4], [[0], [0, 1], []], 0), ("meta", 0, 0),
                                               ("subst", [5, 6], [[1], [0]], 1), ("att", 0, 0)])),
    ("redelivered-metadata", _script(tokens=[(0, -1, 8), (0, 0, 8)], metas=[(0, 2), (1, 2)],
                                     ops=[("token", 0, 1), ("meta", 0, 0), ("token", 1, 1), ("meta", 0, 0),
                                          ("meta", 1, 0), ("att", 0, 0)])),
    ("redelivered-token", _script(tokens=[(0, -1, 8), (0, 0, 8), (0, 1, 8)], metas=[(0, 2), (1, 2)],
                                  ops=[("token", 0, 1), ("token", 1, 1), ("meta", 0, 0), ("token", 0, 1),
                                       ("token", 2, 1), ("meta", 1, 0), ("token", 1, 1), ("att", 0, 0)])),
    ("redelivered-attestation", _script(tokens=[(0, -1, 8), (0, 0, 8)], metas=[(0, 2), (1, 2)],
                                        ops=[("token", 0, 1), ("meta", 0, 0), ("att", 0, 0), ("token", 1, 1),
                                             ("meta", 1, 0), ("att", 0, 0), ("att", 1, 0), ("meta", 0, 0),
                                             ("att", 1, 1), ("token", 0, 1)])),
]
# a pseudonym with more tokens than any bounded waiting area of the token tree holds (100): whatever order the rows
# come back in, the rebuilt pseudonym must contain and verify all of them
_LONG = 130
SCRIPTS.append(("long-chain", _script(tokens=[(0, -1, 4)] + [(0, i - 1, 4) for i in range(1, _LONG)],
                                      metas=[(_LONG - 1, 1), (_LONG // 2, 1)],
                                      ops=[("token", i, i % 2) for i in range(_LONG)] + [("meta", 0, 0), ("meta", 1, 0),
                                                                                          ("att", 0, 0)])))
N_QUICK_SCRIPTS = len(SCRIPTS)
# thorough tier only
SCRIPTS += [
    ("three-pseudonyms", _script(tokens=[(0, -1, 5), (1, -1, 5), (2, -1, 5)], metas=[(0, 1), (1, 1), (2, 1)],
                                 ops=[("token", 0, 1), ("token", 1, 0), ("token", 2, 1), ("meta", 2, 0), ("meta", 0, 0),
                                      ("meta", 1, 0), ("att", 1, 0), ("att", 0, 1), ("att", 2, 0)])),
    ("deep-chain-with-branch", _script(tokens=[(0, -1, 9), (0, 0, 9), (0, 1, 9), (0, 2, 9), (0, 1, 9), (0, 4, 9)],
                                       metas=[(3, 2), (5, 2)],
                                       ops=[("token", 0, 0), ("token", 1, 1), ("token", 2, 0), ("token", 4, 1),
                                            ("token", 3, 1), ("meta", 0, 0), ("token", 5, 0), ("meta", 1, 0),
                                            ("att", 0, 0), ("att", 1, 1)])),
    ("many-blobs", _script(blobs=[1, 170, 171, 400, 2, 90],
                           ops=[("blob", 0), ("blob", 1), ("blob", 2), ("blob", 3), ("blob", 1), ("blob", 4),
                                ("reopen", "wallet"), ("blob", 5), ("blob", 0)])),
    ("everything-reopened-twice", _script(tokens=[(1, -1, 300), (1, 0, 8200)], metas=[(0, 20), (1, 8200)], blobs=[12, 200],
                                          ops=[("token", 0, 1), ("blob", 0), ("meta", 0, 0), ("reopen", "id"),
                                               ("reopen", "wallet"), ("att", 0, 0), ("token", 1, 1), ("blob", 1),
                                               ("reopen", "id"), ("meta", 1, 0), ("att", 1, 1), ("blob", 0)])),
]


def plan(root: str, nscripts: int) -> list[list]:
    """
    All (script index, mode, n, api total) crash points, from one uninterrupted run per script.
    """
    items: list[list] = []
    for s, (name, case) in enumerate(SCRIPTS[:nscripts]):
        api, sql = dry_run(root, case)
        # long scripts: every 9th crash point and the last ten of each kind
        pick = (lambda n, total: True) if api <= 40 else (lambda n, total: n % 9 == 0 or n > total - 10)
        for n in range(2 * api + 1):       # the last one lies beyond the final event: clean exit
            if pick(n, 2 * api):
                items.append([s, "api", n, api])
        for n in range(1, sql + 1):
            if pick(n, sql):
                items.append([s, "sql", n, api])
    return items


def _exhaustive_shard(ctx: Ctx, shard: int, nshards: int, root: str, items: list) -> None:
    for s, mode, n, api in items[shard::nshards]:
        case = dict(SCRIPTS[s][1])
        case["kill"] = {"mode": mode, "n": n}
        try:
            run_case(ctx, root, case, total_api=api)
        except Violation as v:
            ctx.violation(v)


# ---- Hypothesis-drawn workloads ----------------------------------------------------------------------------

BATCH_ENDS = ["ok", "raise", "ignore"]


def build(raw: dict) -> dict:
    """
    Turn drawn integers into a well-ordered case: dependencies are placed before their dependants by construction.
    """
    np_ = raw["np"]
    tokens: list[list] = []
    for psel, parsel, clen in raw["tok"]:
        pseud = psel % np_
        mine = [i for i, t in enumerate(tokens) if t[0] == pseud]
        parent = -1 if not mine or parsel % (len(mine) + 1) == 0 else mine[parsel % (len(mine) + 1) - 1]
        tokens.append([pseud, parent, clen])
    metas = [[tsel % len(tokens), pad] for tsel, pad in raw["meta"]] if tokens else []
    blobs = list(raw["blobs"])
    placed_tok: set[int] = set()
    placed_meta: set[int] = set()
    placed: set[tuple] = set()
    ops: list[list] = []
    in_batch = False
    for sel, var in raw["picks"]:
        cands: list[list] = []
        for t, (pseud, parent, _) in enumerate(tokens):
            if parent < 0 or parent in placed_tok:
                cands += [["token", t]] * (1 if t in placed_tok else 3)
        for m, (tok, _) in enumerate(metas):
            if tok in placed_tok:
                cands += [["meta", m]] * (1 if ("meta", m) in placed else 3)
            if m in placed_meta:
                cands += [["att", m]] * (1 if ("att", m) in placed else 3)
        for b in range(len(blobs)):
            cands += [["blob", b]] * (1 if ("blob", b) in placed else 3)
        if not in_batch:
            for m, (tok, _) in enumerate(metas):
                parent = tokens[tok][1]
                if tok not in placed_tok and (parent < 0 or parent in placed_tok):
                    cands += [["cred", m]] * 2       # token + metadata (+ attestation) through the manager, one call
        cands += [["reopen", "id"], ["reopen", "wallet"]]
        if in_batch:
            # a block is left before the database is re-opened; blobs live in the other database
            cands = [c for c in cands if c[0] not in ("reopen", "blob")] + [["batch_end", BATCH_ENDS[var % 3]]] * 3
        elif raw.get("batches"):
            cands += [["batch_begin", None]] * 2
        if not cands:
            continue
        kind, idx = cands[sel % len(cands)]
        if kind == "batch_begin":
            ops.append(["batch_begin"])
            in_batch = True
            continue
        if kind == "batch_end":
            ops.append(["batch_end", idx])
            in_batch = False
            continue
        if kind == "cred":
            tok = metas[idx][0]
            ops.append(["cred", tok, var & 1, idx, [var % 3] if var & 4 else []])
            placed_tok.add(tok)
            placed_meta.add(idx)
            placed.add(("meta", idx))
        elif kind == "token":
            ops.append(["token", idx, var & 1])
            placed_tok.add(idx)
        elif kind == "meta":
            variant = 1 if var % 4 == 3 else 0
            ops.append(["meta", idx, variant])
            if variant == 0:
                placed_meta.add(idx)
        elif kind == "att":
            ops.append(["att", idx, var % 2])
        elif kind == "blob":
            ops.append(["blob", idx])
        else:
            ops.append([kind, idx])
        placed.add((kind, idx))
    if in_batch:
        ops.append(["batch_end", BATCH_ENDS[len(ops) % 3]])
    # estimate of the number of crash points (only steers the draw; a point beyond the end is a clean exit)
    mode, frac = raw["kill"]
    api = sql = 0
    seen: set[str] = set()
    for op in ops:
        db = op[1] if op[0] == "reopen" else ("wallet" if op[0] == "blob" else "id")
        if op[0] in ("batch_begin", "batch_end") and "id" not in seen:
            api, sql = api + 4, sql + 19
            seen.add("id")
        if op[0] == "reopen" and db in seen:
            api, sql = api + 6, sql + 14
        elif db not in seen:
            api, sql = api + 4, sql + 19
            seen.add(db)
        if op[0] == "cred":
            api, sql = api + 8, sql + 14
        elif op[0] not in ("reopen", "batch_begin", "batch_end"):
            api, sql = api + 2, sql + 3
    span = 2 * api + 2 if mode == "api" else sql + 2
    # Hypothesis prefers small integers; a fixed permutation of 0..999 spreads them over the whole workload
    n = 1 + (span - 1) * ((frac * 619 + 377) % 1000) // 1000
    return {"tokens": tokens, "metas": metas, "blobs": blobs, "ops": ops, "kill": {"mode": mode, "n": n}}


def _strategy():
    from hypothesis import strategies as st
    size = st.one_of(st.integers(0, 64), st.integers(0, 30000))
    return st.fixed_dictionaries({
        "np": st.integers(1, 3),
        "tok": st.lists(st.tuples(st.integers(0, 2), st.integers(0, 5), size), max_size=6),
        "meta": st.lists(st.tuples(st.integers(0, 5), st.one_of(st.integers(0, 32), st.integers(0, 12000))),
                         max_size=4),
        "blobs": st.lists(st.one_of(st.integers(0, 8), st.integers(0, 600)), max_size=3),
        "picks": st.lists(st.tuples(st.integers(0, 63), st.integers(0, 7)), min_size=2, max_size=12),
        "kill": st.tuples(st.sampled_from(["api", "api", "sql"]), st.integers(0, 999)),
        "batches": st.booleans(),
    })


def _random_shard(ctx: Ctx, shard: int, nshards: int, root: str, n: int) -> None:
    def body(raw: dict) -> None:
        run_case(ctx, root, build(raw))
    hyp_run(ctx, "workloads", _strategy(), body, n, shrink_examples=60)


# ---- entry points ------------------------------------------------------------------------------------------

def run(ctx: Ctx) -> None:
    root = make_root()
    try:
        nscripts = N_QUICK_SCRIPTS if ctx.quick else len(SCRIPTS)
        items = plan(root, nscripts)
        ctx.note("scripted_workloads", [name for name, _ in SCRIPTS[:nscripts]])
        ctx.note("scripted_crash_points", len(items))
        shard_run(ctx, _exhaustive_shard, extra=(root, items))
        shard_run(ctx, _random_shard, extra=(root, 105 if ctx.quick else 1500))
    finally:
        shutil.rmtree(root, ignore_errors=True)
    ctx.note("clean_exits_counted_separately", ctx.hist.get("clean-exit", 0))
    ctx.note("exhaustive_subspace", "every api and sql crash point of the scripted workloads listed under "
                                    "scripted_workloads; the Hypothesis-drawn workloads are a sample")


def replay(ctx: Ctx, case: dict) -> None:
    root = make_root()
    try:
        run_case(None, root, case)
    finally:
        shutil.rmtree(root, ignore_errors=True)
