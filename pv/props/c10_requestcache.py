"""
C10 - each outstanding request is resolved exactly once.

A real ``RequestCache`` lives on a ``VirtualLoop``; one case is a list of operations interpreted inside ONE
``vloop.run(main)``. The harness owns the clock, so it decides whether a response (``pop`` / a
``retrieve_cache``-decorated handler) lands just before, exactly at, or just after a timeout deadline, from the main
coroutine (a task step), from a plain loop callback scheduled for the very instant of the deadline (what a datagram
handler is), or from inside another cache's ``on_timeout``.

The oracle is an explicit model of the outstanding requests: identity -> (object, deadline). It is *observation
driven*: every event the real cache produces (an ``on_timeout`` invocation, the result of pop / get / has / add /
constructor / handler call, the state of tied futures) is judged at the moment it happens by a validity predicate
over the model, and the model then follows the observed (valid) event. Where the statement leaves an order open -
two deadlines that coincide, a response in the same loop iteration as the expiry - either outcome is accepted,
but never both and never neither.

Clauses (DESIGN 2/C10):
 R1 exactly one of {claimed, timed out} for every accepted request unless cleared / shut down (then neither);
    a timeout fires neither early, nor twice, nor later than a loop iteration after its deadline.
 R2 after a claim no timeout; after a timeout pop raises KeyError, has is false, get is None (also inside the
    on_timeout callback itself).
 R3 while outstanding: constructing a NumberCache for the identity raises, a second add returns None and leaves
    the first request in place; RandomNumberCache never picks a claimed number.
 R4 tied futures: set to the declared value / exception on timeout, untouched by pop, cancelled by shutdown.
 R5 after shutdown: no on_timeout, add returns None (and cancels the futures of the refused cache).
"""
from __future__ import annotations

import asyncio
import itertools
import json
import logging
import random as _pyrandom
from functools import lru_cache

from ..core import Ctx, HarnessError, Violation, digest, hyp_run, shard_run

PID = "C10"
LEVEL = "exploration"
EXHAUSTIVE = False
RULE = ("operation lists over add(prefix in 2, number in 0..3, timeout in {0.1,1,5,700,2000}, on_timeout behaviour in "
        "{nothing, pop another, pop itself, add another, re-add own identity}, tied future in {none, None, value, "
        "exception}, duplicate flavour) / add_random (scripted collisions with every claimed number first) / pop / "
        "get / has (by name or class) / retrieve_cache handler call / claim of the k-th earliest pending request / register_future / advance to the k-th pending "
        "deadline -eps|+0|+eps / sleep / 'at' (a sync op run as a loop callback at a deadline -eps|+0|+eps) / "
        "passthrough(filter, timeout) around the next 1..3 ops / clear / shutdown / re-add of a resolved cache object, each list run in one virtual-time "
        "loop against the model and followed by a drain past every deadline ever set: all words to depth 6 (quick), "
        "7 (thorough) over an 8-letter 'schedule' and an 8-letter 'lifecycle' alphabet, depth 6 / 8 over an 8-letter 're-use' alphabet, plus depth 8 over the "
        "6-letter cores of the first two (words that register nothing or start with a no-op on the empty cache are skipped as "
        "repeats of shorter words), plus Hypothesis-drawn lists up to 40 ops. Non-trivial = a claim/clear/shutdown within the "
        "loop iteration of the target's expiry, a pop issued from inside on_timeout, or shutdown with something "
        "outstanding; distinct = digest of the op list.")
ASSUMPTIONS = [
    "single-threaded use from the event loop (RequestCache.lock is not contended)",
    "on_timeout callbacks do not raise (the drawn behaviours catch the KeyError / RuntimeError they provoke)",
    "the virtual clock: a timer due at d fires in the loop iteration in which the clock reaches d; deadlines closer "
    "than 1e-4 s to the instant of an operation are treated as simultaneous (either order accepted)",
    "RandomNumberCache draws through the module-level name ipv8.requestcache.random (replaced by a scripted source "
    "so that collisions are forced and runs are reproducible)",
    "putting a resolved cache OBJECT back with add() is treated as admitted (add's docstring does not restrict it; "
    "no in-tree caller does it): violations that need it carry the site suffix ':re-added' so that they can be triaged "
    "apart from the fresh-object ones",
    "the identifier is expected to be free already while on_timeout runs (DESIGN M: '_on_timeout removes the "
    "identifier first'); futures of cleared caches and wait_for are not judged",
]

EPS = 1e-3
TOL = 1e-4
TIMEOUTS = [0.1, 1.0, 5.0, 700.0, 2000.0]     # the long ones outlast the task manager's own housekeeping rounds
PT_TIMEOUTS = [0.0, 0.1, 4.0]
PREFIXES = ["pa", "pb"]
FILTERS = [None, ["A"], ["B"], ["A", "B"], ["RA"], ["NumberCache"], ["RandomNumberCache"], ["B", "RandomNumberCache"]]
# hand-written subclass table (the model must not ask the implementation)
ANCESTORS = {"A": {"A", "NumberCache"}, "B": {"B", "NumberCache"},
             "RA": {"RA", "RandomNumberCache", "NumberCache"}, "RB": {"RB", "RandomNumberCache", "NumberCache"}}
EXPLICIT_CLS = {"pa": "A", "pb": "B"}
RANDOM_CLS = {"pa": "RA", "pb": "RB"}

_script: list[float] = []
_fallback = _pyrandom.Random(0)


def _scripted_random() -> float:
    if _script:
        return _script.pop(0)
    return _fallback.random()


@lru_cache(maxsize=None)
def _env() -> dict:
    """
    Cache classes and the overlay stub, created once per process (after the repository path is set up).
    """
    import ipv8.requestcache as rcm
    from ipv8.lazy_community import retrieve_cache
    from ipv8.requestcache import (NumberCache, NumberCacheWithName, RandomNumberCache, RandomNumberCacheWithName,
                                   RequestCache)

    if callable(vars(rcm).get("random")):
        rcm.random = _scripted_random

    class A(NumberCacheWithName):
        name = "pa"

        def __init__(self, run, rc, number, timeout):
            self.pv_run, self.pv_timeout, self.pv_entry = run, timeout, None
            super().__init__(rc, self.name, number)

        @property
        def timeout_delay(self):
            return self.pv_timeout

        def on_timeout(self):
            self.pv_run.on_timeout(self)

    class B(NumberCacheWithName):   # not a subclass of A: the passthrough filters tell them apart
        name = "pb"

        def __init__(self, run, rc, number, timeout):
            self.pv_run, self.pv_timeout, self.pv_entry = run, timeout, None
            super().__init__(rc, self.name, number)

        @property
        def timeout_delay(self):
            return self.pv_timeout

        def on_timeout(self):
            self.pv_run.on_timeout(self)

    class RA(RandomNumberCacheWithName):
        name = "pa"

        def __init__(self, run, rc, timeout):
            self.pv_run, self.pv_timeout, self.pv_entry = run, timeout, None
            super().__init__(rc, self.name)

        @property
        def timeout_delay(self):
            return self.pv_timeout

        def on_timeout(self):
            self.pv_run.on_timeout(self)

    class RB(RandomNumberCacheWithName):
        name = "pb"

        def __init__(self, run, rc, timeout):
            self.pv_run, self.pv_timeout, self.pv_entry = run, timeout, None
            super().__init__(rc, self.name)

        @property
        def timeout_delay(self):
            return self.pv_timeout

        def on_timeout(self):
            self.pv_run.on_timeout(self)

    class Payload:
        def __init__(self, identifier):
            self.identifier = identifier

    class Stub:
        """
        The three things retrieve_cache asks of an overlay: request_cache, logger, handlers.
        """

        def __init__(self, rc, run):
            self.request_cache = rc
            self.logger = logging.getLogger("pv.c10")
            self.run = run

        @retrieve_cache(A)
        def on_pa(self, peer, *payloads, cache):
            self.run.handler_calls.append(cache)
            return "handled"

        @retrieve_cache(B)
        def on_pb(self, peer, *payloads, cache):
            self.run.handler_calls.append(cache)
            return "handled"

    return {"A": A, "B": B, "RA": RA, "RB": RB, "NumberCache": NumberCache, "RandomNumberCache": RandomNumberCache,
            "RequestCache": RequestCache, "Stub": Stub, "Payload": Payload}


class Entry:
    """
    One cache object the harness created. status: spare (a same-identity twin that is never accepted), out,
    popped, timedout, cleared, shutdown, refused (add after shutdown).
    """
    __slots__ = ("cid", "obj", "p", "n", "cls", "timeout", "beh", "status", "deadline", "futs", "twin", "timeouts",
                 "regs")

    def __init__(self, cid, obj, p, n, cls, timeout, beh):
        self.cid, self.obj, self.p, self.n, self.cls, self.timeout, self.beh = cid, obj, p, n, cls, timeout, beh
        self.status = "spare"
        self.deadline = None
        self.futs: list = []      # (future, declared kind, declared object)
        self.twin = None
        self.timeouts = 0
        self.regs = 0             # how often this object was accepted by add (> 1: it was put back after a resolution)

    def __repr__(self):
        return f"cache#{self.cid}<{self.p}:{self.n} {self.status}{' re-added' if self.regs > 1 else ''}>"

    @property
    def sfx(self) -> str:
        """
        Site suffix: an object that was put back after a resolution is a different root cause than a fresh one.
        """
        return ":re-added" if self.regs > 1 else ""


STALE_CLAUSE = {"timedout": "R2", "popped": "R2", "cleared": "R1", "shutdown": "R5", "refused": "R5", "spare": "R3"}
_KEYERR = object()


class Run:
    """
    One operation list interpreted on the real RequestCache and the model side by side.
    """

    def __init__(self, loop, ops: list, case: dict) -> None:
        self.env = _env()
        self.loop = loop
        self.ops = ops
        self.case = case
        self.rc = self.env["RequestCache"]()
        self.stub = self.env["Stub"](self.rc, self)
        self.entries: list[Entry] = []
        self.owner_settled: set[int] = set()   # ids of tied futures their owner resolved / cancelled itself
        self.out: dict[tuple, Entry] = {}
        self.identities: set[tuple] = set()
        self.all_deadlines: list[float] = []
        self.pending_at: list[float] = []
        self.is_shutdown = False
        self.pt = None            # (filter list | None, timeout) while a passthrough block is open
        self.pt_cm = None
        self.pt_left = 0
        self.failed: Violation | None = None
        self.flags: set[str] = set()
        self.handler_calls: list = []
        self.events = {"timeout": 0, "pop": 0, "keyerror": 0, "dup": 0, "readd": 0}
        self.t0 = loop.time()

    # ---- plumbing ------------------------------------------------------------------------------------
    def now(self) -> float:
        return self.loop.time()

    def fail(self, clause: str, site: str, msg: str) -> None:
        raise Violation(clause, site, f"{msg} [t={self.now() - self.t0:.4f}]", self.case)

    def guarded(self, fn, *args) -> None:
        """
        Run an oracle-bearing action inside a loop callback: the first violation is kept and raised by main.
        """
        if self.failed is not None:
            return
        try:
            fn(*args)
        except Violation as v:
            self.failed = v

    def raise_if_failed(self) -> None:
        if self.failed is not None:
            raise self.failed

    async def wait_until(self, target: float) -> None:
        if target <= self.now():
            await asyncio.sleep(0)
            return
        fut = self.loop.create_future()
        self.loop.call_at(target, lambda: fut.done() or fut.set_result(None))
        await fut

    def entry_of(self, obj) -> Entry | None:
        return getattr(obj, "pv_entry", None)

    def effective_timeout(self, cls: str, base: float) -> float:
        if self.pt is not None:
            filters, t = self.pt
            if filters is None or any(f in ANCESTORS[cls] for f in filters):
                return t
        return base

    def key(self, p: str, bycls: int):
        return self.env[EXPLICIT_CLS[p]] if bycls else p

    # ---- continuous oracles --------------------------------------------------------------------------
    def check_late(self) -> None:
        t = self.now()
        for e in self.out.values():
            if e.deadline < t - TOL:
                self.fail("R1", "timeout:missed" + e.sfx, f"{e} was added with deadline {e.deadline - self.t0:.4f}, was never "
                                                  f"claimed, and its on_timeout has still not been called")

    def check_table(self) -> None:
        for (p, n) in sorted(self.identities):
            e = self.out.get((p, n))
            has = self.rc.has(p, n)
            got = self.rc.get(p, n)
            if e is None:
                if has or got is not None:
                    g = self.entry_of(got)
                    clause = STALE_CLAUSE.get(g.status, "R2") if g is not None else "R2"
                    self.fail(clause, "lookup:stale", f"identity {p}:{n} is not outstanding (model) but has()={has}, "
                                                      f"get()={g or got}")
            else:
                if not has or got is not e.obj:
                    self.fail("R1", "lookup:lost", f"{e} is outstanding but has()={has}, get()={self.entry_of(got) or got}")

    def check_futures(self) -> None:
        for e in self.entries:
            for fut, kind, declared in e.futs:
                if id(fut) in self.owner_settled:
                    continue      # settled by its owner beforehand: not the cache's to complete any more
                if e.status == "timedout":
                    if not fut.done() or fut.cancelled():
                        self.fail("R4", "timeout:future", f"{e} timed out but its tied future is "
                                                          f"{'cancelled' if fut.cancelled() else 'pending'}")
                    exc = fut.exception()
                    if kind == 3:
                        if exc is not declared:
                            self.fail("R4", "timeout:future", f"{e}: tied future should raise the declared exception, "
                                                              f"has exception={exc!r}")
                    elif exc is not None or fut.result() != declared:
                        got = exc if exc is not None else fut.result()
                        self.fail("R4", "timeout:future", f"{e}: tied future should be {declared!r}, is {got!r}")
                elif e.status in ("popped", "out"):
                    if fut.done():
                        self.fail("R4", f"{'pop' if e.status == 'popped' else 'outstanding'}:future",
                                  f"{e}: tied future was completed/cancelled although the request was "
                                  f"{'claimed by pop' if e.status == 'popped' else 'still outstanding'}")
                elif e.status == "shutdown":
                    if not fut.cancelled():
                        self.fail("R4", "shutdown:future", f"{e} was outstanding at shutdown but its tied future is "
                                                           f"not cancelled")
                elif e.status == "refused":
                    if not fut.cancelled():
                        self.fail("R5", "add_after_shutdown:future", f"{e} was refused after shutdown but its tied "
                                                                     f"future is not cancelled")

    # ---- events from the cache -----------------------------------------------------------------------
    def on_timeout(self, obj) -> None:
        self.guarded(self._on_timeout, obj)

    def _on_timeout(self, obj) -> None:
        e = self.entry_of(obj)
        t = self.now()
        self.events["timeout"] += 1
        e.timeouts += 1
        if self.is_shutdown:
            self.fail("R5", "on_timeout" + e.sfx, f"on_timeout of {e} called after shutdown")
        if e.status == "popped":
            self.fail("R2", "timeout_after_pop" + e.sfx, f"on_timeout of {e} called although it was claimed by pop")
        if e.status == "timedout":
            self.fail("R1", "timeout_stale:re-added" if e.sfx else "timeout_twice", f"on_timeout of {e} called a second time")
        if e.status == "cleared":
            self.fail("R1", "timeout_stale:re-added" if e.sfx else "timeout_after_clear", f"on_timeout of {e} called after clear()")
        if e.status == "spare":
            self.fail("R3", "duplicate_registered", f"on_timeout of {e}, a duplicate that must never have been accepted")
        if e.status != "out":
            self.fail("R1", "timeout_unregistered", f"on_timeout of {e} in state {e.status}")
        if t < e.deadline - TOL:
            self.fail("R1", "timeout_stale:re-added" if e.sfx else "timeout:early", f"on_timeout of {e} called {e.deadline - t:.4f}s before its deadline")
        e.status = "timedout"
        del self.out[(e.p, e.n)]
        self.check_late()
        if self.rc.has(e.p, e.n):
            self.fail("R2", "on_timeout:has", f"{e} is timing out but has() is still true inside on_timeout")
        beh = e.beh
        if beh[0] == "pop":
            self.op_pop(beh[1], beh[2], 0, "on_timeout")
        elif beh[0] == "popself":
            self.op_pop(e.p, e.n, 0, "on_timeout")
        elif beh[0] == "add":
            self.op_add(beh[1], beh[2], beh[3], ["none"], 0, 0, "on_timeout")
        elif beh[0] == "addself":
            self.op_add(e.p, e.n, beh[1], ["none"], 0, 0, "on_timeout")

    # ---- synchronous operations ----------------------------------------------------------------------
    def do_sync(self, op: list, where: str) -> None:
        kind = op[0]
        if kind == "add":
            self.op_add(op[1], op[2], op[3], op[4], op[5], op[6], where)
        elif kind == "addr":
            self.op_add_random(op[1], op[2], op[3], op[4], op[5], where)
        elif kind == "pop":
            self.op_pop(op[1], op[2], op[3], where)
        elif kind == "popc":
            cands = [e for e in self.entries if e.status != "spare"]
            if cands:
                e = cands[op[1] % len(cands)]
                self.op_pop(e.p, e.n, 0, where)
        elif kind == "popd":
            # claim the outstanding request with the k-th earliest deadline: 0 pop by name, 1 pop by class,
            # 2 / 3 retrieve_cache handler (plain / with trailing raw data), 4 / 5 the same with an earlier payload that
            # carries the identifier of another outstanding request
            cands = sorted(self.out.values(), key=lambda e: (e.deadline, e.cid))
            if cands:
                e = cands[op[1] % len(cands)]
                if op[2] < 2:
                    self.op_pop(e.p, e.n, op[2], where)
                else:
                    self.op_retrieve(e.p, e.n, op[2] - 2, where)
        elif kind in ("get", "has"):
            self.op_lookup(kind, op[1], op[2], op[3])
        elif kind == "retrieve":
            self.op_retrieve(op[1], op[2], op[3], where)
        elif kind == "future":
            cands = [e for e in self.entries if e.status == "out"]
            if cands:
                self.tie_future(cands[op[1] % len(cands)], op[2])
        elif kind == "settle":
            # the owner of a tied future resolves or cancels it itself while the request is still outstanding
            cands = [(e, f) for e in self.entries if e.status == "out" for f in e.futs if not f[0].done()]
            if cands:
                e, (fut, _, _) = cands[op[1] % len(cands)]
                self.owner_settled.add(id(fut))
                if op[2]:
                    fut.cancel()
                else:
                    fut.set_result("settled by its owner")
        elif kind == "clear":
            self.op_clear(where)
        elif kind == "readd":
            self.op_readd(op[1], where)
        else:
            raise HarnessError(f"unknown op {op}")

    def tie_future(self, e: Entry, kind: int) -> None:
        declared = {1: None, 2: 7, 3: RuntimeError("declared-timeout")}[kind]
        fut = self.loop.create_future()
        if kind == 1:
            e.obj.register_future(fut)
        else:
            e.obj.register_future(fut, declared)
        e.futs.append((fut, kind, declared))

    def construct(self, cls: str, p: str, n: int | None, timeout: float):
        """
        Call the constructor; returns (object | None, exception | None).
        """
        try:
            if n is None:
                return self.env[cls](self, self.rc, timeout), None
            return self.env[cls](self, self.rc, n, timeout), None
        except RuntimeError as x:
            return None, x

    def new_entry(self, obj, p, n, cls, timeout, beh) -> Entry:
        e = Entry(len(self.entries), obj, p, n, cls, timeout, beh)
        obj.pv_entry = e
        self.entries.append(e)
        self.identities.add((p, n))
        return e

    def op_add(self, p: str, n: int, ti: int, beh: list, fv: int, dup: int, where: str) -> None:
        cls = EXPLICIT_CLS[p]
        timeout = TIMEOUTS[ti]
        cur = self.out.get((p, n))
        obj, exc = self.construct(cls, p, n, timeout)
        if cur is not None:
            # R3: the identity is taken
            self.events["dup"] += 1
            if obj is not None:
                self.fail("R3", "ctor:duplicate", f"NumberCache({p}, {n}) could be constructed while {cur} is outstanding")
            second = cur.twin.obj if (dup == 0 and cur.twin is not None) else cur.obj
            try:
                r = self.rc.add(second)
            except Exception as x:  # noqa: BLE001
                self.fail("R3", "add:duplicate", f"add of a {'second cache' if second is not cur.obj else 'cache twice'} "
                                                 f"for the identity of {cur} raised {x!r} instead of returning None")
            if r is not None:
                self.fail("R3", "add:duplicate", f"add of a {'second cache' if second is not cur.obj else 'cache twice'} "
                                                 f"for the identity of {cur} returned {self.entry_of(r) or r}, not None")
            if self.rc.get(p, n) is not cur.obj:
                self.fail("R3", "add:duplicate", f"after a refused duplicate add, get({p}, {n}) is no longer {cur}")
            return
        if obj is None:
            stale = self.rc.has(p, n)
            self.fail("R2" if stale else "R3", "ctor:free_identity",
                      f"NumberCache({p}, {n}) raised {exc!r} although no request with that identity is outstanding "
                      f"(has()={stale})")
        e = self.new_entry(obj, p, n, cls, timeout, beh)
        twin, _ = self.construct(cls, p, n, timeout)
        if twin is not None:
            e.twin = self.new_entry(twin, p, n, cls, timeout, ["none"])
        if fv:
            self.tie_future(e, fv)
        self.register(e, where)

    def op_add_random(self, p: str, ti: int, beh: list, fv: int, hint: int, where: str) -> None:
        cls = RANDOM_CLS[p]
        timeout = TIMEOUTS[ti]
        taken = sorted(n for (q, n) in self.out if q == p)
        free = [n for n in range(hint, hint + len(taken) + 2) if (p, n) not in self.out]
        _script[:] = [(n + 0.5) / 65536 for n in taken + free]
        _fallback.seed(digest([p, hint, len(self.entries)]))
        try:
            obj, exc = self.construct(cls, p, None, timeout)
        finally:
            del _script[:]
        if obj is None:
            self.fail("R3", "random:ctor", f"RandomNumberCache({p}) raised {exc!r} with only {len(taken)} numbers claimed")
        n = obj.number
        if not isinstance(n, int) or not 0 <= n < 2 ** 16:
            self.fail("R3", "random:range", f"RandomNumberCache({p}) picked number {n!r}")
        if (p, n) in self.out:
            obj.pv_entry = None
            self.fail("R3", "random:claimed", f"RandomNumberCache({p}) picked {n}, which is claimed by {self.out[(p, n)]}")
        e = self.new_entry(obj, p, n, cls, timeout, beh)
        if fv:
            self.tie_future(e, fv)
        self.register(e, where)

    def op_readd(self, slot: int, where: str) -> None:
        """
        Put a resolved cache object back (the same object is registered again).
        """
        cands = [e for e in self.entries if e.status in ("popped", "timedout", "cleared")]
        if not cands or self.is_shutdown:
            return
        e = cands[slot % len(cands)]
        cur = self.out.get((e.p, e.n))
        if cur is not None:
            try:
                r = self.rc.add(e.obj)
            except Exception as x:  # noqa: BLE001
                self.fail("R3", "add:duplicate", f"add of {e} while {cur} holds the identity raised {x!r}")
            if r is not None or self.rc.get(e.p, e.n) is not cur.obj:
                self.fail("R3", "add:duplicate", f"add of {e} while {cur} holds the identity returned "
                                                 f"{self.entry_of(r) or r}; get() = {self.entry_of(self.rc.get(e.p, e.n))}")
            return
        e.futs = [f for f in e.futs if not f[0].done()]
        self.events["readd"] += 1
        self.register(e, where)

    def register(self, e: Entry, where: str) -> None:
        t = self.now()
        try:
            r = self.rc.add(e.obj)
        except Exception as x:  # noqa: BLE001
            self.fail("R5" if self.is_shutdown else "R3", "add:exception" + (":re-added" if e.regs else ""),
                      f"add({e}) raised {x!r}")
        if self.is_shutdown:
            e.status = "refused"
            if r is not None:
                self.fail("R5", "add_after_shutdown", f"add({e}) after shutdown returned the cache instead of None")
            return
        if r is not e.obj:
            self.fail("R3", "add:refused" + (":re-added" if e.regs else ""), f"add({e}) returned {self.entry_of(r) or r} although the identity was free")
        e.status = "out"
        e.regs += 1
        e.deadline = t + self.effective_timeout(e.cls, e.timeout)
        self.all_deadlines.append(e.deadline)
        self.out[(e.p, e.n)] = e

    def claimed(self, e: Entry, t: float, where: str) -> None:
        e.status = "popped"
        del self.out[(e.p, e.n)]
        self.events["pop"] += 1
        if abs(t - e.deadline) <= TOL:
            self.flags.add("race:" + where)
        if where == "on_timeout":
            self.flags.add("pop_in_on_timeout")
        for fut, _, _ in e.futs:
            if fut.done() and id(fut) not in self.owner_settled:
                self.fail("R4", "pop:future", f"{e}: tied future is done right after pop")

    def unexpected_claim(self, got, p: str, n: int, site: str) -> None:
        g = self.entry_of(got)
        status = g.status if g is not None else "unknown"
        clause = {"timedout": "R2", "popped": "R1", "cleared": "R1", "shutdown": "R5", "refused": "R5",
                  "spare": "R3"}.get(status, "R2")
        what = {"timedout": "after its timeout fired", "popped": "a second time", "cleared": "after clear()",
                "shutdown": "after shutdown", "refused": "although its add was refused after shutdown",
                "spare": "although it is a refused duplicate"}.get(status, "")
        self.fail(clause, f"{site}:{status}", f"{site}({p}, {n}) returned {g or got} {what}; no request with this "
                                              f"identity is outstanding")

    def op_pop(self, p: str, n: int, bycls: int, where: str) -> None:
        e = self.out.get((p, n))
        t = self.now()
        try:
            got = self.rc.pop(self.key(p, bycls), n)
        except KeyError:
            got = _KEYERR
        except Exception as x:  # noqa: BLE001
            self.fail("R1", "pop:exception", f"pop({p}, {n}) raised {x!r}")
        if e is None:
            if got is not _KEYERR:
                self.unexpected_claim(got, p, n, "pop")
            self.events["keyerror"] += 1
            if where == "on_timeout":
                self.flags.add("pop_in_on_timeout")
            return
        if got is _KEYERR:
            self.fail("R1", "pop:lost", f"pop({p}, {n}) raised KeyError although {e} is outstanding (deadline in "
                                        f"{e.deadline - t:.4f}s, no on_timeout seen)")
        if got is not e.obj:
            self.fail("R3", "pop:wrong_object", f"pop({p}, {n}) returned {self.entry_of(got) or got}, expected {e}")
        self.claimed(e, t, where)

    def op_lookup(self, kind: str, p: str, n: int, bycls: int) -> None:
        e = self.out.get((p, n))
        if kind == "has":
            r = self.rc.has(self.key(p, bycls), n)
            if bool(r) != (e is not None):
                self.fail("R1" if e is not None else "R2", "has", f"has({p}, {n}) = {r}, model: {e or 'not outstanding'}")
        else:
            r = self.rc.get(self.key(p, bycls), n)
            if r is not (e.obj if e is not None else None):
                self.fail("R1" if e is not None else "R2", "get",
                          f"get({p}, {n}) = {self.entry_of(r) or r}, model: {e or 'not outstanding'}")

    def op_retrieve(self, p: str, n: int, wd: int, where: str) -> None:
        e = self.out.get((p, n))
        t = self.now()
        del self.handler_calls[:]
        handler = self.stub.on_pa if p == "pa" else self.stub.on_pb
        # wd bit 0: the handler is a "_wd" one (raw data follows the payloads); bit 1: an earlier payload of the message
        # also carries an ``identifier`` - the number of another outstanding request of this prefix if there is one -
        # while the documented carrier of the answer's identifier is the LAST payload
        lead = ()
        if wd & 2:
            others = sorted(k[1] for k in self.out if k[0] == p and k[1] != n)
            lead = (self.env["Payload"](others[0] if others else (n + 1) % 6),)
        payloads = (*lead, self.env["Payload"](n), b"raw") if wd & 1 else (*lead, self.env["Payload"](n))
        try:
            r = handler(("1.2.3.4", 5), *payloads)
        except Exception as x:  # noqa: BLE001
            self.fail("R2" if e is None else "R1", "retrieve:exception", f"handler call for {p}:{n} raised {x!r}")
        calls = list(self.handler_calls)
        if e is None:
            if calls:
                self.unexpected_claim(calls[0], p, n, "retrieve")
            if r is not None:
                self.fail("R2", "retrieve:result", f"unmatched handler call returned {r!r}")
            self.events["keyerror"] += 1
            return
        if len(calls) != 1 or calls[0] is not e.obj or r != "handled":
            self.fail("R1", "retrieve:lost", f"handler for {p}:{n} was called with {[self.entry_of(c) or c for c in calls]} "
                                             f"(result {r!r}) although {e} is outstanding")
        self.claimed(e, t, where)

    def op_clear(self, where: str) -> None:
        t = self.now()
        if any(abs(t - e.deadline) <= TOL for e in self.out.values()):
            self.flags.add("race:clear")
        try:
            self.rc.clear()
        except Exception as x:  # noqa: BLE001
            self.fail("R1", "clear:exception", f"clear() raised {x!r}")
        for e in self.out.values():
            e.status = "cleared"
        self.out.clear()

    # ---- main-level operations -----------------------------------------------------------------------
    def target_time(self, k: int, eps: int) -> float:
        ds = sorted({e.deadline for e in self.out.values()})
        if not ds:
            return self.now()
        return ds[k % len(ds)] + eps * EPS

    async def step(self, op: list) -> None:
        kind = op[0]
        if kind == "adv":
            await self.wait_until(self.target_time(op[1], op[2]))
        elif kind == "sleep":
            await self.wait_until(self.now() + op[1])
        elif kind == "at":
            when = max(self.now(), self.target_time(op[1], op[2]))
            self.pending_at.append(when)
            self.loop.call_at(when, self.at_callback, op[3])
        elif kind == "pt":
            if self.pt is None:
                filters, timeout = FILTERS[op[1]], PT_TIMEOUTS[op[2]]
                if filters is None:
                    cm = self.rc.passthrough(timeout=timeout) if timeout else self.rc.passthrough()
                else:
                    cm = self.rc.passthrough(*[self.env[f] for f in filters], timeout=timeout)
                cm.__enter__()
                self.pt, self.pt_cm, self.pt_left = (filters, timeout), cm, op[3] + 1
        elif kind == "shutdown":
            await self.op_shutdown()
        else:
            self.do_sync(op, "main")

    def at_callback(self, inner: list) -> None:
        self.guarded(self._at_callback, inner)

    def _at_callback(self, inner: list) -> None:
        self.check_late()
        self.do_sync(inner, "callback")
        self.check_futures()

    async def op_shutdown(self) -> None:
        t = self.now()
        if self.out:
            self.flags.add("shutdown_outstanding")
            if any(abs(t - e.deadline) <= TOL for e in self.out.values()):
                self.flags.add("race:shutdown")
        for e in self.out.values():
            e.status = "shutdown"
        self.out.clear()
        self.is_shutdown = True
        try:
            await self.rc.shutdown()
        except Exception as x:  # noqa: BLE001
            self.fail("R5", "shutdown:exception", f"shutdown() raised {x!r}")

    def close_passthrough(self) -> None:
        if self.pt_cm is not None:
            self.pt_cm.__exit__(None, None, None)
        self.pt, self.pt_cm, self.pt_left = None, None, 0

    def after_main_op(self) -> None:
        self.raise_if_failed()
        self.check_late()
        self.check_table()
        self.check_futures()
        if self.pt is not None:
            self.pt_left -= 1
            if self.pt_left <= 0:
                self.close_passthrough()

    async def go(self) -> "Run":
        self.t0 = self.now()
        for op in self.ops:
            await self.step(op)
            self.after_main_op()
        self.close_passthrough()
        # drain: past every deadline that was ever set (also of claimed / cleared / shut down requests) and every
        # scheduled callback, so that a timeout that must not fire has had its chance to
        for _ in range(100):
            t = self.now()
            later = [d for d in self.all_deadlines + self.pending_at if d >= t - TOL]
            if not later:
                break
            await self.wait_until(max(later) + 2 * EPS)
            await asyncio.sleep(0)
            self.after_main_op()
        else:
            raise HarnessError("drain did not terminate")
        if self.out:
            raise HarnessError(f"model still has outstanding requests after the drain: {list(self.out.values())}")
        if not self.is_shutdown:
            await self.op_shutdown()
        await asyncio.sleep(0)
        await asyncio.sleep(0)
        self.after_main_op()
        for ctxt in self.loop.escaped:
            x = ctxt.get("exception")
            self.fail("R1", "escaped:" + type(x).__name__, f"exception escaped a RequestCache task: {ctxt.get('message')} {x!r}")
        return self


def execute(ctx: Ctx | None, ops: list) -> Run:
    from .. import vloop
    case = {"ops": ops}
    box: list[Run] = []

    async def main(loop):
        run = Run(loop, ops, case)
        box.append(run)
        return await run.go()

    try:
        vloop.run(main)
    finally:
        del _script[:]
        if ctx is not None and box:
            run = box[0]
            flags = sorted(run.flags)
            ctx.case(digest(json.dumps(ops)), bool(flags), sample=case,
                     cls="+".join(sorted({f.split(":")[0] for f in flags})) if flags else "plain")
            for f in flags:
                ctx.count("flag:" + f)
            for k, v in run.events.items():
                if v:
                    ctx.count("event:" + k, v)
    return box[0]


# ---- bounded-exhaustive part ---------------------------------------------------------------------------

A0 = ["add", "pa", 0, 1, ["none"], 1, 0]
A1 = ["add", "pa", 1, 1, ["pop", "pa", 0], 0, 0]
A2 = ["add", "pa", 0, 0, ["addself", 0], 2, 1]
A3 = ["add", "pa", 1, 0, ["popself"], 3, 0]
AR = ["addr", "pa", 1, ["none"], 0, 0]
P0 = ["pop", "pa", 0, 0]
V0, VM, VP = ["adv", 0, 0], ["adv", 0, -1], ["adv", 0, 1]
AT = ["at", 0, 0, ["pop", "pa", 0, 0]]
SH, CL, PT = ["shutdown"], ["clear"], ["pt", 0, 0, 1]
RT = ["retrieve", "pa", 0, 0]
RE = ["readd", 0]
AL = ["add", "pa", 1, 4, ["none"], 1, 0]       # 2000 s
AM = ["add", "pb", 2, 3, ["none"], 2, 0]       # 700 s
SL = ["sleep", 250.0]

ALPHABETS = {
    "schedule": [A0, A1, A2, P0, V0, VM, VP, AT],
    "lifecycle": [A0, A3, AR, SH, CL, PT, V0, RT],
    "reuse": [A0, RE, P0, V0, VM, VP, CL, SH],
    "schedule-core": [A0, A1, P0, V0, VP, AT],
    "lifecycle-core": [A0, A3, SH, CL, PT, V0],
    "long": [AL, AM, A0, SL, P0, V0, VP, SH],
}
ADDS = ("add", "addr")


def _exhaustive_shard(ctx: Ctx, shard: int, nshards: int, plan: list) -> None:
    for name, depth in plan:
        alpha = ALPHABETS[name]
        is_add = [a[0] in ADDS for a in alpha]
        # on an empty cache every other letter is a no-op, so a word starting with one repeats a shorter word
        opening = [a[0] in ADDS or a[0] in ("pt", "shutdown") for a in alpha]
        k = 0
        for d in range(1, depth + 1):
            for word in itertools.product(range(len(alpha)), repeat=d):
                # a word that registers nothing has nothing to resolve
                if not opening[word[0]] or not any(is_add[i] for i in word):
                    continue
                k += 1
                if k % nshards != shard:
                    continue
                try:
                    execute(ctx, [alpha[i] for i in word])
                except Violation as v:
                    ctx.violation(v)
        ctx.note("exhaustive:" + name, depth)


# ---- Hypothesis part -----------------------------------------------------------------------------------

def _strategies():
    from hypothesis import strategies as st
    prefix = st.sampled_from(PREFIXES)
    number = st.integers(0, 3)
    ti = st.sampled_from([0, 1, 1, 2, 3, 4])
    beh = st.one_of(st.just(["none"]), st.just(["none"]), st.tuples(st.just("pop"), prefix, number).map(list),
                    st.just(["popself"]), st.tuples(st.just("add"), prefix, number, ti).map(list),
                    st.tuples(st.just("addself"), ti).map(list))
    fv = st.integers(0, 3)
    add = st.tuples(st.just("add"), prefix, number, ti, beh, fv, st.integers(0, 1)).map(list)
    addr = st.tuples(st.just("addr"), prefix, ti, beh, fv, st.integers(0, 5)).map(list)
    pop = st.tuples(st.just("pop"), prefix, st.integers(0, 5), st.integers(0, 1)).map(list)
    popc = st.tuples(st.just("popc"), st.integers(0, 30)).map(list)
    popd = st.tuples(st.just("popd"), st.integers(0, 3), st.integers(0, 5)).map(list)
    get = st.tuples(st.sampled_from(["get", "has"]), prefix, st.integers(0, 5), st.integers(0, 1)).map(list)
    retrieve = st.tuples(st.just("retrieve"), prefix, st.integers(0, 5), st.integers(0, 3)).map(list)
    future = st.tuples(st.just("future"), st.integers(0, 30), st.integers(1, 3)).map(list)
    settle = st.tuples(st.just("settle"), st.integers(0, 30), st.integers(0, 1)).map(list)
    eps = st.sampled_from([-1, 0, 0, 1])
    adv = st.tuples(st.just("adv"), st.integers(0, 5), eps).map(list)
    sleep = st.tuples(st.just("sleep"), st.sampled_from([0, 0.1, 0.4, 0.5, 0.9, 1.0, 4.0, 5.0, 250.0, 950.0])).map(list)
    inner = st.one_of(pop, popc, popd, popd, popd, retrieve, add, get, st.just(["clear"]))
    at = st.tuples(st.just("at"), st.integers(0, 5), eps, inner).map(list)
    pt = st.tuples(st.just("pt"), st.integers(0, len(FILTERS) - 1), st.integers(0, 2), st.integers(1, 3)).map(list)
    rare = st.sampled_from([["clear"], ["shutdown"]])
    readd = st.tuples(st.just("readd"), st.integers(0, 5)).map(list)
    op = st.one_of(add, add, add, addr, pop, popc, popd, popd, popd, retrieve, adv, adv, adv, adv, sleep, at, at, pt, get,
                   future, future, settle, rare, readd)
    adds = st.lists(st.one_of(add, add, addr), min_size=1, max_size=3)
    # motifs that aim a claim / clear / shutdown at a deadline; single ops fill the space between them
    motif = st.one_of(
        op.map(lambda o: [o]), op.map(lambda o: [o]),
        st.tuples(adds, adv, st.one_of(popd, popd, rare)).map(lambda t: [*t[0], t[1], t[2]]),
        st.tuples(adds, at, adv).map(lambda t: [*t[0], t[1], t[2]]),
        st.tuples(pt, adds).map(lambda t: [t[0], *t[1]]),
        # several futures tied to one request, an early one settled by its owner, then the deadline
        st.tuples(add, st.integers(1, 3), st.integers(1, 3), st.integers(0, 1), adv).map(
            lambda t: [t[0], ["future", 0, t[1]], ["future", 0, t[2]], ["settle", 0, t[3]], t[4]]),
    )
    return st.lists(motif, max_size=12).map(lambda ms: [o for m in ms for o in m][:40])


def _random_shard(ctx: Ctx, shard: int, nshards: int, n: int) -> None:
    hyp_run(ctx, "oplists", _strategies(), lambda ops: execute(ctx, ops), n)


def run(ctx: Ctx) -> None:
    if ctx.quick:
        plan = [("schedule", 6), ("lifecycle", 6), ("reuse", 6), ("long", 4)]
        n = 700
    else:
        plan = [("schedule", 7), ("lifecycle", 7), ("reuse", 8), ("schedule-core", 8), ("lifecycle-core", 8), ("long", 6)]
        n = 12000
    shard_run(ctx, _exhaustive_shard, extra=(plan,))
    shard_run(ctx, _random_shard, extra=(n,))
    ctx.note("alphabets", {k: v for k, v in ALPHABETS.items() if any(k == p[0] for p in plan)})
    ctx.note("eps", EPS)


def replay(ctx: Ctx, case: dict) -> None:
    execute(None, case["ops"])
