"""
C09 - tunnel state is always reclaimed, whatever gets lost.

A scenario builds a circuit X (1-3 hops) next to an unrelated, continuously used circuit U, optionally pushes data,
lets one party tear X down (originator / a relay / the exit / nobody / the originator silently disappears), while a
set of flights of the scenario is dropped, duplicated or delayed. Virtual time then advances to the deadline D derived
from the settings. Oracle at D ("no orphans"): on every node the only circuit / relay / exit entries left are those
reachable from a READY circuit at its originator by following the routing tables, and every outside socket that is
still open belongs to such an exit entry; U is untouched and still carries data.

Also: the join limit (max_joined_circuits) and the relay_early budget are exercised with drawn settings.
"""
from __future__ import annotations

import asyncio
import itertools

from .. import vloop
from ..core import Ctx, Violation, hyp_run, shard_run
from ..tunnelsim import World, parse_cell

PID = "C09"
LEVEL = "fault_enumeration"
RULE = ("scenario = (hops 1..3, phase in ready / mid-transfer / building, teardown by originator / relay k / exit / nobody / "
        "originator vanishes) x fault set over the flights of the scenario (each of drop / duplicate / delay 30 s): all "
        "single faults over the first 24 flights exhaustively per scenario (thorough adds all fault "
        "pairs for 2-hop scenarios), Hypothesis-drawn larger fault sets; plus join-limit and "
        "relay_early sub-checks with drawn limits; race = the first data cell reaches the exit while a teardown's linger "
        "runs out and opening an outside socket takes virtual time (latencies x gap grid + drawn); clause R3: with no "
        "fault at all the destroy message removes every entry of X within remove_tunnel_delay + 1 s; maintained = a node that "
        "keeps N circuits alive through build_tunnels (start offset in its periodic cycle x application teardown time x "
        "which attempt never gets an answer, grid + drawn), serves as somebody's exit, then everybody else vanishes: all "
        "entries it held at that moment must be gone at the bound. Non-trivial = at least one control message (create/created/extend/"
        "extended/destroy) of X was lost or delayed so that a timer has to reclaim; distinct = (scenario, fault set).")
ASSUMPTIONS = [
    "deadline D = circuit_timeout + unstable_timeout + max_time_inactive + sweep interval + ping interval + "
    "2 * remove_tunnel_delay + 30 s slack, computed from the node's settings (liveness is judged at D only)",
    "faults hit datagrams only; nodes do not crash (except the 'vanish' scenario: the originator's endpoint closes)",
]

KINDS = ["drop", "dup", "delay"]
TEARDOWN = ["originator", "relay0", "relay1", "exit", "nobody", "vanish"]


def deadline(settings) -> float:
    from ipv8.messaging.anonymization.tunnel import PING_INTERVAL
    return (settings.circuit_timeout + settings.unstable_timeout + settings.max_time_inactive + 5 + PING_INTERVAL
            + 2 * settings.remove_tunnel_delay + 30)


class Scenario:
    def __init__(self, case: dict) -> None:
        self.case = case
        self.info = {"nontrivial": False, "cls": "", "desc": None, "flights": 0}

    def fail(self, clause: str, site: str, msg: str) -> None:
        raise Violation(clause, site, msg, self.case)

    def reachable(self, w: World) -> tuple[set, set]:
        """
        (node idx, table, id) entries reachable from READY circuits at their originators; and the exit sockets among them.
        """
        ok, socks = set(), set()
        for nd in w.nodes:
            for cid, circ in nd.overlay.circuits.items():
                if circ.state != "READY" or not nd.raw_endpoint.is_open():
                    continue
                chain = [(nd.idx, "circuits", cid)]
                cur, good = cid, True
                for hop_node in w.path(circ):
                    if hop_node is None:
                        good = False
                        break
                    ov = hop_node.overlay
                    if cur in ov.relay_from_to:
                        nxt = ov.relay_from_to[cur].circuit_id
                        chain += [(hop_node.idx, "relays", cur), (hop_node.idx, "relays", nxt)]
                        cur = nxt
                    elif cur in ov.exit_sockets:
                        chain.append((hop_node.idx, "exits", cur))
                        socks.add(id(ov.exit_sockets[cur]))
                    else:
                        good = False
                        break
                if good:
                    ok |= set(chain)
        return ok, socks

    async def main(self, loop: vloop.VirtualLoop) -> None:
        c = self.case
        hops = c["hops"]
        ro = int(c.get("relay_only") or 0)
        flags = None
        if ro:
            # some of the nodes X may run through are relays only (the library's default peer flags): they never serve as
            # an exit, yet every node a circuit is extended to first holds an exit entry for it until its own next hop
            # has answered. Nodes 0 and -1 (the originators) and at least one more node stay exit-capable.
            from ipv8.messaging.anonymization.tunnel import (PEER_FLAG_EXIT_BT, PEER_FLAG_EXIT_IPV8, PEER_FLAG_RELAY,
                                                            PEER_FLAG_SPEED_TEST)
            only = {1} if ro == 1 or hops == 1 else {1, 2}

            def flags(i):
                return {PEER_FLAG_RELAY, PEER_FLAG_SPEED_TEST} if i in only else \
                    {PEER_FLAG_RELAY, PEER_FLAG_EXIT_BT, PEER_FLAG_EXIT_IPV8, PEER_FLAG_SPEED_TEST}
        w = World(loop, hops + 3, flags=flags)
        if c.get("no6"):
            loop.ipv6_available = False         # hosts without IPv6: the second outside socket of an exit cannot be opened
        try:
            st = w.nodes[0].overlay.settings
            D = deadline(st)
            origin_u, origin = w.nodes[-1], w.nodes[0]
            # X's originator is nobody's relay (it may vanish in a scenario; that must not take U down with it)
            opk = origin.key.pub().key_to_bin()
            for nd in w.nodes[1:]:
                for peer in list(nd.overlay.candidates):
                    if peer.public_key.key_to_bin() == opk:
                        nd.overlay.candidates.pop(peer)
            # U: unrelated circuit, kept busy for the whole run
            u = await w.build_circuit(origin_u, min(2, hops), seed=c["seed"] + 17)
            if u is None:
                self.fail("U", "build", "unrelated circuit not built")
            u_entries, _ = self.reachable(w)
            start = w.net.seq
            faults = {f[0]: f[1] for f in c["faults"]}
            control_hit = []

            def hook(fl):
                n = fl.seq - start - 1
                kind = faults.get(n)
                cell = parse_cell(fl.data, w.prefix)
                is_u = cell is not None and any(cell["circuit_id"] == e[2] for e in u_entries)
                if kind is None or is_u or fl.origin is origin_u.raw_endpoint:
                    return None
                is_control = (cell is None and len(fl.data) > 22 and fl.data[22] == 8) or \
                             (cell is not None and (cell["plaintext"] or cell["relay_early"]))
                if kind == "drop":
                    if is_control:
                        control_hit.append(n)
                    return []
                if kind == "dup":
                    w.net.inject(fl.src, fl.dst, fl.data, note="dup")
                    return None
                if kind == "delay":
                    if is_control:
                        control_hit.append(n)
                    loop.call_later(30.0, w.net.inject, fl.src, fl.dst, bytes(fl.data), "late")
                    return []
                return None
            w.net.on_send = hook
            import random
            random.seed(c["seed"])
            # optionally the nodes that X will run through want circuits of their own but cannot build any (they know no
            # candidates): their periodic builder keeps failing while the sweep must go on all the same
            if c.get("demand"):
                for nd in w.nodes[1:-1]:
                    nd.overlay.candidates.clear()
                    nd.overlay.circuits_needed[1] = 1
            early = {"held": [], "created": False, "done": not (c.get("early") and hops >= 2)}
            if not early["done"]:
                # the originator uses the half-built circuit (legal for a remote originator): its extend is held back until
                # a datagram has exited through the first hop, which then turns from exit into relay
                inner_hook = w.net.on_send

                def early_hook(fl):
                    cell = parse_cell(fl.data, w.prefix)
                    if cell is not None and not early["done"]:
                        if cell["plaintext"] and cell["message"][:1] == b"\x03" and fl.dst == origin.address:
                            early["created"] = True
                        elif not cell["plaintext"] and fl.origin is origin.raw_endpoint and early["created"] and \
                                not early["held"]:
                            early["held"].append(fl)
                            return []
                    return inner_hook(fl)
                w.net.on_send = early_hook
            x = origin.overlay.create_circuit(hops)
            if x is None:
                self.fail("U", "build", "circuit X could not be started")
            if not early["done"]:
                await w.net.settle()
                if early["held"] and x.hops:
                    origin.overlay.send_data(x.hop.address, x.circuit_id, ("5.5.5.5", 5555), ("0.0.0.0", 0), b"d5:earlye")
                    await asyncio.sleep(0.2)
                early["done"] = True
                w.net.on_send = inner_hook
                for fl in early["held"]:
                    w.net.inject(fl.src, fl.dst, fl.data, note="extend released")
            await asyncio.sleep(0.5 if c["phase"] != "building" else 0.0)
            if c["phase"] == "transfer" and x.state == "READY":
                for i in range(3):
                    origin.overlay.send_data(x.hop.address, x.circuit_id, ("5.5.5.5", 5555), ("0.0.0.0", 0),
                                             b"d2:xx%de" % i)
            td = c["teardown"]
            race = c.get("race")
            if race is not None and x.state == "READY":
                # opening an outside socket takes (virtual) time; the FIRST data cell of X reaches the exit shortly before
                # the exit entry's linger runs out, so the teardown lands while the sockets are being opened
                loop.open_latency = {"0.0.0.0": race[0] / 1000.0, "::": race[1] / 1000.0}
                loop.call_later(st.remove_tunnel_delay - race[2] / 1000.0, origin.overlay.send_data, x.hop.address,
                                x.circuit_id, ("5.5.5.5", 5555), ("0.0.0.0", 0), b"d4:racee")
            path = [n for n in w.path(x) if n is not None]
            # the ids circuit X uses at each node of its path (followed through the tables right now)
            x_ids: dict[int, list] = {}
            cur = x.circuit_id
            for nd in path:
                if cur in nd.overlay.relay_from_to:
                    nxt = nd.overlay.relay_from_to[cur].circuit_id
                    x_ids[nd.idx] = [cur, nxt]
                    cur = nxt
                elif cur in nd.overlay.exit_sockets:
                    x_ids[nd.idx] = [cur]
                else:
                    break
            if td == "originator":
                origin.overlay.remove_circuit(x.circuit_id, "test", destroy=True)
            elif td in ("relay0", "relay1"):
                k = int(td[-1])
                if k < len(path) - 1:
                    nd = path[k]
                    for cid in x_ids.get(nd.idx, []):
                        if cid in nd.overlay.relay_from_to:
                            nd.overlay.remove_relay(cid, "test", destroy=True)
            elif td == "exit":
                if path:
                    nd = path[-1]
                    for cid in x_ids.get(nd.idx, []):
                        if cid in nd.overlay.exit_sockets and cid not in nd.overlay.relay_from_to:
                            nd.overlay.remove_exit_socket(cid, "test", destroy=True)
            elif td == "vanish":
                origin.raw_endpoint.close()
            self.info["flights"] = w.net.seq - start
            t_td = loop.time()
            if not c["faults"] and race is None and td in ("originator", "relay0", "relay1", "exit") and \
                    x.state in ("READY", "CLOSING") and len(x_ids) == hops and not c.get("demand"):
                # nothing is lost and the destroy message arrives everywhere: every node drops X's entries through the
                # destroy message, i.e. one linger period after the teardown - it does not take the inactivity limits
                x_socks = [t for nd in path for cid in x_ids.get(nd.idx, []) if cid in nd.overlay.exit_sockets
                           for t in (nd.overlay.exit_sockets[cid].transport_ipv4, nd.overlay.exit_sockets[cid].transport_ipv6)
                           if t is not None]
                await asyncio.sleep(st.remove_tunnel_delay + 1.0)
                left = [(nd.idx, name, cid) for nd in path for cid in x_ids.get(nd.idx, [])
                        for tbl, name in ((nd.overlay.relay_from_to, "relays"), (nd.overlay.exit_sockets, "exits"))
                        if cid in tbl]
                if x.circuit_id in origin.overlay.circuits:
                    left.append((origin.idx, "circuits", x.circuit_id))
                if left:
                    self.fail("R3", "destroy_not_followed", f"teardown={td} with no message lost: "
                              f"{st.remove_tunnel_delay + 1:.0f} s later the destroy has not removed {left}")
                if any(not t.closed for t in x_socks):
                    self.fail("R3", "destroy_not_followed:socket", f"teardown={td} with no message lost: "
                              f"{st.remove_tunnel_delay + 1:.0f} s later an outside socket of X's exit is still open")
            # U keeps carrying data during the whole period
            t_end = t_td + D
            chat: list = []
            while loop.time() < t_end:
                await asyncio.sleep(10.0)
                if c.get("chatter"):
                    for nd in path:
                        for cid in x_ids.get(nd.idx, []):
                            sock = nd.overlay.exit_sockets.get(cid)
                            if sock is not None and sock.transport_ipv4 is not None and sock.transport_ipv4 not in chat:
                                chat.append(sock.transport_ipv4)
                for t in chat:
                    # the outside world keeps answering X's exit socket (it knows nothing about the circuit's fate)
                    if not t.closed:
                        t.inject(b"d1:rd2:id20:abcdefghij0123456789e1:t2:aa1:y1:re", ("5.5.5.5", 5555))
                if u.state == "READY":
                    origin_u.overlay.send_data(u.hop.address, u.circuit_id, ("6.6.6.6", 6666), ("0.0.0.0", 0), b"d1:ue")
            w.net.on_send = None
            await asyncio.sleep(0.5)
            # ---- judge at D ----
            ok, socks = self.reachable(w)
            if not u_entries <= ok:
                self.fail("R2", "unrelated", f"entries of the unrelated circuit disappeared: {sorted(u_entries - ok)}")
            for nd in w.nodes:
                for table, name in ((nd.overlay.circuits, "circuits"), (nd.overlay.relay_from_to, "relays"),
                                    (nd.overlay.exit_sockets, "exits")):
                    for cid in table:
                        if (nd.idx, name, cid) not in ok:
                            role = "originator" if nd is origin else "path"
                            self.fail("R1", f"orphan:{name}:{role}",
                                      f"{D:.0f} s after teardown={td} (faults {c['faults']}) node {nd.idx} still has a "
                                      f"{name} entry {cid} that belongs to no working circuit")
            owned = set()
            for nd in w.nodes:
                for sock in nd.overlay.exit_sockets.values():
                    if id(sock) in socks:
                        owned |= {id(sock.transport_ipv4), id(sock.transport_ipv6)}
            for t in loop.transports:
                if not t.closed and id(t) not in owned:
                    self.fail("R1", "socket", f"an outside socket {t.local_addr} is still open {D:.0f} s after teardown={td} "
                                              f"although no exit entry owns it")
            before = sum(len(t.sent) for t in loop.transports)
            origin_u.overlay.send_data(u.hop.address, u.circuit_id, ("6.6.6.6", 6666), ("0.0.0.0", 0), b"d4:laste")
            await asyncio.sleep(0.3)
            if sum(len(t.sent) for t in loop.transports) != before + 1:
                self.fail("R2", "unrelated", "the unrelated circuit no longer carries data at the deadline")
            if w.net.escaped:
                e = w.net.escaped[0][3]
                self.fail("R1", "exception:" + type(e).__name__, f"{type(e).__name__}: {e} escaped the receive path")
            self.info["nontrivial"] = bool(control_hit) or td == "vanish" or race is not None or bool(chat)
            self.info["cls"] = "%dhop/%s/%s/%dfaults%s%s" % (hops, c["phase"], td, len(c["faults"]),
                                                            "/demand" if c.get("demand") else "",
                                                            "/race" if race is not None else "/chatter" if c.get("chatter")
                                                            else "/early" if c.get("early") else "") + ("/no6" if c.get("no6") else "") + \
                ("/relay_only%d" % ro if ro else "")
            self.info["desc"] = (hops, c["phase"], td, tuple(map(tuple, c["faults"])), bool(c.get("demand")),
                                 tuple(race) if race is not None else None, bool(c.get("chatter")), bool(c.get("early")), bool(c.get("no6")))
        finally:
            w.net.on_send = None
            await w.close()


def run_case(ctx: Ctx | None, case: dict) -> dict:
    if case.get("sub") == "join_limit":
        return run_join_limit(ctx, case)
    if case.get("sub") == "relay_early":
        return run_relay_early(ctx, case)
    if case.get("sub") == "maintained":
        return run_maintained(ctx, case)
    s = Scenario(case)
    try:
        vloop.run(s.main)
    finally:
        if ctx is not None and s.info["desc"] is not None:
            ctx.case(s.info["desc"], s.info["nontrivial"], cls=s.info["cls"], sample=case)
    return s.info


# ---- limits ------------------------------------------------------------------------------------------------------

def run_join_limit(ctx: Ctx | None, case: dict) -> dict:
    k = case["limit"]

    async def main(loop):
        w = World(loop, 4)
        try:
            target = w.nodes[1]
            target.overlay.settings.max_joined_circuits = k
            tp = [p for p in w.nodes[0].overlay.candidates if p.public_key.key_to_bin() == target.key.pub().key_to_bin()][0]
            built = 0
            for i in range(k + 2):
                origin = w.nodes[0] if i % 2 == 0 else w.nodes[2]
                tp = [p for p in origin.overlay.candidates if p.public_key.key_to_bin() == target.key.pub().key_to_bin()][0]
                before = len(target.overlay.exit_sockets) + len(target.overlay.relay_from_to)
                created_before = len([f for f in w.net.log if f.origin is target.raw_endpoint])
                circ = await w.build_circuit(origin, 1, seed=case["seed"] + i, timeout=3, required_exit=tp)
                after = len(target.overlay.exit_sockets) + len(target.overlay.relay_from_to)
                created_after = len([f for f in w.net.log if f.origin is target.raw_endpoint])
                if before >= k:
                    if circ is not None or after != before or created_after != created_before:
                        raise Violation("R3", "join_limit", f"node at its joined-circuit limit {k} accepted another create "
                                                            f"(entries {before}->{after}, answered: {created_after - created_before})", case)
                else:
                    if circ is None:
                        raise Violation("R3", "join_limit:refuses_below", f"create refused below the limit ({before} < {k})", case)
                    built += 1
        finally:
            await w.close()
    vloop.run(main)
    if ctx is not None:
        ctx.case(("join_limit", k, case["seed"]), True, cls="join_limit")
    return {}


def run_maintained(ctx: Ctx | None, case: dict) -> dict:
    """
    Node O keeps ``want`` circuits of ``hops`` hops alive through its periodic builder (build_tunnels), serves as exit of
    somebody else's 1-hop circuit, loses every answer to one of its creates, and has one circuit torn down by the
    application ``t1`` seconds in. Then every other node vanishes without a word. Whatever O held at that moment belongs
    to no working circuit any more: the limits must have removed all of it within the bound (entries of attempts O
    starts afterwards are not judged).
    """
    hops, want, lost, t1 = case["hops"], case["want"], case["lost"], case["t1"]
    info = {"nt": False}

    async def main(loop):
        w = World(loop, hops + 3)
        try:
            O, P = w.nodes[0], w.nodes[-1]
            st = O.overlay.settings
            D = deadline(st)
            opeer = [p for p in P.overlay.candidates if p.public_key.key_to_bin() == O.key.pub().key_to_bin()][0]
            for nd in w.nodes[1:-1]:
                for peer in list(nd.overlay.candidates):       # P is nobody's relay or exit
                    if peer.public_key.key_to_bin() == P.key.pub().key_to_bin():
                        nd.overlay.candidates.pop(peer)
            for peer in list(O.overlay.candidates):
                if peer.public_key.key_to_bin() == P.key.pub().key_to_bin():
                    O.overlay.candidates.pop(peer)
            pc = await w.build_circuit(P, 1, seed=case["seed"], required_exit=opeer)
            if pc is None:
                raise Violation("U", "build", "1-hop circuit through O not built", case)
            P.overlay.send_data(pc.hop.address, pc.circuit_id, ("5.5.5.5", 5555), ("0.0.0.0", 0), b"d1:pe")
            seen: list = []

            def hook(fl):
                cell = parse_cell(fl.data, w.prefix)
                if cell is not None and cell["plaintext"] and cell["message"][:1] == b"\x03" and fl.dst == O.address:
                    if cell["circuit_id"] not in seen:
                        seen.append(cell["circuit_id"])
                    if lost >= 0 and len(seen) > lost and cell["circuit_id"] == seen[lost]:
                        return []
                return None
            w.net.on_send = hook
            import random
            random.seed(case["seed"])
            st.max_circuits = want
            await asyncio.sleep(case.get("delay", 0))      # where in O's periodic cycle the first attempts start
            t0 = loop.time()
            O.overlay.build_tunnels(hops)
            gave_up = False
            torn = False
            t_v = t0 + case["vanish"]
            while loop.time() < t_v:
                await asyncio.sleep(0.5)
                gave_up = gave_up or any(x.state == "CLOSING" and not x.hops for x in O.overlay.circuits.values())
                if not torn and loop.time() - t0 >= t1:
                    ready = [x for x in O.overlay.circuits.values() if x.state == "READY" and len(x.hops) == hops]
                    if ready:
                        O.overlay.remove_circuit(ready[0].circuit_id, "the application is done with it", destroy=True)
                        torn = True
            for nd in w.nodes[1:]:
                nd.raw_endpoint.close()
            t_v = loop.time()
            held = [(name, cid) for tbl, name in ((O.overlay.circuits, "circuits"), (O.overlay.relay_from_to, "relays"),
                                                  (O.overlay.exit_sockets, "exits")) for cid in tbl]
            old_socks = [t for t in loop.transports if not t.closed]
            while loop.time() < t_v + D:
                await asyncio.sleep(10.0)
            w.net.on_send = None
            for tbl, name in ((O.overlay.circuits, "circuits"), (O.overlay.relay_from_to, "relays"),
                              (O.overlay.exit_sockets, "exits")):
                for cid, obj in tbl.items():
                    if obj.creation_time < t_v:
                        raise Violation("R1", f"orphan:{name}:maintained",
                                        f"{D:.0f} s after every other node vanished, node O (which keeps {want} circuits of "
                                        f"{hops} hops alive; created answers of one attempt lost; one circuit torn down by the "
                                        f"application at t={t1}) still has the {name} entry {cid} it held at that moment "
                                        f"(state {getattr(obj, 'state', '-')}, last activity "
                                        f"{loop.time() - obj.last_activity:.0f} s ago)", case)
            owned = {id(t) for sock in O.overlay.exit_sockets.values() for t in (sock.transport_ipv4, sock.transport_ipv6)}
            for t in old_socks:
                if not t.closed and id(t) not in owned and any(t in (s_.transport_ipv4, s_.transport_ipv6) for s_ in ()):
                    pass
            for t in old_socks:
                if not t.closed and id(t) not in owned:
                    own_nodes = [nd.idx for nd in w.nodes[1:] for sock in nd.overlay.exit_sockets.values()
                                 if t in (sock.transport_ipv4, sock.transport_ipv6)]
                    if not own_nodes:
                        raise Violation("R1", "socket:maintained", f"an outside socket {t.local_addr} opened before the other "
                                                                   f"nodes vanished is still open {D:.0f} s later although no "
                                                                   f"exit entry owns it", case)
            info["nt"] = bool(held) and (gave_up or torn)
            info["cls"] = "maintained/%dhop/want%d/%s/%s" % (hops, want, "gave_up" if gave_up else "all_answered",
                                                            "torn" if torn else "kept")
        finally:
            w.net.on_send = None
            await w.close()
    vloop.run(main)
    if ctx is not None:
        ctx.case(("maintained", hops, want, lost, t1, case["vanish"], case.get("delay", 0), case["seed"]), info["nt"], cls=info.get("cls", "maintained"),
                 sample=case)
    return {}


def run_relay_early(ctx: Ctx | None, case: dict) -> dict:
    limit, burst = case["limit"], case["burst"]

    async def main(loop):
        w = World(loop, 3, _max_relay_early=limit)
        try:
            for nd in w.nodes:
                nd.overlay.settings.max_relay_early = limit
            origin = w.nodes[0]
            circ = await w.build_circuit(origin, 2, seed=case["seed"])
            if circ is None:
                if limit < 2:
                    return      # with a budget below what the handshake itself needs no circuit can exist
                raise Violation("R4", "relay_early:build", f"2-hop circuit not built with max_relay_early={limit}", case)
            relay = w.path(circ)[0]
            nxt = w.path(circ)[1]
            mark = w.net.seq
            for i in range(burst):
                circ.relay_early_count = 0      # a misbehaving originator keeps setting the flag
                origin.overlay.send_data(circ.hop.address, circ.circuit_id, ("5.5.5.5", 5555), ("0.0.0.0", 0), b"d1:%de" % i)
            await asyncio.sleep(0.5)
            flagged_in = flagged_out = 0
            for fl in w.net.log:
                cell = parse_cell(fl.data, w.prefix)
                if cell is None or not cell["relay_early"]:
                    continue
                if fl.origin is relay.raw_endpoint and fl.dst == nxt.address:
                    flagged_out += 1
                if fl.seq > mark and fl.origin is origin.raw_endpoint:
                    flagged_in += 1
            if flagged_out > limit:
                raise Violation("R4", "relay_early", f"relay forwarded {flagged_out} relay_early cells on one circuit, "
                                                     f"limit is {limit} ({flagged_in} offered)", case)
            # the other direction: a misbehaving exit sets the flag (one unencrypted header byte) on every cell it sends
            # back; the relay's budget holds for the circuit, whichever side spends it
            def flag(fl):
                cell = parse_cell(fl.data, w.prefix)
                if cell is not None and not cell["plaintext"] and fl.origin is nxt.raw_endpoint and fl.dst == relay.address:
                    fl.data = fl.data[:28] + b"\x01" + fl.data[29:]
                return None
            w.net.on_send = flag
            mark2 = w.net.seq
            outs = [t for t in loop.transports if not t.closed and t.local_addr[0] == "0.0.0.0" and t.sent]
            for i in range(burst if outs else 0):
                outs[0].inject(b"d1:rd2:id20:abcdefghij0123456789e1:t2:%02de1:y1:re" % (i % 100), ("5.5.5.5", 5555))
            await asyncio.sleep(0.5)
            w.net.on_send = None
            back_in = back_out = 0
            for fl in w.net.log:
                cell = parse_cell(fl.data, w.prefix)
                if cell is None or not cell["relay_early"] or fl.seq <= mark2:
                    continue
                if fl.origin is relay.raw_endpoint and fl.dst == origin.address:
                    back_out += 1
                if fl.origin is nxt.raw_endpoint:
                    back_in += 1
            if back_out > limit:
                raise Violation("R4", "relay_early:backward", f"relay forwarded {back_out} relay_early cells towards the "
                                                              f"originator on one circuit, limit is {limit} ({back_in} offered "
                                                              f"by the exit side)", case)
        finally:
            await w.close()
    vloop.run(main)
    if ctx is not None:
        ctx.case(("relay_early", limit, burst, case["seed"]), burst > limit, cls="relay_early")
    return {}


# ---- enumeration ---------------------------------------------------------------------------------------------------

def scenarios() -> list[dict]:
    out = []
    for hops in (1, 2, 3):
        for phase in ("ready", "transfer", "building"):
            for td in TEARDOWN:
                if td == "relay0" and hops < 2 or td == "relay1" and hops < 3:
                    continue
                if phase == "building" and td in ("relay0", "relay1", "exit"):
                    continue
                out.append({"hops": hops, "phase": phase, "teardown": td})
    return out


def _enum_shard(ctx: Ctx, shard: int, nshards: int, which: int, pairs: bool) -> None:
    scs = scenarios()
    if which >= 0:
        scs = [s for i, s in enumerate(scs) if i % 3 == which % 3]
    jobs = []
    for s in scs:
        jobs.append({**s, "seed": 5, "faults": []})
        jobs.append({**s, "seed": 5, "faults": [], "demand": True})
        for n in range(0, 24, 3):
            jobs.append({**s, "seed": 5, "faults": [[n, "drop"]], "demand": True})
        for n in range(24):
            for kind in KINDS:
                jobs.append({**s, "seed": 5, "faults": [[n, kind]]})
        if s["hops"] >= 2 and s["teardown"] in ("vanish", "originator"):
            # relays that are no exits, one control message lost anywhere
            for ro in (1, 2):
                jobs.append({**s, "seed": 5, "faults": [], "relay_only": ro})
                for n in range(0, 24, 2 if s["phase"] == "transfer" else 1):
                    jobs.append({**s, "seed": 5, "faults": [[n, "drop"]], "relay_only": ro})
        if s["hops"] >= 2 and s["phase"] in ("ready", "transfer"):
            jobs.append({**s, "seed": 5, "faults": [], "early": 1})
        if s["phase"] == "transfer":
            jobs.append({**s, "seed": 5, "faults": [], "no6": 1})
            for n in range(0, 24, 6):
                jobs.append({**s, "seed": 5, "faults": [[n, "drop"]], "no6": 1})
            jobs.append({**s, "seed": 5, "faults": [], "chatter": 1})
            for n in range(0, 24, 4):
                jobs.append({**s, "seed": 5, "faults": [[n, "drop"]], "chatter": 1})
        if s["phase"] == "ready" and s["teardown"] in ("originator", "relay0", "exit"):
            for lat4, lat6 in ((0, 0), (2, 5), (5, 2), (3, 3)):
                for gap in (0, 1, 3, 4, 6):
                    jobs.append({**s, "seed": 5, "faults": [], "race": [lat4, lat6, gap]})
        if pairs and s["hops"] == 2:
            for a, b in itertools.combinations(range(16), 2):
                for ka in ("drop", "delay"):
                    for kb in ("drop", "dup"):
                        jobs.append({**s, "seed": 5, "faults": [[a, ka], [b, kb]]})
    if which < 0 or which == 0:
        for limit in (2, 4, 8):
            jobs.append({"sub": "relay_early", "limit": limit, "burst": 20, "seed": 1})
        # a node that maintains its circuits: where in its periodic cycle the attempts start x when the application tears one
        # circuit down x which attempt never gets an answer
        for hops_, want in ((2, 3),) if not pairs else ((2, 3), (2, 2), (3, 3), (1, 3)):
            for delay in range(5):
                for t1 in range(1, 27):
                    for lost in (0, 2) if not pairs else (-1, 0, 1, 2):
                        jobs.append({"sub": "maintained", "hops": hops_, "want": want, "lost": lost, "t1": t1, "vanish": 45,
                                     "seed": 1, "delay": delay})
    for i, case in enumerate(jobs):
        if i % nshards != shard:
            continue
        try:
            run_case(ctx, case)
        except Violation as v:
            ctx.violation(v)
    ctx.note("scenarios", len(scs))


def _strategy():
    from hypothesis import strategies as st
    sc = st.sampled_from(scenarios())
    faults = st.lists(st.tuples(st.integers(0, 40), st.sampled_from(KINDS)).map(list), min_size=2, max_size=6,
                      unique_by=lambda f: f[0])
    race = st.none() | st.tuples(st.integers(0, 8), st.integers(0, 8), st.integers(0, 12)).map(list)
    scen = st.tuples(sc, st.integers(0, 1000), faults, st.booleans(), race).map(
        lambda t: {**t[0], "seed": t[1], "faults": t[2], "demand": t[3], **({"race": t[4]} if t[4] is not None else {}),
                   **({"chatter": 1} if t[1] % 3 == 0 else {}), **({"early": 1} if t[1] % 4 == 1 else {}), **({"no6": 1} if t[1] % 5 == 2 else {}),
                   **({"relay_only": 1 + t[1] % 2} if t[1] % 7 in (1, 3, 5) else {})})
    join = st.fixed_dictionaries({"sub": st.just("join_limit"), "limit": st.integers(1, 4), "seed": st.integers(0, 99)})
    early = st.fixed_dictionaries({"sub": st.just("relay_early"), "limit": st.integers(0, 8), "burst": st.integers(1, 20),
                                   "seed": st.integers(0, 99)})
    maintained = st.fixed_dictionaries({"sub": st.just("maintained"), "hops": st.integers(1, 3), "want": st.integers(1, 4),
                                        "lost": st.integers(-1, 3), "t1": st.integers(0, 40), "vanish": st.integers(20, 70),
                                        "seed": st.integers(0, 99), "delay": st.sampled_from([0, 0.5, 1, 2, 2.5, 3, 4, 4.9])})
    return st.one_of(scen, scen, scen, join, early, maintained)


def _random_shard(ctx: Ctx, shard: int, nshards: int, n: int) -> None:
    hyp_run(ctx, "scenarios", _strategy(), lambda c: run_case(ctx, c), n)


def run(ctx: Ctx) -> None:
    if ctx.quick:
        shard_run(ctx, _enum_shard, extra=(-1, False))
        shard_run(ctx, _random_shard, extra=(60,))
    else:
        shard_run(ctx, _enum_shard, extra=(-1, True))
        shard_run(ctx, _random_shard, extra=(4000,))


def replay(ctx: Ctx, case: dict) -> None:
    run_case(None, case)
