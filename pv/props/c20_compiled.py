"""
C20 - compiled and dataclass payloads behave like their plain definition.

A payload *definition* (field names, formats, defaults, fix_pack_/fix_unpack_ hooks, nesting) is plain data. It is
materialised as (1) an interpreted ``VariablePayload`` subclass, (2) a ``vp_compile``-d class and (3) - when every
field type can be written as a dataclass annotation - a ``@dataclass`` on ``DataClassPayload``. All three are run
against a reference model written from the docstrings of ``VariablePayload`` ("names map index-wise onto the format
list, ``bits`` takes eight names, ``fix_pack_x`` is applied to the field when it is sent, ``fix_unpack_x`` when it is
received, nested payloads are length-prefixed"):

    K1  the definition can be materialised at all (generated source compiles)
    K0  the dataclass form derives the ``names`` / ``format_list`` of the definition
    K4  constructor: positional / keyword / defaulted arguments end up in the same attributes
    K5  ``to_pack_list`` is ``[(format, fix_pack(field) ...)]``
    K2  ``pack_serializable`` gives the concatenation of the per-field packer outputs
    K3  ``unpack_serializable`` gives ``fix_unpack(decoded field)`` for every field, and consumes the image

The per-field packers of ``Serializer`` are shared by all forms and by the model: what is checked here is the code
generator, the interpreter loop and the type-to-format mapping, not the packers (C02 does those).

Part (a) runs the same model over every ``VariablePayload`` subclass shipped in the package, together with an
interpreted twin rebuilt from ``format_list`` / ``names`` / defaults / hooks without ``vp_compile``.
"""
from __future__ import annotations

import dataclasses
import importlib
import inspect
import json
import pkgutil
import struct
import sys
import types
from functools import lru_cache
from typing import Any

from .. import keypool
from ..core import Ctx, HarnessError, Violation, digest, hyp_run, shard_run

PID = "C20"
LEVEL = "exploration"
EXHAUSTIVE = False
RULE = ("(a) every VariablePayload subclass of the non-test ipv8 package (all modules imported through pkgutil) with "
        "an interpreted twin rebuilt without vp_compile, on Hypothesis-drawn instances; (b) Hypothesis-drawn "
        "definitions: 1..12 fields over every format registered in Serializer() that has a value generator, plus "
        "the documented custom 'json' packer; 'bits' groups (8 names) at any position; nested payloads and "
        "[Payload] lists of generated inner definitions to depth 2; 'raw' only last; defaults on a suffix of the "
        "names (legal values, None, and str/bytes/negative int/float/tuple/list/address values); fix_pack_/fix_unpack_ "
        "hooks from invertible transforms (either or both directions); optionally an old-style base Payload with "
        "its own __init__; compiled either as a fresh class or as a subclass of the interpreted one; the dataclass "
        "form with native types or type_from_format. Each definition gets 1..6 instances: legal wire values per "
        "field, a positional/keyword split and a number of omitted defaulted arguments. One case = one "
        "(definition, instance) evaluated on all forms against the model. Non-trivial = the definition has a "
        "default, a hook, a bits group that is not the first field, or nesting; distinct = digest of "
        "(definition, instance).")
ASSUMPTIONS = [
    "the per-field packers registered in Serializer are shared by model and forms (their own correctness is C02)",
    "field names are distinct ASCII identifiers other than self / cls / Payload / names / format_list and do not "
    "start with fix_",
    "an old-style base class only assigns its constructor arguments to attributes of the same name",
    "a dataclass payload is instantiated once before it is used for decoding (as every test and example does)",
    "values are legal for their format; illegal defaults (e.g. None for 'I') must be rejected by every form alike",
]

SCRATCH = "pv.props._c20_scratch"
MISSING = ["<missing>"]
FORMS = ("interp", "compiled", "dataclass")
SITE_FORM = {"compiled": "generated", "dataclass": "generated"}


class Reject(Exception):
    """
    The model says: this operation is rejected (raises) in the plain definition.
    """


class Inexpressible(Exception):
    """
    The definition cannot be written as a dataclass.
    """


# ---- serializer, formats, transforms -------------------------------------------------------------------

@lru_cache(maxsize=None)
def _ser():
    """
    A Serializer with the packers the library registers in its communities and the 'json' packer of the
    documentation (doc/reference/serialization_5.py).
    """
    from ipv8.dht.payload import NodePacker
    from ipv8.messaging.anonymization.payload import Flags
    from ipv8.messaging.serialization import ListOf, Packer, Serializer

    class PackerJSON(Packer):
        def pack(self, data: Any) -> bytes:
            packed = json.dumps(data).encode()
            return struct.pack(">H", len(packed)) + packed

        def unpack(self, data: bytes, offset: int, unpack_list: list, *args: Any) -> int:
            size, = struct.unpack_from(">H", data, offset)
            unpack_list.append(json.loads(data[offset + 2:offset + 2 + size]))
            return offset + 2 + size

    ser = Serializer()
    registered = list(ser.get_available_formats())
    ser.add_packer("flags", Flags())
    ser.add_packer("node-list", ListOf(NodePacker(ser)))
    ser.add_packer("json", PackerJSON())
    return ser, registered


def _addr_types() -> dict:
    from ipv8.messaging.interfaces.udp.endpoint import DomainAddress, UDPv4Address, UDPv6Address
    return {"UDPv4Address": UDPv4Address, "UDPv6Address": UDPv6Address, "DomainAddress": DomainAddress}


def _xor(mask: int) -> tuple:
    return (lambda v: v ^ mask, lambda w: w ^ mask)


# transform id -> (P: attribute value -> wire value, U: wire value -> attribute value); P(U(w)) == w
TF = {
    "ident": (lambda v: v, lambda w: w),
    "wrap": (lambda v: v[1], lambda w: ("w", w)),
    "xorB": _xor(0x5A), "xorH": _xor(0x5AA5), "xorI": _xor(0x5AA55AA5), "xorQ": _xor(0x5AA55AA55AA55AA5),
    "inv": (lambda v: ~v, lambda w: ~w),
    "not": (lambda v: not v, lambda w: not w),
    "neg": (lambda v: -v, lambda w: -w),
    "rev": (lambda v: v[::-1], lambda w: w[::-1]),
    "hex": (lambda v: bytes.fromhex(v), lambda w: w.hex()),
    "enc": (lambda v: v.decode("utf-8"), lambda w: w.encode("utf-8")),
}

MULTI = {"BBH": "BBH", "BH": "BH", "HH": "HH", "LL": "LL", "QH": "QH", "QL": "QL", "QQHHBH": "QQHHBH",
         "ccB": "ccB", "4SH": "4sH", "c20s": "c20s"}


@lru_cache(maxsize=None)
def _formats() -> dict:
    """
    format name -> (value strategy for legal wire values (python objects), transform ids).
    """
    from hypothesis import strategies as st
    A = _addr_types()

    def uint(bits: int):
        return st.one_of(st.integers(0, 2 ** bits - 1), st.sampled_from([0, 1, 2 ** bits - 1]))

    def sint(bits: int):
        return st.one_of(st.integers(-2 ** (bits - 1), 2 ** (bits - 1) - 1),
                         st.sampled_from([-1, 0, -2 ** (bits - 1), 2 ** (bits - 1) - 1]))

    def fixed(n: int):
        return st.binary(min_size=n, max_size=n)

    port = st.integers(0, 65535)
    v4 = st.ip_addresses(v=4).map(str)
    v6 = st.ip_addresses(v=6).map(str)
    host = st.one_of(st.text(alphabet="abcdefghijklmnopqrstuvwxyz0123456789-.", min_size=1, max_size=24),
                     st.sampled_from(["tribler.org", "localhost", "exämple.org"]))

    def addr(hosts, cls_name: str | None):
        plain = st.tuples(hosts, port)
        if cls_name is None:
            return plain
        return st.one_of(plain, plain.map(lambda t: A[cls_name](*t)))

    small = st.binary(max_size=40)
    blob = st.one_of(small, small, st.binary(min_size=200, max_size=400))
    text = st.text(alphabet=st.characters(exclude_categories=("Cs",)), max_size=30)
    jsonv = st.recursive(
        st.one_of(st.none(), st.none(), st.booleans(), st.integers(-2 ** 53, 2 ** 53), st.text(max_size=8),
                  st.floats(allow_nan=False, allow_infinity=False)),
        lambda ch: st.one_of(st.lists(ch, max_size=3), st.dictionaries(st.text(max_size=4), ch, max_size=3)),
        max_leaves=5)
    comp = {"B": uint(8), "H": uint(16), "L": uint(32), "Q": uint(64), "c": fixed(1), "4s": fixed(4),
            "20s": fixed(20)}

    def multi(parts: list[str]):
        return st.tuples(*[comp[p] for p in parts])

    node = st.tuples(st.integers(0, 7), st.one_of(v4, v6), port).map(lambda t: NodeSpec(*t))
    flag = st.lists(st.integers(0, 15), max_size=5, unique=True).map(lambda bits: sorted(2 ** b for b in bits))
    table = {
        "?": (st.booleans(), ["not", "wrap", "ident"]),
        "B": (uint(8), ["xorB", "wrap", "ident"]),
        "H": (uint(16), ["xorH", "xorB", "wrap"]),
        "I": (uint(32), ["xorI", "xorH", "wrap", "ident"]),
        "Q": (uint(64), ["xorQ", "wrap"]),
        "l": (sint(32), ["inv", "wrap", "ident"]),
        "q": (sint(64), ["inv", "wrap", "ident"]),
        "c": (fixed(1), ["hex", "wrap"]),
        "f": (st.floats(width=32), ["neg", "wrap"]),
        "d": (st.floats(), ["neg", "wrap", "ident"]),
        "BBH": (multi(["B", "B", "H"]), ["wrap", "rev"]),
        "BH": (multi(["B", "H"]), ["wrap"]),
        "HH": (multi(["H", "H"]), ["wrap", "rev"]),
        "LL": (multi(["L", "L"]), ["wrap", "rev"]),
        "QH": (multi(["Q", "H"]), ["wrap"]),
        "QL": (multi(["Q", "L"]), ["wrap"]),
        "QQHHBH": (multi(["Q", "Q", "H", "H", "B", "H"]), ["wrap"]),
        "ccB": (multi(["c", "c", "B"]), ["wrap"]),
        "4SH": (multi(["4s", "H"]), ["wrap"]),
        "c20s": (multi(["c", "20s"]), ["wrap"]),
        "20s": (fixed(20), ["rev", "hex", "wrap"]),
        "32s": (fixed(32), ["rev", "hex"]),
        "64s": (fixed(64), ["rev", "wrap"]),
        "74s": (fixed(74), ["rev", "hex"]),
        "ipv4": (addr(v4, "UDPv4Address"), ["wrap", "ident"]),
        "ip_address": (st.one_of(addr(v4, "UDPv4Address"), addr(v6, "UDPv6Address")), ["wrap", "ident"]),
        "address": (st.one_of(addr(v4, "UDPv4Address"), addr(v6, "UDPv6Address"), addr(host, "DomainAddress")),
                    ["wrap", "ident"]),
        "raw": (blob, ["rev", "hex", "wrap"]),
        "varlenBx2": (st.binary(max_size=30).map(lambda b: b + b), ["rev", "hex", "wrap"]),
        "varlenH": (blob, ["rev", "hex", "wrap", "ident"]),
        "varlenHutf8": (text, ["rev", "enc", "wrap"]),
        "varlenIutf8": (text, ["rev", "enc", "wrap"]),
        "varlenHx20": (st.integers(0, 4).flatmap(lambda n: fixed(20 * n)), ["rev", "hex", "wrap"]),
        "varlenH-list": (st.lists(small, max_size=4), ["rev", "wrap"]),
        "varlenI": (blob, ["rev", "hex", "wrap"]),
        "doublevarlenH": (blob, ["rev", "hex", "wrap"]),
        "arrayH-?": (st.lists(st.booleans(), max_size=6), ["rev", "wrap"]),
        "arrayH-q": (st.lists(sint(64), max_size=5), ["rev", "wrap"]),
        "arrayH-d": (st.lists(st.floats(), max_size=4), ["rev", "wrap"]),
        "json": (jsonv, ["wrap", "ident"]),
        "bits": (st.one_of(st.booleans(), st.integers(0, 1)), ["not", "wrap", "ident"]),
        # only used by shipped definitions (part a)
        "flags": (flag, ["wrap"]),
        "node-list": (st.lists(node, max_size=3), ["wrap"]),
    }
    return table


class NodeSpec:
    """
    Stand-in for a DHT Node value inside generated instance data.
    """

    def __init__(self, key: int, ip: str, port: int) -> None:
        self.key, self.ip, self.port = key, ip, port


@lru_cache(maxsize=None)
def _node_key(i: int) -> bytes:
    return keypool.key(i).pub().key_to_bin()


# ---- value encoding (case data is plain JSON) ------------------------------------------------------------

def enc(v: Any) -> Any:
    if v is None or isinstance(v, (bool, str, int)):
        return v
    if isinstance(v, float):
        return {"f": v.hex()}
    if isinstance(v, bytes):
        return {"b": v.hex()}
    if isinstance(v, NodeSpec):
        return {"n": [v.key, v.ip, v.port]}
    if isinstance(v, tuple) and type(v).__name__ in _addr_types():
        return {"a": type(v).__name__, "v": [v[0], v[1]]}
    if isinstance(v, tuple):
        return {"t": [enc(x) for x in v]}
    if isinstance(v, list):
        return [enc(x) for x in v]
    if isinstance(v, dict):
        return {"d": [[k, enc(x)] for k, x in v.items()]}
    raise HarnessError(f"cannot encode {v!r}")


def dec(j: Any, inner: dict | None, mk: Any) -> Any:
    """
    Decode one encoded value. ``inner`` is the nested definition of the field the value belongs to (if any),
    ``mk(inner definition, attribute values)`` creates nested instances (model stand-ins or real objects).
    """
    if isinstance(j, list):
        return [dec(x, inner, mk) for x in j]
    if isinstance(j, dict):
        if "f" in j:
            return float.fromhex(j["f"])
        if "b" in j:
            return bytes.fromhex(j["b"])
        if "t" in j:
            return tuple(dec(x, inner, mk) for x in j["t"])
        if "a" in j:
            return _addr_types()[j["a"]](*j["v"])
        if "d" in j:
            return {k: dec(x, inner, mk) for k, x in j["d"]}
        if "n" in j:
            from ipv8.dht.routing import Node
            from ipv8.messaging.interfaces.udp.endpoint import UDPv4Address, UDPv6Address
            k, ip, port = j["n"]
            return Node(_node_key(k), address=(UDPv6Address if ":" in ip else UDPv4Address)(ip, port))
        if "p" in j:
            if inner is None:
                raise HarnessError("nested instance value outside a nested field")
            return make_instance(inner, j["p"], mk)
        raise HarnessError(f"bad encoded value {j!r}")
    return j


# ---- definitions -------------------------------------------------------------------------------------------

def fields_of(defn: dict) -> list[tuple[dict, list[str]]]:
    """
    [(field, names of that field)]: 'bits' owns eight names, everything else one.
    """
    out, k = [], 0
    for f in defn["fields"]:
        n = 8 if f.get("fmt") == "bits" else 1
        out.append((f, defn["names"][k:k + n]))
        k += n
    if k != len(defn["names"]):
        raise HarnessError("names do not match the fields")
    return out


def field_of_name(defn: dict, idx: int) -> dict:
    k = 0
    for f in defn["fields"]:
        k += 8 if f.get("fmt") == "bits" else 1
        if idx < k:
            return f
    raise HarnessError("name index out of range")


def inner_of(field: dict) -> dict | None:
    return field.get("nested") or field.get("list")


def hook_of(defn: dict, name: str) -> tuple | None:
    """
    (P or None, U or None) for a field name.
    """
    h = defn.get("hooks", {}).get(name)
    if h is None:
        return None
    if callable(h[0]) or callable(h[1]):     # shipped definition: opaque callables
        return h[0], h[1]
    tf, has_p, has_u = h
    return (TF[tf][0] if has_p else None, TF[tf][1] if has_u else None)


def attr_from_wire(defn: dict, name: str, w: Any) -> Any:
    """
    The attribute value a caller stores so that the wire value is ``w``: U(w) when the field has a pack hook.
    """
    h = defn.get("hooks", {}).get(name)
    if h is None or callable(h[0]) or callable(h[1]):
        return w
    tf, has_p, _ = h
    return TF[tf][1](w) if has_p else w


def make_instance(defn: dict, vals: list, mk: Any) -> Any:
    """
    Nested instance from encoded wire values (one per name), constructed positionally.
    """
    names = defn["names"]
    if len(vals) != len(names):
        raise HarnessError("instance does not match the definition")
    attrs = [attr_from_wire(defn, names[i], dec(vals[i], inner_of(field_of_name(defn, i)), mk))
             for i in range(len(names))]
    return mk(defn, attrs)


def label(defn: dict, field: dict, names: list[str], direction: int) -> str:
    kind = "nested" if "nested" in field else "list" if "list" in field else \
        "bits" if field["fmt"] == "bits" else "plain"
    hooked = any((hook_of(defn, n) or (None, None))[direction] is not None for n in names)
    return kind + ("+hook" if hooked else "")


def nontrivial(defn: dict) -> bool:
    if defn.get("defaults") or defn.get("hooks"):
        return True
    for i, f in enumerate(defn["fields"]):
        if "nested" in f or "list" in f:
            return True
        if f.get("fmt") == "bits" and i > 0:
            return True
    return False


def features(defn: dict, acc: dict | None = None) -> dict:
    acc = acc if acc is not None else {}
    for k in ("defaults", "hooks", "old", "sub", "mixed", "extends", "wrapped", "kw_only", "static_hooks", "override", "bare"):
        if defn.get(k):
            acc[k] = 1
    for i, f in enumerate(defn["fields"]):
        if "nested" in f or "list" in f:
            acc["nested" if "nested" in f else "list"] = 1
            features(inner_of(f), acc)
        elif f["fmt"] == "bits":
            acc["bits"] = 1
            if i:
                acc["bits-not-first"] = 1
        elif f["fmt"] == "raw":
            acc["raw"] = 1
    return acc


# ---- reference model -----------------------------------------------------------------------------------------

class MP:
    """
    Model payload: a definition and its attribute values.
    """

    __slots__ = ("defn", "attrs")

    def __init__(self, defn: dict, attrs: list) -> None:
        self.defn = defn
        self.attrs = dict(zip(defn["names"], attrs))


def mk_model(defn: dict, attrs: list) -> MP:
    return MP(defn, attrs)


def canon(v: Any) -> Any:
    """
    Type-strict canonical form of a value (payload instances by field, never by identity).
    """
    from ipv8.messaging.serialization import Serializable
    if isinstance(v, MP):
        return ["P", [[n, canon(v.attrs.get(n, MISSING))] for n in v.defn["names"]]]
    if v is None:
        return None
    if isinstance(v, bool):
        return ["bool", v]
    if isinstance(v, int):
        return ["int", v]
    if isinstance(v, float):
        return ["float", struct.pack(">d", v).hex()]
    if isinstance(v, str):
        return ["str", v]
    if isinstance(v, (bytes, bytearray, memoryview)):
        return [type(v).__name__, bytes(v).hex()]
    if isinstance(v, Serializable) and isinstance(getattr(type(v), "names", None), list):
        return ["P", [[n, canon(getattr(v, n, MISSING))] for n in type(v).names]]
    if type(v).__name__ == "Node" and hasattr(v, "public_key"):
        return ["Node", v.public_key.key_to_bin().hex(), canon(v.address)]
    if isinstance(v, tuple):
        return [type(v).__name__, [canon(x) for x in v]]
    if isinstance(v, list):
        if v is MISSING:
            return "<missing>"
        return ["list", [canon(x) for x in v]]
    if isinstance(v, dict):
        return ["dict", sorted(([str(k), canon(x)] for k, x in v.items()), key=lambda kv: kv[0])]
    return ["object", type(v).__name__]


def type_label(v: Any) -> str:
    from ipv8.messaging.serialization import Serializable
    if isinstance(v, (MP, Serializable)):
        return "Payload"
    if isinstance(v, float) and (v != v or v in (float("inf"), float("-inf"))):
        return "float-nonfinite"
    return type(v).__name__


def default_site(v: Any) -> str:
    """
    Root-cause site for a misbehaving default value: the form is left out on purpose (the dataclass form goes
    through the same generator as the compiled form); strings are kept apart from every other kind of object.
    """
    return "default:str" if isinstance(v, str) else "default:other"


def model_packlist(mp: MP) -> list[tuple]:
    """
    [(format, fix_pack(value) ...)] per field - the documented shape of ``to_pack_list``.
    """
    out = []
    for field, names in fields_of(mp.defn):
        args = []
        for n in names:
            v = mp.attrs[n]
            h = hook_of(mp.defn, n)
            if h is not None and h[0] is not None:
                try:
                    v = h[0](v)
                except Exception as e:
                    raise Reject(f"fix_pack_{n} raises {type(e).__name__}") from e
            args.append(v)
        fmt = "payload" if "nested" in field else "payload-list" if "list" in field else field["fmt"]
        out.append((fmt, *args))
    return out


def model_nested_bytes(v: Any, splat: bool) -> bytes:
    if not isinstance(v, MP):
        raise Reject("not a payload")
    inner = model_bytes(v, splat)
    try:
        return struct.pack(">H", len(inner)) + inner
    except struct.error as e:
        raise Reject("nested payload too long") from e


def model_bytes(mp: MP, splat: bool = False) -> bytes:
    """
    Concatenation of the per-field packer outputs. With ``splat`` the multi-value struct formats are fed their
    components (a legal wire image for decoding; ``VariablePayload`` itself can only hand over one value).
    """
    ser, _ = _ser()
    out = b""
    for entry in model_packlist(mp):
        fmt, args = entry[0], entry[1:]
        if fmt == "payload":
            out += model_nested_bytes(args[0], splat)
        elif fmt == "payload-list":
            try:
                n = len(args[0])
                items = list(args[0])
                head = struct.pack(">B", n)
            except Exception as e:
                raise Reject("not a packable list") from e
            out += head + b"".join(model_nested_bytes(x, splat) for x in items)
        else:
            if splat and fmt in MULTI and isinstance(args[0], tuple):
                args = args[0]
            try:
                out += ser.get_packer_for(fmt).pack(*args)
            except Exception as e:
                raise Reject(f"packer {fmt} raises {type(e).__name__}") from e
    return out


def model_decode(defn: dict, data: bytes, offset: int = 0) -> tuple[MP, int]:
    ser, _ = _ser()
    raw: list = []
    try:
        for field, _names in fields_of(defn):
            if "nested" in field:
                size, = struct.unpack_from(">H", data, offset)
                raw.append(model_decode(field["nested"], data[offset + 2:offset + 2 + size])[0])
                offset += 2 + size
            elif "list" in field:
                n, = struct.unpack_from(">B", data, offset)
                offset += 1
                items = []
                for _ in range(n):
                    size, = struct.unpack_from(">H", data, offset)
                    items.append(model_decode(field["list"], data[offset + 2:offset + 2 + size])[0])
                    offset += 2 + size
                raw.append(items)
            else:
                offset = ser.get_packer_for(field["fmt"]).unpack(data, offset, raw)
    except Reject:
        raise
    except Exception as e:
        raise Reject(f"decoding raises {type(e).__name__}") from e
    names = defn["names"]
    if len(raw) != len(names):
        raise Reject("number of decoded values differs from the number of names")
    attrs = []
    for n, v in zip(names, raw):
        h = hook_of(defn, n)
        if h is not None and h[1] is not None:
            try:
                v = h[1](v)
            except Exception as e:
                raise Reject(f"fix_unpack_{n} raises {type(e).__name__}") from e
        attrs.append(v)
    return MP(defn, attrs), offset


def guarded(fn: Any) -> Any:
    try:
        return fn()
    except Reject as r:
        return ("reject", str(r))


def default_values(defn: dict, mk: Any) -> dict:
    out = {}
    names = defn["names"]
    for n, j in defn.get("defaults", []):
        out[n] = dec(j, inner_of(field_of_name(defn, names.index(n))), mk) if not defn.get("lib") else j
    return out


def given_values(defn: dict, inst: dict, mk: Any) -> list:
    names = defn["names"]
    given = len(names) - inst["omit"]
    return [attr_from_wire(defn, names[i], dec(inst["vals"][i], inner_of(field_of_name(defn, i)), mk))
            for i in range(given)]


def expect(defn: dict, inst: dict) -> dict:
    names = defn["names"]
    values = given_values(defn, inst, mk_model)
    dflt = default_values(defn, mk_model)
    for n in names[len(values):]:
        if n not in dflt:
            raise HarnessError("omitted argument without default")
        values.append(dflt[n])
    mp = MP(defn, values)
    exp: dict = {"ctor": canon(mp)}
    pl = guarded(lambda: model_packlist(mp))
    exp["packlist"] = pl if isinstance(pl, tuple) else canon(pl)
    b = guarded(lambda: model_bytes(mp))
    exp["bytes"] = b if isinstance(b, tuple) else b.hex()
    # images to decode: what the instance packs to, and the image of the instance's full set of wire values
    full = MP(defn, [attr_from_wire(defn, names[i], dec(inst["vals"][i], inner_of(field_of_name(defn, i)), mk_model))
                     for i in range(len(names))])
    images = []
    if not isinstance(b, tuple):
        images.append(b)
    f = guarded(lambda: model_bytes(full, splat=True))
    if not isinstance(f, tuple) and f not in images:
        images.append(f)
    exp["images"] = images
    exp["decode"] = []
    for im in images:
        d = guarded(lambda im=im: model_decode(defn, im))
        exp["decode"].append(d if d[0] == "reject" else [canon(d[0]), d[1]])
    return exp


# ---- the three forms -----------------------------------------------------------------------------------------

def _scratch_module() -> types.ModuleType:
    mod = sys.modules.get(SCRATCH)
    if mod is None:
        mod = types.ModuleType(SCRATCH)
        sys.modules[SCRATCH] = mod
    return mod


def _hook_namespace(defn: dict) -> dict:
    ns: dict = {}
    for n in defn["names"]:
        h = hook_of(defn, n)
        if h is None:
            continue
        if h[0] is not None:
            # a pack rule may be written as a plain method, a static method or a class method: the interpreted form
            # looks it up on the instance, so all three are legal
            how = defn.get("static_hooks", 0)
            if how == 1:
                ns["fix_pack_" + n] = staticmethod((lambda P: lambda value: P(value))(h[0]))
            elif how == 2:
                ns["fix_pack_" + n] = classmethod((lambda P: lambda cls, value: P(value))(h[0]))
            else:
                ns["fix_pack_" + n] = (lambda P: lambda self, value: P(value))(h[0])
        if h[1] is not None:
            ns["fix_unpack_" + n] = classmethod((lambda U: lambda cls, value: U(value))(h[1]))
    return ns


def _make_init(names: list[str], defaults: dict, target: str, wrapped: bool = False) -> Any:
    """
    ``def __init__(self, a, b=<default object>, **kwargs): VariablePayload.__init__(self, a, b, **kwargs)`` -
    the way the library's own tests give an interpreted definition default values. Defaults are bound by
    reference, never through their textual form.
    """
    from ipv8.messaging.lazy_payload import VariablePayload
    order = list(defaults)
    params = ", ".join(f"{n}=_d[{order.index(n)}]" if n in defaults else n for n in names)
    src = f"def __init__(self, {params}, **_kw):\n    _VP.__init__(self, {', '.join(names)}, **_kw)\n"
    ns = {"_d": [defaults[n] for n in order], "_VP": VariablePayload}
    exec(compile(src, f"<c20 {target}>", "exec"), ns)  # noqa: S102
    if wrapped:
        # an ordinary decorator around the constructor (functools.wraps keeps the signature visible)
        import functools
        inner = ns["__init__"]

        @functools.wraps(inner)
        def __init__(*args: Any, **kwargs: Any) -> None:
            return inner(*args, **kwargs)
        return __init__
    return ns["__init__"]


def _make_old_base(defn: dict, k: int, fmts: list) -> type:
    from ipv8.messaging.serialization import Payload
    names = defn["names"][:k]
    body = "\n".join(f"    self.{n} = {n}" for n in names)
    ns: dict = {}
    exec(compile(f"def __init__(self, {', '.join(names)}):\n{body}\n", "<c20 old base>", "exec"), ns)  # noqa: S102

    def to_pack_list(self) -> list:
        return [(fmts[i] if isinstance(fmts[i], str) else "payload-list" if isinstance(fmts[i], list) else "payload",
                 getattr(self, names[i])) for i in range(k)]

    def from_unpack_list(cls, *args):
        return cls(*args)

    return type(defn["name"] + "Old", (Payload,), {
        "format_list": list(fmts[:k]), "__init__": ns["__init__"], "to_pack_list": to_pack_list,
        "from_unpack_list": classmethod(from_unpack_list)})


class Forms:
    """
    Class family of one form for a definition and its inner definitions.
    """

    def __init__(self, kind: str, used: dict | None = None) -> None:
        self.kind = kind
        self.cache: dict[str, type] = {}
        # inner definition name -> the class that stands in the parent's format_list (values are built with it)
        self.used: dict[str, type] = used if used is not None else {}
        self.plain = self if kind == "interp" else Forms("interp", self.used)

    def mk(self, defn: dict, attrs: list) -> Any:
        return (self.used.get(defn["name"]) or self.cls(defn))(*attrs)

    def cls(self, defn: dict) -> type:
        got = self.cache.get(defn["name"])
        if got is None:
            got = self.cache[defn["name"]] = self._build(defn)
        return got

    # -- plain and compiled ---------------------------------------------------------------------------
    def _format_list(self, defn: dict, inner_forms: "Forms") -> list:
        out = []
        for f in defn["fields"]:
            inner = inner_of(f)
            if inner is not None:
                c = self.used[inner["name"]] = inner_forms.cls(inner)
                out.append(c if "nested" in f else [c])
            else:
                out.append(f["fmt"])
        return out

    def _build_plain(self, defn: dict, inner_forms: "Forms") -> type:
        from ipv8.messaging.lazy_payload import VariablePayload
        fmts = self._format_list(defn, inner_forms)
        if defn.get("bare"):
            # a hand-written message in the oldest style: a bare Serializable (no VariablePayload machinery) - a legal
            # nested format in every form of the enclosing definition
            from ipv8.messaging.serialization import Serializable
            names = list(defn["names"])

            def __init__(self, *args):  # noqa: N807
                for n, a in zip(names, args):
                    setattr(self, n, a)

            def to_pack_list(self):
                return [(fmt, getattr(self, n)) for fmt, n in zip(fmts, names)]

            def from_unpack_list(cls, *args):
                return cls(*args)
            return type(defn["name"], (Serializable,), {"format_list": fmts, "names": names, "__module__": SCRATCH,
                                                        "__init__": __init__, "to_pack_list": to_pack_list,
                                                        "from_unpack_list": classmethod(from_unpack_list)})
        ns: dict = {"format_list": fmts, "names": list(defn["names"]), "__module__": SCRATCH}
        ns.update(_hook_namespace(defn))
        dflt = default_values(defn, inner_forms.mk)
        if dflt:
            ns["__init__"] = _make_init(defn["names"], dflt, defn["name"], wrapped=bool(defn.get("wrapped")))
        bases: tuple = (VariablePayload,)
        if defn.get("old"):
            bases = (VariablePayload, _make_old_base(defn, defn["old"], fmts))
        return type(defn["name"], bases, ns)

    def _build(self, defn: dict) -> type:
        if self.kind == "interp":
            return self._build_plain(defn, self)
        if defn.get("bare") and self.kind in ("compiled", "dataclass"):
            return self.plain.cls(defn)          # written by hand once; every form of the outer definition nests this class
        if self.kind == "compiled":
            from ipv8.messaging.lazy_payload import vp_compile
            if defn.get("override") and any(hook_of(defn, n) is not None and hook_of(defn, n)[0] is not None
                                            for n in defn["names"]):
                # the compiled definition carries do-nothing pack rules; a class derived from it (not compiled again)
                # overrides them with the real ones - the plain twin simply has the real ones
                decoy = {k: (lambda self, value: value) for k in _hook_namespace(defn) if k.startswith("fix_pack_")}
                plain = self._build_plain(defn, self.plain if defn.get("mixed") else self)
                base = vp_compile(type(defn["name"] + "Parent", (plain,), {"__module__": SCRATCH, **decoy}))
                real = {k: v for k, v in _hook_namespace(defn).items() if k.startswith("fix_pack_")}
                return type(defn["name"], (base,), {"__module__": SCRATCH, **real})
            if defn.get("sub"):
                return vp_compile(type(defn["name"], (self.plain.cls(defn),), {"__module__": SCRATCH}))
            return vp_compile(self._build_plain(defn, self.plain if defn.get("mixed") else self))
        if self.kind == "dataclass":
            return self._build_dataclass(defn)
        if self.kind == "twin":
            return self._build_twin(defn)
        if self.kind == "shipped":
            return defn["lib_cls"]
        raise HarnessError(self.kind)

    # -- dataclass --------------------------------------------------------------------------------------
    def _dc_inner(self, inner: dict) -> type:
        try:
            c = self.cls(inner)
        except Inexpressible:
            c = self.plain.cls(inner)
        self.used[inner["name"]] = c
        return c

    def _build_dataclass(self, defn: dict) -> type:
        from ipv8.messaging.payload_dataclass import DataClassPayload, type_from_format
        if defn.get("old"):
            raise Inexpressible("old-style base")
        native = {"?": bool, "q": int, "d": float, "varlenH": bytes, "varlenHutf8": str,
                  "arrayH-q": list[int], "arrayH-?": list[bool], "arrayH-d": list[float]}
        typed = []
        for (f, names) in fields_of(defn):
            if "nested" in f:
                t: Any = self._dc_inner(f["nested"])
            elif "list" in f:
                inner = self._dc_inner(f["list"])
                t = list[inner] if defn.get("native") else [inner]
            elif f["fmt"] == "bits":
                raise Inexpressible("bits")
            elif defn.get("native") and f["fmt"] in native:
                t = native[f["fmt"]]
            else:
                t = type_from_format(f["fmt"])
            typed.append((names[0], t))
        dflt = default_values(defn, self.mk)
        specs = []
        for n, t in typed:
            if n in dflt:
                try:
                    hash(dflt[n])
                except TypeError:
                    raise Inexpressible("unhashable default") from None
                # kw_only: the defaulted fields are declared keyword-only (``field(kw_only=True)`` / ``_: KW_ONLY``)
                specs.append((n, t, dataclasses.field(default=dflt[n], kw_only=True) if defn.get("kw_only")
                              else dataclasses.field(default=dflt[n])))
            else:
                specs.append((n, t))
        mod = _scratch_module()
        ext = defn.get("extends")
        try:
            if ext and 0 < ext[0] < len(specs):
                # the definition written as a dataclass payload that extends another dataclass payload: the first
                # ext[0] fields live in the parent; ext[1] = the parent is used (and hence converted) first
                if len(ext) > 2 and ext[2]:
                    # the parent lives in ANOTHER module that uses stringified annotations (from __future__ import
                    # annotations): each parent field is annotated with the name of an alias bound in that module; the
                    # child's module binds the same names to something else
                    bmod = sys.modules.get(SCRATCH + "_base")
                    if bmod is None:
                        bmod = sys.modules[SCRATCH + "_base"] = types.ModuleType(SCRATCH + "_base")
                    bspecs = []
                    for j, spec in enumerate(specs[:ext[0]]):
                        alias = "T_%s_%d" % (defn["name"], j)
                        setattr(bmod, alias, spec[1])
                        setattr(mod, alias, type_from_format("20s") if j % 2 else bool)
                        bspecs.append((spec[0], alias, *spec[2:]))
                    base = dataclasses.make_dataclass(defn["name"] + "Base", bspecs, bases=(DataClassPayload,),
                                                      module=SCRATCH + "_base")
                    setattr(bmod, defn["name"] + "Base", base)
                else:
                    base = dataclasses.make_dataclass(defn["name"] + "Base", specs[:ext[0]], bases=(DataClassPayload,),
                                                      module=SCRATCH)
                    setattr(mod, defn["name"] + "Base", base)
                cls = dataclasses.make_dataclass(defn["name"], specs[ext[0]:], bases=(base,),
                                                 namespace=_hook_namespace(defn), module=SCRATCH)
                if ext[1]:
                    base(*[None] * ext[0])
            else:
                cls = dataclasses.make_dataclass(defn["name"], specs, bases=(DataClassPayload,),
                                                 namespace=_hook_namespace(defn), module=SCRATCH)
        except (TypeError, ValueError) as e:
            raise Inexpressible(f"dataclasses refuses: {e}") from e
        setattr(mod, defn["name"], cls)
        return cls

    # -- twin of a shipped class ----------------------------------------------------------------------------
    def _build_twin(self, defn: dict) -> type:
        from ipv8.messaging.lazy_payload import VariablePayload, VariablePayloadWID
        src = defn["lib_cls"]
        fmts = []
        for f in defn["fields"]:
            fmts.append(self.cls(f["nested"]) if "nested" in f else [self.cls(f["list"])] if "list" in f
                        else f["fmt"])
        ns: dict = {"format_list": fmts, "names": list(defn["names"])}
        ns.update(_hook_namespace(defn))
        dflt = dict(defn.get("defaults", []))
        if dflt:
            ns["__init__"] = _make_init(defn["names"], dflt, defn["name"])
        base = VariablePayload
        if issubclass(src, VariablePayloadWID):
            base = VariablePayloadWID
            if hasattr(src, "msg_id"):
                ns["msg_id"] = src.msg_id
        return type(defn["name"] + "Twin", (base,), ns)


def attrs_canon(obj: Any, names: list[str]) -> list:
    return ["P", [[n, canon(getattr(obj, n, MISSING))] for n in names]]


def observe(forms: Forms, defn: dict, inst: dict, exp: dict) -> dict:
    ser, _ = _ser()
    cls = forms.cls(defn)
    names = defn["names"]
    obs: dict = {}
    try:
        values = given_values(defn, inst, forms.mk)
        npos = min(inst["npos"], len(values))
        if defn.get("kw_only"):
            # the defaulted fields are passed by keyword, to every form alike
            npos = min(npos, len(names) - len(defn.get("defaults", [])))
        pos, kw = values[:npos], dict(zip(names[npos:len(values)], values[npos:]))
        obj = cls(*pos, **kw)
    except Exception as e:  # rejected
        obs["ctor"] = ("reject", f"{type(e).__name__}: {e}"[:200])
        obj = None
    if obj is not None:
        obs["ctor"] = attrs_canon(obj, names)
        try:
            obs["packlist"] = canon(obj.to_pack_list())
        except Exception as e:
            obs["packlist"] = ("reject", f"{type(e).__name__}: {e}"[:200])
        try:
            obs["bytes"] = ser.pack_serializable(obj).hex()
        except Exception as e:
            obs["bytes"] = ("reject", f"{type(e).__name__}: {e}"[:200])
    obs["decode"] = []
    for im in exp["images"]:
        try:
            got, off = ser.unpack_serializable(cls, im)
            obs["decode"].append([attrs_canon(got, names), off])
        except Exception as e:
            obs["decode"].append(("reject", f"{type(e).__name__}: {e}"[:200]))
    return obs


def is_reject(x: Any) -> bool:
    return isinstance(x, tuple) and len(x) == 2 and x[0] == "reject"


def compare(form: str, defn: dict, inst: dict, exp: dict, obs: dict, case: dict) -> None:
    names = defn["names"]
    given = len(names) - inst["omit"]
    dflt = default_values(defn, mk_model)

    def fail(clause: str, what: str, msg: str) -> None:
        # the dataclass form is compiled by the same generator: one site for both (K0 covers what is its own)
        site = what if what.startswith("default:") else f"{SITE_FORM.get(form, form)}:{what}"
        raise Violation(clause, site, f"{form} form of {describe(defn)}: {msg}", case)

    def first_diff_name(a: list, b: list) -> int:
        for i, (x, y) in enumerate(zip(a[1], b[1])):
            if x != y:
                return i
        return -1

    # K4 constructor
    if is_reject(obs["ctor"]):
        omitted = [dflt[n] for n in names[given:]]
        fail("K4", default_site(omitted[0]) if omitted and form not in ("interp", "twin") else "ctor-raises",
             f"constructor with {inst['npos']} positional, {given - min(inst['npos'], given)} keyword, "
             f"{inst['omit']} defaulted arguments raises {obs['ctor'][1]}")
    if obs["ctor"] != exp["ctor"]:
        i = first_diff_name(exp["ctor"], obs["ctor"])
        what = default_site(dflt[names[i]]) if i >= given and form not in ("interp", "twin") else "argument"
        fail("K4", what, f"after construction field {names[i]!r} is {obs['ctor'][1][i][1]!r}, the definition says "
                         f"{exp['ctor'][1][i][1]!r}")
    # K5 to_pack_list
    e, o = exp["packlist"], obs["packlist"]
    if is_reject(e) != is_reject(o):
        fail("K5", "accepts" if is_reject(e) else "raises",
             f"to_pack_list: definition {'raises' if is_reject(e) else 'gives a list'} ({e[1] if is_reject(e) else ''}) "
             f"but the form {'raises ' + o[1] if is_reject(o) else 'gives ' + repr(o)[:200]}")
    if not is_reject(e) and e != o:
        what = "shape"
        if o[0] == "list" and len(o[1]) == len(e[1]):
            for (field, fnames), x, y in zip(fields_of(defn), e[1], o[1]):
                if x != y:
                    what = label(defn, field, fnames, 0)
                    break
        fail("K5", what, f"to_pack_list is {o!r}"[:300] + f", the definition says {e!r}"[:300])
    # K2 bytes
    e, o = exp["bytes"], obs["bytes"]
    if is_reject(e) != is_reject(o):
        fail("K2", "accepts" if is_reject(e) else "raises",
             f"pack_serializable: the definition {'cannot be packed (' + e[1] + ')' if is_reject(e) else 'packs'} "
             f"but the form {'raises ' + o[1] if is_reject(o) else 'gives ' + o[:80]}")
    if not is_reject(e) and e != o:
        fail("K2", "bytes", f"pack_serializable gives {o[:120]}, per-field packers give {e[:120]}")
    # K3 decode
    for im, e, o in zip(exp["images"], exp["decode"], obs["decode"]):
        if is_reject(e) != is_reject(o):
            fail("K3", "accepts" if is_reject(e) else "raises",
                 f"unpack_serializable of {im.hex()[:80]}: definition {'rejects' if is_reject(e) else 'decodes'}, "
                 f"form {'raises ' + o[1] if is_reject(o) else 'decodes'}")
        if is_reject(e):
            continue
        if e[0] != o[0]:
            i = first_diff_name(e[0], o[0])
            fail("K3", deep_label(defn, e[0], o[0]),
                 f"unpack_serializable of {im.hex()[:80]}: field {names[i]!r} is {o[0][1][i][1]!r}, the definition "
                 f"says {e[0][1][i][1]!r}")
        if e[1] != o[1]:
            fail("K3", "offset", f"unpack_serializable of {im.hex()[:80]} ends at {o[1]}, image ends at {e[1]}")


def _all_defns(defn: dict, acc: dict) -> dict:
    acc[tuple(defn["names"])] = defn
    for f in defn["fields"]:
        if inner_of(f) is not None:
            _all_defns(inner_of(f), acc)
    return acc


def deep_label(defn: dict, e: list, o: list) -> str:
    """
    Kind of the innermost field at which two canonical payload values differ (a wrong inner payload is the inner
    definition's finding, not one of each enclosing level, hooked or not).
    """
    index = _all_defns(defn, {})

    def walk(x: Any, y: Any) -> str | None:
        if x == y or not (isinstance(x, list) and isinstance(y, list) and len(x) == 2 and len(y) == 2
                          and x[0] == y[0] and isinstance(x[1], list) and isinstance(y[1], list)
                          and len(x[1]) == len(y[1])):
            return None
        if x[0] == "P":
            names = tuple(kv[0] for kv in x[1])
            d = index.get(names)
            if d is None or names != tuple(kv[0] for kv in y[1]):
                return None
            for i, (a, b) in enumerate(zip(x[1], y[1])):
                if a[1] != b[1]:
                    field = field_of_name(d, i)
                    fnames = [n for f, ns in fields_of(d) if f is field for n in ns]
                    return walk(a[1], b[1]) or label(d, field, fnames, 1)
            return None
        if x[0] in ("list", "tuple"):
            for a, b in zip(x[1], y[1]):
                r = walk(a, b)
                if r is not None:
                    return r
        return None

    return walk(e, o) or "shape"


def describe(defn: dict) -> str:
    fm = []
    for f in defn["fields"]:
        fm.append("<nested>" if "nested" in f else "[<nested>]" if "list" in f else f["fmt"])
    s = f"{defn['name']} format_list={fm}"
    if defn.get("defaults"):
        s += f" defaults={[n for n, _ in defn['defaults']]}"
    if defn.get("hooks"):
        s += f" hooks={sorted(defn['hooks'])}"
    return s


# ---- evaluation of one definition -----------------------------------------------------------------------------

def strip(defn: dict) -> dict:
    """
    JSON-able copy of a definition (shipped definitions are identified by name only).
    """
    if defn.get("lib"):
        return {"lib": defn["lib"]}
    return defn


def _variant_defaults(defn: dict, keep: int) -> dict:
    d = dict(defn)
    d["defaults"] = [[n, j if i == keep else 0] for i, (n, j) in enumerate(defn["defaults"])]
    return d


def _probe_dataclasses(forms: "Forms", cls: type) -> None:
    """
    What the first instantiation of a dataclass payload does before anything else (derive names/format_list and
    compile), for the class and the dataclass payloads nested in it.
    """
    from ipv8.messaging.payload_dataclass import DataClassPayload
    for c in [*forms.used.values(), cls]:
        if issubclass(c, DataClassPayload):
            c.__new__(c)
            c.__new__(c)    # every instantiation derives and compiles again, now from the compiled signature


def build_forms(defn: dict, kinds: tuple, case: dict) -> dict:
    """
    Materialise every form; a form that cannot be materialised is K1 (unless the dataclass form is inexpressible).
    """
    out = {}
    for kind in kinds:
        forms = Forms(kind)
        try:
            cls = forms.cls(defn)
            if kind == "dataclass":
                _probe_dataclasses(forms, cls)
        except Inexpressible:
            continue
        except HarnessError:
            raise
        except Exception as e:
            if kind in ("twin", "shipped"):
                raise
            # an inner definition that cannot be created on its own is the smaller case
            for f in defn["fields"]:
                inner = inner_of(f)
                if inner is not None:
                    build_forms(inner, (kind,), {"defn": strip(inner), "inst": None})
            what, msg_extra = "build", ""
            if defn.get("defaults") and not defn.get("lib") and kind != "interp":
                # which default is responsible? keep one at a time, the others become 0
                dflt = default_values(defn, mk_model)
                for i, (n, _j) in enumerate(defn["defaults"]):
                    try:
                        f2 = Forms(kind)
                        c2 = f2.cls(_variant_defaults(defn, i))
                        if kind == "dataclass":
                            _probe_dataclasses(f2, c2)
                    except Inexpressible:
                        continue
                    except Exception:  # this default alone breaks the build
                        what = default_site(dflt[n])
                        msg_extra = f" (default of {n!r} is a {type_label(dflt[n])})"
                        break
            site = what if what.startswith("default:") else f"{SITE_FORM.get(kind, kind)}:{what}"
            raise Violation("K1", site, f"{kind} form of {describe(defn)} cannot be created{msg_extra}: "
                                        f"{type(e).__name__}: {str(e)[:200]}", case) from e
        if kind == "dataclass":
            check_dataclass_shape(defn, forms, case)
        out[kind] = forms
    return out


def check_dataclass_shape(defn: dict, forms: Forms, case: dict) -> None:
    """
    K0: the dataclass derives the names and formats of the definition.
    """
    cls = forms.cls(defn)
    if list(cls.names) != list(defn["names"]):
        raise Violation("K0", "dataclass:names", f"dataclass form of {describe(defn)} has names {cls.names}", case)
    got = list(cls.format_list)
    for i, f in enumerate(defn["fields"]):
        g = got[i] if i < len(got) else None
        if "nested" in f:
            ok = inspect.isclass(g) and g.__name__ == f["nested"]["name"]
            what = "nested"
        elif "list" in f:
            ok = isinstance(g, list) and len(g) == 1 and inspect.isclass(g[0]) and g[0].__name__ == f["list"]["name"]
            what = "list"
        else:
            ok = g == f["fmt"]
            what = f["fmt"] if defn.get("native") else "type_from_format"
        if not ok or len(got) != len(defn["fields"]):
            raise Violation("K0", f"dataclass:format:{what}",
                            f"dataclass form of {describe(defn)} (native types: {bool(defn.get('native'))}) derives "
                            f"format_list {got!r}"[:400], case)


def run_definition(ctx: Ctx | None, defn: dict, insts: list, kinds: tuple = FORMS) -> None:
    nt = nontrivial(defn)
    feats = features(defn)
    stripped = strip(defn)
    try:
        forms = build_forms(defn, kinds, {"defn": stripped, "inst": None})
    except Violation:
        if ctx is not None:
            ctx.case(digest({"defn": stripped}), nt, cls="build-failed", sample=sample_of(defn, None))
        raise
    if defn.get("defaults") and not defn.get("lib"):
        # a sibling definition - same field names, same defaulted names, other default values (e.g. a request and its
        # response) - is compiled and used AFTER this one: what is generated for one definition must not leak into
        # another
        sib = _variant_defaults(defn, -1)
        for kind in kinds:
            if kind in ("interp", "twin", "shipped") or kind not in forms:
                continue
            try:
                f2 = Forms(kind)
                c2 = f2.cls(sib)
                if kind == "dataclass":
                    _probe_dataclasses(f2, c2)
                given = len(sib["names"]) - len(sib["defaults"])
                if given == 0:
                    c2()
            except Exception:  # noqa: BLE001 - the sibling is only there to disturb; its own faults are not judged here
                pass
    first: Violation | None = None
    for inst in insts:
        case = {"defn": stripped, "inst": inst}
        if ctx is not None:
            ctx.case(digest(case), nt, cls="+".join(k for k in kinds if k in forms), sample=sample_of(defn, inst))
            for k in feats:
                ctx.count("feature:" + k)
        exp = expect(defn, inst)
        for kind in kinds:
            if kind not in forms:
                continue
            try:
                compare(kind, defn, inst, exp, observe(forms[kind], defn, inst, exp), case)
            except Violation as v:
                if first is None:
                    first = v
                break
    if first is not None:
        raise first


def sample_of(defn: dict, inst: dict | None) -> dict:
    s: dict = {"definition": describe(defn)}
    if defn.get("defaults") and not defn.get("lib"):
        s["defaults"] = defn["defaults"][:4]
    if inst is not None:
        s["ctor"] = {"positional": inst["npos"], "omitted": inst["omit"]}
    return s


# ---- strategies -------------------------------------------------------------------------------------------------

WORDS = ["a", "b", "c", "identifier", "data", "value", "args", "kwargs", "index", "key", "flags", "address", "port",
         "name", "type", "id", "len", "list", "hash", "format", "match", "case", "_private", "camelCase", "x1",
         "payload", "serializer", "packer", "fmt", "out", "i", "base", "result", "unpack_args", "custom_rule",
         "raw_value", "byte", "offset", "unpack_list", "public_key", "circuit_id", "info_hash", "extra_bytes"]
ODD_DEFAULTS = ["", "abc", "3", "a b", "it's", 'say "x"', "inspect", "None", "types", "\n", "x" * 40,
                b"", b"xyz", b"\x00\xff'", -1, -2 ** 40, 0, 7, 1.5, -0.0, float("inf"), float("nan"), True, False,
                (), (1, 2), ("1.2.3.4", 80), (b"k", "s", -3), None, None]


def _value_strategy(field: dict):
    from hypothesis import strategies as st
    if "nested" in field:
        return _vals_strategy(field["nested"]).map(lambda vs: {"p": vs})
    if "list" in field:
        return st.lists(_vals_strategy(field["list"]).map(lambda vs: {"p": vs}), max_size=3)
    return _formats()[field["fmt"]][0].map(enc)


def _vals_strategy(defn: dict):
    from hypothesis import strategies as st
    per_name = []
    for field, names in fields_of(defn):
        per_name += [_value_strategy(field)] * len(names)
    return st.tuples(*per_name).map(list)


def _inst_strategy(defn: dict):
    from hypothesis import strategies as st
    n, d = len(defn["names"]), len(defn.get("defaults", []))
    return st.fixed_dictionaries({"vals": _vals_strategy(defn), "omit": st.integers(0, d), "npos": st.integers(0, n)})


def _definition_strategy(plain_formats: list[str]):
    from hypothesis import strategies as st
    A = _addr_types()
    odd = st.sampled_from(ODD_DEFAULTS + [A["UDPv4Address"]("1.2.3.4", 5), [1, 2], []]).map(enc)

    @st.composite
    def build(draw, depth: int, name: str) -> dict:
        nfields = draw(st.integers(1, 12)) if depth == 0 else draw(st.integers(1, 3))
        fields: list[dict] = []
        for i in range(nfields):
            r = draw(st.integers(0, 99))
            if depth < 2 and r < 9:
                fields.append({"nested": draw(build(depth + 1, f"{name}n{i}"))})
            elif depth < 2 and r < 18:
                fields.append({"list": draw(build(depth + 1, f"{name}l{i}"))})
            elif r < 30:
                fields.append({"fmt": "bits"})
            else:
                fields.append({"fmt": draw(st.sampled_from(plain_formats))})
        if "raw" in _ser()[1] and draw(st.integers(0, 7)) == 0:
            if len(fields) == 12:
                fields.pop()
            fields.append({"fmt": "raw"})
        # names
        total = sum(8 if f.get("fmt") == "bits" else 1 for f in fields)
        names: list[str] = []
        for i in range(total):
            w = draw(st.sampled_from(WORDS)) if draw(st.booleans()) else f"f{i}"
            names.append(w if w not in names else f"{w}_{i}")
        defn: dict = {"name": name, "fields": fields, "names": names}
        # hooks
        hooks = {}
        k = 0
        for f in fields:
            for _ in range(8 if f.get("fmt") == "bits" else 1):
                if draw(st.integers(0, 5)) == 0:
                    tfs = ["wrap", "ident"] if ("nested" in f or "list" in f) else _formats()[f["fmt"]][1]
                    tf = draw(st.sampled_from(tfs))
                    direction = draw(st.sampled_from([(1, 1), (1, 1), (1, 0), (0, 1)]))
                    hooks[names[k]] = [tf, direction[0], direction[1]]
                k += 1
        if hooks:
            defn["hooks"] = hooks
        # defaults on a suffix of the names
        ndef = draw(st.sampled_from([0, 0, 0, 1, 1, 2, 3, total]))
        ndef = min(ndef, total)
        defaults = []
        for i in range(total - ndef, total):
            f = field_of_name(defn, i)
            which = draw(st.integers(0, 9))
            if which < 5:
                w = draw(_value_strategy(f))
                h = hooks.get(names[i])
                if h is not None and h[1]:
                    # attribute-domain value: U(wire value); built on the model side and re-encoded
                    w = _enc_attr(TF[h[0]][1], w)
                defaults.append([names[i], w])
            elif which < 6:
                defaults.append([names[i], None])
            else:
                defaults.append([names[i], draw(odd)])
        if defaults:
            defn["defaults"] = defaults
        # shapes
        single_prefix = 0
        for f in fields:
            if f.get("fmt") == "bits":
                break
            single_prefix += 1
        if single_prefix and draw(st.integers(0, 6)) == 0:
            defn["old"] = draw(st.integers(1, single_prefix))
        if draw(st.integers(0, 3)) == 0:
            defn["sub"] = 1
        if draw(st.integers(0, 3)) == 0:
            defn["mixed"] = 1
        if draw(st.booleans()):
            defn["native"] = 1
        if len(fields) > 1 and draw(st.integers(0, 2)) == 0:
            defn["extends"] = [draw(st.integers(1, len(fields) - 1)), draw(st.integers(0, 1)), draw(st.integers(0, 1))]
        if hooks and draw(st.integers(0, 2)) == 0:
            defn["static_hooks"] = draw(st.integers(1, 2))
        if hooks and draw(st.integers(0, 3)) == 0:
            defn["override"] = 1
        if defaults and draw(st.integers(0, 3)) == 0:
            defn["wrapped"] = 1
        if defaults and draw(st.integers(0, 3)) == 0:
            defn["kw_only"] = 1
        if depth > 0 and not hooks and not defaults and all("fmt" in f and f["fmt"] != "bits" for f in fields) and \
                draw(st.integers(0, 2)) == 0:
            for k in ("old", "sub", "mixed", "extends", "native"):
                defn.pop(k, None)
            defn["bare"] = 1
        return defn

    @st.composite
    def case(draw) -> tuple:
        defn = draw(build(0, "D"))
        insts = draw(st.lists(_inst_strategy(defn), min_size=1, max_size=6))
        return defn, insts

    return case()


def _enc_attr(U: Any, encoded_wire: Any) -> Any:
    """
    Encode U(wire) for an encoded wire value; nested instance values stay symbolic ({"p": ...}).
    """
    if isinstance(encoded_wire, dict) and "p" in encoded_wire or \
            isinstance(encoded_wire, list) and any(isinstance(x, dict) and "p" in x for x in encoded_wire):
        # only wrap / ident are offered for nested fields
        if U is TF["wrap"][1]:
            return {"t": ["w", encoded_wire]}
        return encoded_wire
    return enc(U(dec(encoded_wire, None, None)))


def _plain_formats(ctx: Ctx | None = None) -> list[str]:
    _, registered = _ser()
    table = _formats()
    special = {"payload", "payload-list", "bits", "raw"}
    known = [f for f in registered if f in table and f not in special]
    missing = [f for f in registered if f not in table and f not in special]
    if ctx is not None and missing:
        ctx.note("registered_formats_without_generator", missing)
    if len(known) < 10:
        raise HarnessError(f"only {len(known)} registered formats have a generator")
    return sorted(known) + ["json", "json"]


def _random_shard(ctx: Ctx, shard: int, nshards: int, n: int) -> None:
    settled: set = set()

    def body(x: tuple) -> None:
        defn, insts = x
        try:
            run_definition(ctx, defn, insts)
        except Violation as v:
            if v.sig not in settled:
                raise
            ctx.violation(v)    # shrunk in an earlier round already: keep the smaller case, no new shrink pass
    # rounds: a fresh Hypothesis engine every 500 definitions keeps its choice tree (and the memory) small
    strategy = _definition_strategy(_plain_formats(ctx))
    done, rnd = 0, 0
    while done < n:
        step = min(500, n - done)
        hyp_run(ctx, f"definitions:{rnd}", strategy, body, step, shrink_examples=120 if ctx.quick else 300)
        done += step
        rnd += 1
        settled.update(ctx.violations)


# ---- part (a): shipped definitions ---------------------------------------------------------------------------

def _import_all() -> list[str]:
    import ipv8
    failed = []

    def onerror(name: str) -> None:
        failed.append(name)

    for m in pkgutil.walk_packages(ipv8.__path__, "ipv8.", onerror=onerror):
        if ".test" in m.name or m.name.endswith(".test"):
            continue
        try:
            importlib.import_module(m.name)
        except BaseException:  # optional dependencies (REST, netifaces, Windows-only modules)
            failed.append(m.name)
    return sorted(set(failed))


def _shipped_classes() -> list[type]:
    from ipv8.messaging.lazy_payload import VariablePayload
    seen, todo = {}, [VariablePayload]
    while todo:
        c = todo.pop()
        for s in c.__subclasses__():
            key = (s.__module__, s.__qualname__)
            if key not in seen:
                seen[key] = s
                todo.append(s)
    return [c for (mod, _), c in sorted(seen.items())
            if mod.startswith("ipv8.") and ".test" not in mod and len(c.format_list) > 0]


def defn_from_class(cls: type, top: bool = True) -> dict:
    """
    Definition data of a shipped class (raises Inexpressible when it uses something the model cannot follow).
    """
    from ipv8.messaging.lazy_payload import VariablePayload
    from ipv8.messaging.serialization import Payload, Serializable
    import abc
    for b in cls.__mro__[1:]:
        if not issubclass(b, VariablePayload) and b not in (Payload, Serializable, abc.ABC, object):
            raise Inexpressible(f"foreign base {b.__name__}")
    fields = []
    for f in cls.format_list:
        if isinstance(f, str):
            if f not in _formats():
                raise Inexpressible(f"no generator for format {f}")
            fields.append({"fmt": f})
        elif isinstance(f, list):
            fields.append({"list": defn_from_class(f[0], False)})
        elif inspect.isclass(f) and issubclass(f, VariablePayload):
            fields.append({"nested": defn_from_class(f, False)})
        else:
            raise Inexpressible(f"format {f!r}")
    defn: dict = {"name": cls.__name__, "fields": fields, "names": list(cls.names), "lib_cls": cls,
                  "lib": f"{cls.__module__}:{cls.__qualname__}"}
    if sum(8 if f.get("fmt") == "bits" else 1 for f in fields) != len(cls.names):
        raise Inexpressible("names do not cover the format list")
    hooks = {}
    for n in cls.names:
        p, u = getattr(cls, "fix_pack_" + n, None), getattr(cls, "fix_unpack_" + n, None)
        if p is not None or u is not None:
            hooks[n] = [None if p is None else (lambda fn: lambda v: fn(None, v))(p),
                        None if u is None else (lambda fn: lambda w: fn(w))(u)]
    if hooks:
        defn["hooks"] = hooks
    params = list(inspect.signature(cls.__init__).parameters.values())[1:]
    dflt = [[p.name, p.default] for p in params if p.default is not inspect.Parameter.empty and p.name in cls.names]
    if dflt:
        if [n for n, _ in dflt] != list(cls.names)[len(cls.names) - len(dflt):]:
            raise Inexpressible("defaults are not a suffix")
        defn["defaults"] = dflt
    return defn


def _lookup(path: str) -> type:
    mod, qual = path.split(":")
    obj: Any = importlib.import_module(mod)
    for part in qual.split("."):
        obj = getattr(obj, part)
    return obj


def _library_shard(ctx: Ctx, shard: int, nshards: int, n: int) -> None:
    from hypothesis import strategies as st
    classes = _shipped_classes()
    skipped = {}
    for idx, cls in enumerate(classes):
        if idx % nshards != shard:
            continue
        try:
            defn = defn_from_class(cls)
        except Inexpressible as e:
            skipped[f"{cls.__module__}:{cls.__qualname__}"] = str(e)
            continue

        def body(insts: list, defn: dict = defn) -> None:
            run_definition(ctx, defn, insts, kinds=("twin", "shipped"))
        hyp_run(ctx, "lib:" + defn["lib"], st.lists(_inst_strategy(defn), min_size=1, max_size=4), body, n,
                shrink_examples=100 if ctx.quick else 300)
        ctx.count("shipped-classes")
    if skipped:
        ctx.note("shipped_classes_skipped", skipped)


# ---- entry points -------------------------------------------------------------------------------------------

def run(ctx: Ctx) -> None:
    failed = _import_all()
    ctx.note("modules_not_importable", failed)
    ctx.note("shipped_definitions", len(_shipped_classes()))
    shard_run(ctx, _library_shard, extra=(25 if ctx.quick else 400,))
    shard_run(ctx, _random_shard, extra=(150 if ctx.quick else 6000,))


def replay(ctx: Ctx, case: dict) -> None:
    d = case["defn"]
    insts = [case["inst"]] if case.get("inst") is not None else []
    if "lib" in d:
        _import_all()
        run_definition(None, defn_from_class(_lookup(d["lib"])), insts, kinds=("twin", "shipped"))
    else:
        run_definition(None, d, insts)
