"""
C01 - signed handlers run only for authentic, untampered datagrams.

Valid datagrams are captured from scripted honest runs of every shipped overlay (pv.capture, regenerated from the
working tree on every run). Each is mutated (bit flips at every byte, every truncation, extensions, embedded-key
substitution, signature by another key, fully re-signed by an attacker key, payload splices, prefix and message-id
swaps, key-length field edits, replay to a sibling overlay with another community id) and delivered to the live
receiver through the production receive path. A reference verdict ``ref_valid`` is computed from the bytes alone with
the Rust signature primitive (pv.sigref). Oracle:
  V1 an authenticated (lazy_wrapper / lazy_wrapper_wd) inner handler was entered  =>  ref_valid(x);
  V2 the peer handed to it carries exactly the key embedded in x;
  V3 not ref_valid(x) and x names an authenticated id  =>  the receiver sent nothing and gained no verified peer
     (effect oracle - also covers handlers that authenticate by hand);
  V4 the unmodified datagram does enter its handler (a check that rejects everything is caught);
  V5 the ids whose handlers are signed-decorated (or authenticate by hand) are exactly those of specs/auth_table.json,
     and every id of the table that occurs in honest traffic was really signed by the honest sender.
"""
from __future__ import annotations

import json
import os
import struct

from .. import capture, keypool, vloop
from ..core import ROOT, Ctx, HarnessError, Violation, shard_run
from ..instrument import SIGNED_KINDS, declared_auth, trace_inner_handlers
from ..sigref import ref_valid, sign_with

PID = "C01"
LEVEL = "exploration"
RULE = ("[plus overlays configured anonymize=True on a TunnelEndpoint; two-step mutants (authentic datagram under a mixed key, then a foreign signature)] for each of 8 scripted overlay runs every datagram the observed node received (valid by the reference verdict) is "
        "mutated: three bit flips per byte position (thorough: all 8 bits), every truncation length, 3 extensions, 6 "
        "key/signature substitutions, splices with up to 6 other datagrams, prefix swap, swap to every registered message "
        "id, key-length edits, sibling-community replay - exhaustive over positions for the captured corpus. Non-trivial = "
        "the mutant still carries the receiver's prefix and an authenticated message id and its authentication header "
        "parses (so the signature comparison decides); distinct = (scenario, message id, operator, position).")
ASSUMPTIONS = [
    "the signature schemes themselves (Rust extension) are trusted; ref_valid calls the primitive directly",
    "specs/auth_table.json is the documented set of authenticated message ids",
    "mutants are delivered to the receiver in its state at the end of the honest run",
]

ATTACKER, OTHER = 20, 21      # key pool indices never used by scenario nodes


def load_table() -> dict:
    with open(os.path.join(ROOT, "specs", "auth_table.json")) as f:
        return json.load(f)


def expected_signed(overlay) -> tuple[set, set]:
    """
    (signed ids, unsigned ids) the documentation prescribes for this overlay class.
    """
    t = load_table()
    signed = set(t["inherit"]["signed"])
    unsigned = set(t["inherit"]["unsigned"])
    for cls in type(overlay).__mro__:
        e = t.get(cls.__name__)
        if e:
            signed |= set(e.get("signed", [])) | set(e.get("by_hand", []))
            unsigned |= set(e.get("unsigned", []))
    return signed, unsigned


def mutations(d: bytes, corpus: list[bytes], ids: list[int], thorough: bool, other_prefix: bytes,
              known_keys: tuple = (), sender_priv: bytes | None = None):
    """
    Yield (operator, position, mutated bytes).
    """
    n = len(d)
    for i in range(n):
        bits = range(8) if thorough else (i % 8, (i + 3) % 8, (i + 5) % 8)
        for b in bits:
            x = bytearray(d)
            x[i] ^= 1 << b
            yield ("flip", i * 8 + b, bytes(x))
    for ln in range(n):
        yield ("truncate", ln, d[:ln])
    for k in (1, 2, 64):
        yield ("extend", k, d + b"\x00" * k)
        yield ("extend_ff", k, d + b"\xff" * k)
    ok, key_bin, siglen = ref_valid(d)
    if key_bin is not None and siglen:
        klen = len(key_bin)
        body = d[:-siglen]
        for idx, curve in ((ATTACKER, "curve25519"), (OTHER, "very-low")):
            other_pub = keypool.key(idx, curve).pub().key_to_bin()
            priv = keypool.private_bin(idx, curve)
            # (a) another key embedded, original signature kept
            if len(other_pub) == klen:
                yield (f"key_subst_same_len:{curve}", 0, d[:25] + other_pub + d[25 + klen:])
            yield (f"key_subst:{curve}", 0, d[:23] + struct.pack(">H", len(other_pub)) + other_pub + d[25 + klen:])
            # (b) victim's key embedded, signature made by the attacker's key
            yield (f"foreign_signature:{curve}", 0, sign_with(priv, body))
            # (c) attacker embeds its own key and signs: a genuinely valid message of the attacker
            own = d[:23] + struct.pack(">H", len(other_pub)) + other_pub + d[25 + klen:-siglen]
            yield (f"resigned_by_attacker:{curve}", 0, sign_with(priv, own))
        # (b') two steps: first an AUTHENTIC datagram under a key made of the victim's encryption half and the attacker's
        # signing half (signed by the attacker, who owns that signing half), then the victim's real key with the
        # attacker's signature - whatever the first one left behind must not help the second
        if key_bin.startswith(b"LibNaCLPK:") and klen == 74:
            a_pub = keypool.key(ATTACKER, "curve25519").pub().key_to_bin()
            a_priv = keypool.private_bin(ATTACKER, "curve25519")
            mixed = b"LibNaCLPK:" + key_bin[10:42] + a_pub[42:74]
            prime = sign_with(a_priv, d[:25] + mixed + d[25 + klen:-siglen])
            yield ("mixed_key_then_foreign_signature", 0, (prime, sign_with(a_priv, body)))
            # the same for a victim the receiver has never heard of (nothing about its key is known or cached yet)
            v2 = keypool.key(OTHER, "curve25519").pub().key_to_bin()
            mixed2 = b"LibNaCLPK:" + v2[10:42] + a_pub[42:74]
            prime2 = sign_with(a_priv, d[:25] + mixed2 + d[25 + klen:-siglen])
            yield ("mixed_key_then_foreign_signature:unseen", 0, (prime2, sign_with(a_priv, d[:25] + v2 + d[25 + klen:-siglen])))
        # (d) keys the receiver has a special relation with - its own key, keys of peers it has verified - embedded with
        # the original signature kept, and with a signature made by the attacker's key
        for label, pub in known_keys:
            if pub == key_bin:
                continue
            forged = d[:23] + struct.pack(">H", len(pub)) + pub + d[25 + klen:]
            yield (f"key_subst:{label}", 0, forged)
            yield (f"foreign_signature:{label}", 0, sign_with(keypool.private_bin(ATTACKER, "curve25519"), forged[:-siglen]))
        # (e) the real sender of this datagram - a peer the receiver has verified, at its own address - claims another
        # key and signs everything with its OWN key (delivered from the original source address)
        if sender_priv is not None:
            claimed = [(lab, pub) for lab, pub in known_keys if pub != key_bin] + \
                [("unseen", keypool.key(OTHER, "curve25519").pub().key_to_bin())]
            for label, pub in claimed:
                forged = d[:23] + struct.pack(">H", len(pub)) + pub + d[25 + klen:-siglen]
                yield (f"sender_signs_for:{label}", 0, sign_with(sender_priv, forged))
        for delta in (-1, 1, 255):
            yield ("keylen_field", delta, d[:23] + struct.pack(">H", (klen + delta) & 0xFFFF) + d[25:])
        # splice: header + signature of d, payload region of another datagram
        for j, e in enumerate(corpus[:6]):
            ok2, kb2, sl2 = ref_valid(e)
            if e is d or kb2 is None or not sl2:
                continue
            yield ("splice", j, d[:25 + klen] + e[25 + len(kb2):-sl2] + d[-siglen:])
            yield ("splice_sig", j, d[:-siglen] + e[-sl2:])
    yield ("prefix_swap", 0, other_prefix + d[22:])
    yield ("prefix_flip_version", 0, d[:1] + bytes([d[1] ^ 3]) + d[2:])
    for mid in ids:
        if n > 22 and mid != d[22]:
            yield ("msgid_swap", mid, d[:22] + bytes([mid]) + d[23:])


class Bench:
    """
    A finished honest run with the observed receiver kept alive for mutant deliveries.
    """

    def __init__(self, ctx: Ctx | None, scenario: str) -> None:
        self.ctx = ctx
        self.scenario = scenario
        self.entered: list = []

    def fail(self, clause: str, site: str, msg: str, case: dict) -> None:
        raise Violation(clause, site, msg, case)

    async def setup(self, loop) -> None:
        self.loop = loop
        self.env = await capture.run_scenario(loop, self.scenario)
        env = self.env
        self.ov, self.node = env.target_overlay, env.target_node
        self.prefix = self.ov.get_prefix()
        self.corpus = [(fl.src, fl.data) for fl in env.net.delivered
                       if fl.dst == self.node.address and fl.data[:22] == self.prefix and len(fl.data) > 22]
        self.signed_ids, self.unsigned_ids = expected_signed(self.ov)
        self.declared = declared_auth(self.ov)
        self.restore = trace_inner_handlers(self.ov, self.record)
        # a sibling overlay of another community id on the same node (replay target)
        from ipv8.community import Community
        sib = type("Sibling", (Community,), {"community_id": b"\x5a" * 20})
        self.sibling = self.node.add(sib)
        self.sib_entered: list = []
        # freeze the neighbours: only the receiver's reactions are of interest
        for nd in env.nodes:
            if nd is not self.node:
                nd.raw_endpoint.close()

    async def deliver_with_failing_send(self, src: tuple, data: bytes) -> None:
        """
        The genuine datagram arrives while the node cannot send (network unreachable): whatever the handler leaves
        behind when its answer fails must not matter to the datagrams that follow.
        """
        ep = self.node.raw_endpoint

        def unreachable(address, packet):
            raise OSError(101, "Network is unreachable")
        ep.send = unreachable
        try:
            ep.deliver(src, data)
            # handlers may be coroutines: they get the loop (no time passes) while sending still fails, so that no
            # late answer to the genuine datagram is mistaken for a reaction to the mutant that follows
            import asyncio
            for _ in range(5):
                await asyncio.sleep(0)
        finally:
            del ep.send

    def record(self, overlay, ids, kind, first) -> None:
        if overlay is self.ov:
            self.entered.append((tuple(ids), kind, first))

    def deliver(self, src: tuple, data: bytes) -> dict:
        """
        Deliver one datagram to the receiver; report what happened.
        """
        ov, node = self.ov, self.node
        self.entered.clear()
        before_sent = len(node.raw_endpoint.sent)
        before_keys = set(ov.network.verified_by_public_key_bin) | {p.public_key.key_to_bin() for p in ov.network.verified_peers}
        esc_before = len(node.raw_endpoint.escaped)
        self._addr_before = self.peer_addresses()
        node.raw_endpoint.deliver(src, data)
        # handlers may be coroutines: give them the loop once, without letting time pass
        return {"before_sent": before_sent, "before_keys": before_keys, "esc_before": esc_before}

    def peer_addresses(self) -> dict:
        """
        What the receiver has on record for its verified peers: key -> addresses (by class) and the preferred one.
        """
        out = {}
        for p in self.ov.network.verified_peers:
            out[p.public_key.key_to_bin()] = (tuple(sorted((k.__name__, tuple(v)) for k, v in p.addresses.items())),
                                              tuple(p.address))
        return out

    async def judge(self, src: tuple, data: bytes, case: dict, original: bool = False) -> bool:
        """
        Returns True if the case was non-trivial.
        """
        ov, node = self.ov, self.node
        marks = self.deliver(src, data)
        for _ in range(3):
            import asyncio
            await asyncio.sleep(0)
        valid, key_bin, siglen = ref_valid(data)
        mid = data[22] if len(data) > 22 else None
        has_prefix = data[:22] == self.prefix
        op = case["op"]
        site_id = f"{self.scenario}:msg{case['msg_id']}"
        if len(node.raw_endpoint.escaped) > marks["esc_before"] and self.ctx is not None:
            # an exception leaving the receive path is judged by C03; here it is only counted
            self.ctx.count("escaped_exceptions_seen(judged by C03)")
        signed_entries = [en for en in self.entered if en[1] in SIGNED_KINDS]
        for ids, kind, peer in signed_entries:
            if not (valid and has_prefix):
                self.fail("V1", f"{site_id}:{op.split(':')[0]}", f"authenticated handler for id {mid} ({kind}) was entered for a "
                                                                 f"datagram whose signature does not verify ({op} at "
                                                                 f"{case['pos']})", case)
            if peer.public_key.key_to_bin() != key_bin:
                self.fail("V2", f"{site_id}:{op.split(':')[0]}", f"handler for id {mid} was given a peer with another key than "
                                                                 f"the one embedded in the datagram ({op})", case)
        if original:
            if mid in self.signed_ids and self.declared.get(mid) in SIGNED_KINDS and not signed_entries:
                self.fail("V4", site_id, f"the unmodified valid datagram with id {mid} did not reach its handler", case)
            return False
        nontrivial = bool(has_prefix and mid in self.signed_ids and key_bin is not None)
        if has_prefix and mid in self.signed_ids and not valid:
            new_sent = node.raw_endpoint.sent[marks["before_sent"]:]
            if new_sent:
                self.fail("V3", f"{site_id}:reply:{op.split(':')[0]}", f"the receiver answered (message id {new_sent[0].data[22]}) "
                                                                       f"to a datagram with id {mid} that is not validly signed "
                                                                       f"({op} at {case['pos']})", case)
            now_addr = self.peer_addresses()
            moved = [k for k in self._addr_before if k in now_addr and now_addr[k] != self._addr_before[k]]
            if moved:
                k0 = moved[0]
                self.fail("V3", f"{site_id}:peer_entry:{op.split(':')[0]}",
                          f"a datagram that is not validly signed ({op} at {case['pos']}, from {src}) changed what the receiver "
                          f"has on record for verified peer {k0[-6:].hex()}: {self._addr_before[k0]} -> {now_addr[k0]}", case)
            now_keys = set(ov.network.verified_by_public_key_bin) | {p.public_key.key_to_bin() for p in ov.network.verified_peers}
            gained = now_keys - marks["before_keys"]
            if gained:
                self.fail("V3", f"{site_id}:verified_peer:{op.split(':')[0]}", f"a datagram that is not validly signed ({op}) made "
                                                                               f"the receiver add a verified peer", case)
        return nontrivial


def run_scenario_case(ctx: Ctx | None, scenario: str, shard: int, nshards: int, thorough: bool,
                      only: dict | None = None) -> None:
    async def main(loop):
        b = Bench(ctx, scenario)
        await b.setup(loop)
        try:
            ov = b.ov
            # V5: declared decorators vs documented table
            for mid, kind in b.declared.items():
                is_signed = kind in SIGNED_KINDS or (mid in load_table().get(type(ov).__name__, {}).get("by_hand", [])
                                                     and any(mid in load_table().get(c.__name__, {}).get("by_hand", [])
                                                             for c in type(ov).__mro__))
                if mid in b.signed_ids and not is_signed:
                    raise Violation("V5", f"{type(ov).__name__}:msg{mid}", f"{type(ov).__name__} handles message id {mid} with "
                                    f"'{kind}' although the protocol requires it to be authenticated",
                                    {"scenario": scenario, "v5": mid})
            if only is None and shard == 0:
                ids_seen = {}
                for src, d in b.corpus:
                    ids_seen.setdefault(d[22], []).append(ref_valid(d)[0])
                for mid, flags in ids_seen.items():
                    if mid in b.signed_ids and not all(flags):
                        raise Violation("V5", f"{type(ov).__name__}:msg{mid}:unsigned_sender", f"honest senders emitted message id "
                                        f"{mid} without a valid signature although it must be authenticated",
                                        {"scenario": scenario, "v5": mid})
            ids = sorted(i for i, h in enumerate(ov.decode_map) if h is not None)
            datas = [d for _, d in b.corpus]
            k = 0
            for ci, (src, d) in enumerate(b.corpus):
                valid = ref_valid(d)[0]
                base = {"scenario": scenario, "index": ci, "msg_id": d[22]}
                if only is not None and only["index"] != ci:
                    continue
                if only is None:
                    # V4 first: the unmodified datagram
                    await b.judge(src, d, {**base, "op": "original", "pos": 0}, original=valid)
                # a datagram is mutated whether or not it is signed: unsigned ones must not become accepted as signed
                known = [("receiver", b.ov.my_peer.public_key.key_to_bin())] + \
                    [(f"verified_peer{i}", p.public_key.key_to_bin())
                     for i, p in enumerate(sorted(b.ov.get_peers(), key=lambda p: p.public_key.key_to_bin())[:2])]
                sender = next((nd for nd in b.env.nodes if tuple(nd.address) == tuple(src)), None)
                sender_priv = sender.key.key_to_bin() if sender is not None and hasattr(sender, "key") else None
                if sender_priv is not None and not sender_priv.startswith(b"LibNaCLSK:"):
                    sender_priv = None
                for op, pos, x in mutations(d, datas, ids, thorough, b.sibling.get_prefix(), tuple(known), sender_priv):
                    k += 1
                    if only is not None:
                        if (op, pos) != (only["op"], only["pos"]):
                            continue
                    elif k % nshards != shard:
                        continue
                    case = {**base, "op": op, "pos": pos}
                    if only.get("after_failed_send") if only is not None else (k // nshards) % 5 == 2:
                        # history: the genuine datagram is handled first while the receiver's own sends fail
                        case["after_failed_send"] = 1
                        await b.deliver_with_failing_send(src, d)
                    if isinstance(x, tuple):
                        # a two-step mutant: the first datagram is delivered (it is a valid message of another identity),
                        # the second one is judged
                        b.node.raw_endpoint.deliver(("6.6.6.6", 6000), x[0])
                        import asyncio
                        for _ in range(3):
                            await asyncio.sleep(0)
                        x = x[1]
                    # src variations: original source, and a spoofed one
                    try:
                        nt = await b.judge(src if pos % 2 == 0 else ("6.6.6.6", 6000), x, case)
                    except Violation as v:
                        if ctx is None:
                            raise
                        ctx.violation(v)
                        nt = True
                    if ctx is not None:
                        ctx.case(hash((scenario, d[22], op, pos, ci)) & ((1 << 60) - 1), nt,
                                 cls=f"{scenario}:{op.split(':')[0]}",
                                 sample={"scenario": scenario, "msg_id": d[22], "op": op, "pos": pos, "len": len(x)})
                # sibling replay: the unchanged datagram and one re-addressed to the sibling's prefix
                if only is None and ci % nshards == shard:
                    for variant, x in (("replay_unchanged", d), ("replay_readdressed", b.sibling.get_prefix() + d[22:])):
                        b.entered.clear()
                        sent0 = len(b.node.raw_endpoint.sent)
                        b.node.raw_endpoint.deliver(src, x)
                        if variant == "replay_readdressed" and len(b.node.raw_endpoint.sent) != sent0 and d[22] in b.signed_ids:
                            raise Violation("V3", f"{scenario}:sibling", "a datagram re-addressed to another community id was "
                                            "answered although its signature cannot be valid", {**base, "op": variant, "pos": 0})
                        if ctx is not None:
                            ctx.case(hash((scenario, ci, variant)) & ((1 << 60) - 1), d[22] in b.signed_ids,
                                     cls=f"{scenario}:{variant}")
            if scenario == "dht" and (only is None and shard == 0 or only is not None and only.get("inflight")):
                # an ANSWER is judged while the request it answers is still pending at the receiver: the receiver pings a
                # neighbour, the neighbour's genuine ping-response is held back, mutants of it (among them: signed by the
                # neighbour itself but carrying another key) arrive first, the genuine one last
                from ipv8.dht.routing import Node as DHTNode
                from ipv8.messaging.interfaces.udp.endpoint import UDPv4Address
                nb = next(nd for nd in b.env.nodes if nd is not b.node)
                held: list = []

                def hold(fl):
                    if fl.origin is nb.raw_endpoint and fl.dst == b.node.address and len(fl.data) > 22 and fl.data[22] == 2:
                        held.append(fl)
                        return []
                    return None
                nb.raw_endpoint.open_now()
                b.env.net.on_send = hold
                b.ov.ping(DHTNode(nb.key.pub().key_to_bin(), UDPv4Address(*nb.address)))
                await b.env.net.settle()
                b.env.net.on_send = None
                nb.raw_endpoint.close()
                if held:
                    d, src = held[0].data, held[0].src
                    base = {"scenario": scenario, "index": -2, "msg_id": d[22], "inflight": 1}
                    known = [("receiver", b.ov.my_peer.public_key.key_to_bin())] + \
                        [(f"verified_peer{i}", p.public_key.key_to_bin()) for i, p in enumerate(
                            sorted((p for p in b.ov.get_peers() if p.public_key.key_to_bin() != nb.key.pub().key_to_bin()),
                                   key=lambda p: p.public_key.key_to_bin())[:2])]
                    spriv = nb.key.key_to_bin()
                    for op, pos, x in mutations(d, [dd for _, dd in b.corpus], ids, False, b.sibling.get_prefix(), tuple(known),
                                                spriv if spriv.startswith(b"LibNaCLSK:") else None):
                        if op.split(":")[0] in ("flip", "truncate") and pos % 16:
                            continue
                        if only is not None and (op, pos) != (only["op"], only["pos"]):
                            continue
                        case = {**base, "op": op, "pos": pos}
                        try:
                            nt = await b.judge(src, x, case)
                        except Violation as v:
                            if ctx is None:
                                raise
                            ctx.violation(v)
                            nt = True
                        if ctx is not None:
                            ctx.case(hash((scenario, "inflight", op, pos)) & ((1 << 60) - 1), nt, cls=f"{scenario}:inflight:" + op.split(":")[0])
                    if only is None:
                        await b.judge(src, d, {**base, "op": "original", "pos": 0}, original=True)
            if not b.corpus:
                raise HarnessError(f"scenario {scenario} produced no datagram for the observed node")
        finally:
            b.restore()
            await b.env.close()
    vloop.run(main)


def _shard(ctx: Ctx, shard: int, nshards: int, thorough: bool) -> None:
    for scenario in capture.CORPUS_SCENARIOS:
        try:
            run_scenario_case(ctx, scenario, shard, nshards, thorough)
        except Violation as v:
            ctx.violation(v)


def run(ctx: Ctx) -> None:
    shard_run(ctx, _shard, extra=(not ctx.quick,))


def replay(ctx: Ctx, case: dict) -> None:
    if "v5" in case:
        run_scenario_case(None, case["scenario"], 0, 1, False, only={"index": -1, "op": None, "pos": None})
        return
    run_scenario_case(None, case["scenario"], 0, 1, True, only=case)
