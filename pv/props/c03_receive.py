"""
C03 - no datagram can make the receive path fail or over-read.

Node level. A multiplexed node carries every shipped overlay on one endpoint (Discovery, DHTDiscovery, HiddenTunnel with its
crypto listener, Pex, Identity, Attestation, a plain Community) plus a catch-all listener registered last; the same
set also sits on real (never opened) UDPEndpoint / UDPv6Endpoint objects whose ``datagram_received`` entry is called
directly. Inputs: (i) exhaustive - every byte string of length 0..2, every registered prefix alone, prefix + every id
0..255 with short bodies, every truncation of every datagram captured from honest runs (incl. cells cut inside their
29-byte header); (ii) Hypothesis - captured datagrams with length fields rewritten, blocks duplicated / removed,
random bodies after valid prefixes up to 1500 bytes, odd source addresses; (iii) thorough: Atheris coverage-guided
fuzzing of the same entry point. Oracle:
  N1 notify_listeners / datagram_received returns normally;
  N2 the catch-all listener and every listener registered for that prefix received the datagram exactly once;
  N3 a message handler of overlay X runs only if the first 22 bytes are X's prefix (also when the datagram is handed
     to X.on_packet itself: every captured message kind with one prefix byte altered).

Decode level (pv.c03_decode): every Serializable class / packer on truncated and length-corrupted buffers, judged
against the independent structural walker of pv.refcodec (D1 end offset, D2 truncation must be rejected), and
Network.load_snapshot on arbitrary bytes (D3).
"""
from __future__ import annotations

import asyncio
import itertools
import os
import struct
import subprocess
import sys

from .. import capture, vloop
from ..core import ROOT, Ctx, HarnessError, Violation, hyp_run, shard_run

PID = "C03"
LEVEL = "exploration"
RULE = ("[plus: every captured message kind handed to the overlay's own on_packet with one prefix byte altered; the node's peer graph holds two strangers that announced the same LAN address] node level: all 65 793 byte strings of length <= 2, 8 prefixes x 256 ids x 27 short bodies, every truncation of "
        "every captured datagram (8 scripted overlay runs), Hypothesis-structured corruptions up to 1500 bytes, delivered to "
        "a multiplexed node through SimEndpoint.notify_listeners and through UDPEndpoint/UDPv6Endpoint.datagram_received; "
        "thorough adds Atheris (libFuzzer) campaigns on the same entry. decode level: all truncations and length-prefix "
        "rewrites of valid encodings of every Serializable class and packer, load_snapshot on arbitrary bytes. Non-trivial = "
        "the datagram carries a registered prefix (node level) / the buffer is a strict truncation or has a length field "
        "disagreeing with the bytes present (decode level); distinct = digest of the bytes (node) or (class, mutation).")
ASSUMPTIONS = [
    "exceptions raised inside asynchronous handlers after on_packet returned are outside the statement",
    "pv.refcodec (written from the documented wire table) is the reference for declared lengths",
    "the Atheris tier needs the atheris wheel installed by setup.sh; if it is missing the tier is skipped and says so",
]


class CatchAll:
    pass


def build_mux(loop, endpoint, my_peer, network_cls):
    """
    All shipped overlays on one endpoint + a catch-all listener registered last. Returns (overlays, recorder, trace).
    """
    from ipv8.attestation.identity.community import IdentityCommunity
    from ipv8.attestation.identity.manager import IdentityManager
    from ipv8.attestation.wallet.community import AttestationCommunity
    from ipv8.community import Community
    from ipv8.dht.discovery import DHTDiscoveryCommunity
    from ipv8.messaging.anonymization.hidden_services import HiddenTunnelCommunity as TunnelCommunity
    from ipv8.messaging.anonymization.pex import PexCommunity
    from ipv8.messaging.interfaces.endpoint import EndpointListener
    from ipv8.peerdiscovery.community import DiscoveryCommunity

    network = network_cls()
    overlays = []

    def add(cls, **kw):
        st = cls.settings_class(my_peer=my_peer, endpoint=endpoint, network=network)
        for k, v in kw.items():
            setattr(st, k, v)
        ov = cls(st)
        ov.my_estimated_wan = ("1.0.0.1", 8000)
        ov.my_estimated_lan = ("1.0.0.1", 8000)
        overlays.append(ov)
        return ov
    add(DiscoveryCommunity)
    add(DHTDiscoveryCommunity)
    t = add(TunnelCommunity)
    t.settings.peer_flags = {1, 2, 4, 8}
    add(PexCommunity, info_hash=b"\x07" * 20)
    add(IdentityCommunity, identity_manager=IdentityManager(":memory:"))
    add(AttestationCommunity, working_directory=":memory:")
    add(type("PlainCommunity", (Community,), {"community_id": b"\x11" * 20}))
    # listeners that SHARE a prefix: a second overlay with the same community id, and the DHT base overlay next to the
    # discovery variant built on it (the library ships both under one id); each must get the datagram, once
    add(type("PlainCommunityTwin", (Community,), {"community_id": b"\x11" * 20}))
    from ipv8.dht.community import DHTCommunity
    add(DHTCommunity)

    class Recorder(EndpointListener):
        def __init__(self, ep):
            super().__init__(ep)
            self.got = []

        def on_packet(self, packet):
            self.got.append(packet[1])
    rec = Recorder(endpoint)
    endpoint.add_listener(rec)

    trace = {"on_packet": [], "handlers": []}
    listeners = list(overlays) + [t.crypto_endpoint]
    for l in listeners:
        orig = l.on_packet

        def counted(packet, *a, __l=l, __orig=orig, **kw):
            trace["on_packet"].append(__l)
            return __orig(packet, *a, **kw)
        l.on_packet = counted
    for ov in overlays:
        for i, h in enumerate(ov.decode_map):
            if h is None:
                continue

            def shim(src, data, *a, __ov=ov, __h=h, **kw):
                trace["handlers"].append((__ov, bytes(data[:22])))
                return __h(src, data, *a, **kw)
            ov.decode_map[i] = shim
    return overlays, rec, trace, listeners


class Mux:
    def __init__(self, loop, kind: str) -> None:
        from ipv8.peer import Peer
        from ipv8.peerdiscovery.network import Network
        from .. import keypool
        from ..simnet import SimEndpoint, SimNet
        self.kind = kind
        self.net = SimNet(loop, auto=False)
        key = keypool.key(0)
        if kind == "disp":
            # the endpoint object ipv8_service builds: a DispatcherEndpoint over an IPv4 and an IPv6 interface
            from ipv8.messaging.interfaces.dispatcher.endpoint import DispatcherEndpoint
            raw4 = SimEndpoint(self.net, ("1.0.0.1", 8000))
            raw6 = SimEndpoint(self.net, ("2001:db8::1", 8000))
            raw4.open_now()
            raw6.open_now()
            disp = DispatcherEndpoint([])
            disp.interfaces = {"UDPIPv4": raw4, "UDPIPv6": raw6}
            disp.interface_order = ["UDPIPv4", "UDPIPv6"]
            disp._preferred_interface = raw4  # noqa: SLF001
            self.endpoint = disp
            self.entry = lambda src, data: (raw6 if ":" in src[0] else raw4).notify_listeners((self._addr(src), data))
        elif kind in ("sim", "stats"):
            self.endpoint = SimEndpoint(self.net, ("1.0.0.1", 8000))
            self.endpoint.open_now()
            raw = self.endpoint
            self.entry = lambda src, data: raw.notify_listeners((self._addr(src), data))
            if kind == "stats":
                # the statistics decorator as configured by IPv8(enable_statistics=True): it listens on the raw endpoint
                # and the overlays are built on top of it
                from ipv8.messaging.interfaces.statistics_endpoint import StatisticsEndpoint
                self.endpoint = StatisticsEndpoint(raw)
        else:
            from ipv8.messaging.interfaces.udp.endpoint import UDPEndpoint, UDPv6Endpoint
            self.endpoint = UDPEndpoint() if kind == "udp4" else UDPv6Endpoint()
            from ..vloop import RecordingTransport
            # the socket is never opened: a recording transport stands in for it, the receive entry is called directly
            self.endpoint._transport = RecordingTransport(loop, self.endpoint,  # noqa: SLF001
                                                          ("0.0.0.0", 8000) if kind == "udp4" else ("::", 8000))
            self.endpoint._running = True  # noqa: SLF001
            self.entry = lambda src, data: self.endpoint.datagram_received(data, src)
        self.my_peer = Peer(key, ("1.0.0.1", 8000))
        self.overlays, self.rec, self.trace, self.listeners = build_mux(loop, self.endpoint, self.my_peer, Network)
        if kind == "stats":
            for ov in self.overlays:
                self.endpoint.enable_community_statistics(ov.get_prefix(), True)
        # peer graph state that earlier, valid traffic leaves behind: two strangers behind routers with the same defaults
        # (different WAN addresses, the SAME announced LAN address, never heard from again) and a peer at a source address
        from ipv8.messaging.interfaces.udp.endpoint import UDPv4Address, UDPv4LANAddress
        from .. import keypool
        seen_nets = set()
        for ov in self.overlays:
            net = getattr(ov, "network", None)
            if net is None or id(net) in seen_nets:
                continue
            seen_nets.add(id(net))
            for i in (1, 2):
                p = Peer(keypool.key(40 + i).pub().key_to_bin(), UDPv4Address("7.0.0.%d" % i, 7000 + i))
                p.add_address(UDPv4LANAddress(*SHARED_LAN))
                net.add_verified_peer(p)
            net.add_verified_peer(Peer(keypool.key(43).pub().key_to_bin(), UDPv4Address(*SOURCES[0])))
        self.prefixes = {}
        for l in self.listeners:
            p = l.get_prefix() if hasattr(l, "get_prefix") else l.prefix
            self.prefixes.setdefault(p, []).append(l)

    def _addr(self, src):
        from ipv8.messaging.interfaces.udp.endpoint import UDPv4Address, UDPv6Address
        return UDPv6Address(*src[:2]) if ":" in src[0] else UDPv4Address(*src[:2])

    def judge(self, src: tuple, data: bytes, case: dict) -> bool:
        """
        Deliver one datagram; raise Violation. Returns True if it carried a registered prefix.
        """
        tr, rec = self.trace, self.rec
        tr["on_packet"].clear()
        tr["handlers"].clear()
        rec.got.clear()
        try:
            self.entry(src, data)
        except Exception as e:  # noqa: BLE001
            import traceback
            tb = traceback.extract_tb(e.__traceback__)
            frames = [f for f in tb if "/ipv8/" in f.filename]
            where = f"{os.path.basename(frames[-1].filename)}:{frames[-1].name}" if frames else "?"
            raise Violation("N1", f"{type(e).__name__}@{where}",
                            f"{type(e).__name__}: {e} left the receive entry ({self.kind}) for a {len(data)}-byte datagram "
                            f"{data[:30].hex()}.. from {src}", case) from None
        prefix = bytes(data[:22])
        expected = self.prefixes.get(prefix, [])
        if rec.got != [data]:
            raise Violation("N2", "catch_all", f"the catch-all listener received the datagram {len(rec.got)} times", case)
        for l in expected:
            n = sum(1 for x in tr["on_packet"] if x is l)
            # the tunnel overlay itself is reached through its crypto listener
            if n != 1 and not (hasattr(l, "crypto_endpoint") and n == 0):
                raise Violation("N2", f"listener:{type(l).__name__}", f"listener {type(l).__name__} registered for this prefix was "
                                                                      f"called {n} times", case)
        for ov, head in tr["handlers"]:
            if head != ov.get_prefix():
                raise Violation("N3", f"handler:{type(ov).__name__}", f"a message handler of {type(ov).__name__} ran for a "
                                                                      f"datagram with a foreign prefix", case)
        return bool(expected)


def judge_direct(m: "Mux", idx: int, src: tuple, data: bytes, case: dict) -> None:
    """
    The datagram is handed to listener ``idx`` itself (``EndpointListener.on_packet``, the interface every endpoint -
    shipped or third-party - and the broadcast bootstrapper call): its handlers run only for its own prefix.
    """
    tr = m.trace
    tr["handlers"].clear()
    ov = m.overlays[idx]
    try:
        ov.on_packet((m._addr(src), data))
    except Exception as e:  # noqa: BLE001
        raise Violation("N1", f"{type(e).__name__}@direct:{type(ov).__name__}",
                        f"{type(e).__name__}: {e} left {type(ov).__name__}.on_packet for a {len(data)}-byte datagram "
                        f"{data[:30].hex()}..", case) from None
    for ov2, head in tr["handlers"]:
        if head != ov2.get_prefix():
            raise Violation("N3", f"handler:{type(ov2).__name__}:direct",
                            f"a message handler of {type(ov2).__name__} ran for a datagram handed to its on_packet whose "
                            f"first 22 bytes {head.hex()} are not its prefix {ov2.get_prefix().hex()}", case)


def collect_corpus() -> list[bytes]:
    out = []
    for name in capture.CORPUS_SCENARIOS:
        async def main(loop, name=name):
            # (an exception that leaves an outside socket's receive path during the honest scenario is not the corpus'
            # business: the outside-socket part of this check reports it)
            loop.transport_escaped = []
            env = await capture.run_scenario(loop, name)
            data = [fl.data for fl in env.net.log]
            await env.close()
            return data
        out += vloop.run(main)
    seen, uniq = set(), []
    for d in out:
        if d not in seen:
            seen.add(d)
            uniq.append(d)
    return uniq


SHARED_LAN = ("192.168.1.10", 8090)
SOURCES = [("1.0.0.2", 8001), ("0.0.0.0", 0), ("255.255.255.255", 65535), SHARED_LAN]
SOURCES6 = [("2001:db8::2", 8001, 0, 0), ("::", 0, 0, 0), ("::ffff:1.2.3.4", 1, 0, 0)]


def _node_shard(ctx: Ctx, shard: int, nshards: int, thorough: bool) -> None:
    corpus = collect_corpus()
    if len(corpus) < 50:
        raise HarnessError("capture corpus too small")

    async def main(loop):
        muxes = [Mux(loop, "sim"), Mux(loop, "udp4"), Mux(loop, "udp6"), Mux(loop, "stats"), Mux(loop, "disp")]
        try:
            prefixes = sorted(muxes[0].prefixes)
            k = 0

            def feed(data: bytes, cls: str, desc=None) -> None:
                nonlocal k
                k += 1
                if k % nshards != shard:
                    return
                m = muxes[k // nshards % len(muxes)]
                srcs = SOURCES6 if m.kind == "udp6" else SOURCES + SOURCES6[:1] if m.kind == "disp" else SOURCES
                src = srcs[(k // nshards // len(muxes)) % len(srcs)]
                case = {"node": m.kind, "src": list(src), "data": data}
                try:
                    nt = m.judge(src, data, case)
                except Violation as v:
                    ctx.violation(v)
                    nt = True
                ctx.case(data if len(data) > 8 else hash((data, cls)) & ((1 << 60) - 1), nt, cls=cls,
                         sample={"node": m.kind, "len": len(data), "head": data[:24].hex(), "class": cls})
            # (i) exhaustive short strings
            feed(b"", "short")
            for a in range(256):
                feed(bytes([a]), "short")
                for b in range(256):
                    feed(bytes([a, b]), "short")
            # prefixes alone and prefix + id + short bodies
            fills = [b"\x00", b"\xff", b"\x00\x4a"]
            for p in prefixes:
                for cut in range(1, 23):
                    feed(p[:cut], "prefix_cut")
                for mid in range(256):
                    for ln in range(0, 9):
                        for f in fills:
                            body = (f * 9)[:ln]
                            feed(p + bytes([mid]) + body, "prefix_id_body")
                            if ln == 0:
                                break
            # every truncation of every captured datagram
            for d in corpus:
                step = 1 if (thorough or len(d) < 80) else 3
                for ln in range(22, len(d), step):
                    feed(d[:ln], "truncation")
                for ln in range(22, min(len(d), 32)):
                    feed(d[:ln], "truncation")
                feed(d, "captured")
            # handed to the overlay's own on_packet: every captured message kind of each overlay, with one prefix byte
            # altered (another protocol version, a neighbouring service id, ...)
            per: dict = {}
            for d in corpus:
                per.setdefault((d[:22], d[22] if len(d) > 22 else -1), d)
            for mi, m in enumerate(muxes[:1]):
                for idx, ov in enumerate(m.overlays):
                    if not hasattr(ov, "get_prefix") or not hasattr(ov, "decode_map"):
                        continue
                    own = ov.get_prefix()
                    for (p, mid), d in sorted(per.items()):
                        if p != own:
                            continue
                        for pos in range(22):
                            for mask in ((1, 3, 0x80) if pos < 2 else (1,)):
                                k += 1
                                if k % nshards != shard:
                                    continue
                                alt = bytearray(d)
                                alt[pos] ^= mask
                                case = {"node": m.kind, "src": list(SOURCES[0]), "data": bytes(alt), "direct": idx}
                                try:
                                    judge_direct(m, idx, SOURCES[0], bytes(alt), case)
                                except Violation as v:
                                    ctx.violation(v)
                                ctx.case(bytes(alt), True, cls="direct_foreign_prefix")
            ctx.note("corpus_datagrams", len(corpus) if shard == 0 else 0)
        finally:
            for m in muxes:
                for ov in m.overlays:
                    try:
                        await ov.unload()
                    except BaseException:  # noqa: BLE001
                        pass
    vloop.run(main)


def _hyp_node_shard(ctx: Ctx, shard: int, nshards: int, n: int) -> None:
    from hypothesis import strategies as st
    corpus = collect_corpus()

    async def main(loop):
        muxes = {"sim": Mux(loop, "sim"), "udp4": Mux(loop, "udp4"), "udp6": Mux(loop, "udp6"), "stats": Mux(loop, "stats"),
                 "disp": Mux(loop, "disp")}
        prefixes = sorted(muxes["sim"].prefixes)
        try:
            base = st.sampled_from(corpus)

            def corrupt(draw_tuple):
                d, ops = draw_tuple
                x = bytearray(d)
                for kind, pos, val in ops:
                    if not x:
                        break
                    pos %= len(x)
                    if kind == "u16":
                        x[pos:pos + 2] = struct.pack(">H", val & 0xFFFF)
                    elif kind == "u8":
                        x[pos] = val & 0xFF
                    elif kind == "dup":
                        x[pos:pos] = x[pos:pos + (val % 64)]
                    elif kind == "del":
                        del x[pos:pos + (val % 64)]
                    elif kind == "cut":
                        del x[pos:]
                return bytes(x[:1500])
            op = st.tuples(st.sampled_from(["u16", "u16", "u8", "dup", "del", "cut"]), st.integers(22, 400),
                           st.sampled_from([0, 1, 2, 255, 256, 0x7FFF, 0xFFFF, 20, 21, 64]) | st.integers(0, 65535))
            corrupted = st.tuples(base, st.lists(op, min_size=1, max_size=4)).map(corrupt)
            random_body = st.tuples(st.sampled_from(prefixes), st.integers(0, 255), st.binary(max_size=1477)).map(
                lambda t: t[0] + bytes([t[1]]) + t[2])
            anything = st.binary(max_size=1500)
            data = st.one_of(corrupted, corrupted, random_body, anything)
            src4 = st.sampled_from(SOURCES) | st.tuples(st.ip_addresses(v=4).map(str), st.integers(0, 65535))
            src6 = st.sampled_from(SOURCES6) | st.tuples(st.ip_addresses(v=6).map(str), st.integers(0, 65535),
                                                          st.just(0), st.just(0))
            case_st = st.one_of(st.tuples(st.sampled_from(["sim", "udp4", "stats", "disp"]), src4, data),
                                st.tuples(st.sampled_from(["udp6", "disp"]), src6, data))

            def body(c):
                kind, src, d = c
                case = {"node": kind, "src": list(src), "data": d}
                nt = muxes[kind].judge(tuple(src), d, case)
                ctx.case(d, nt, cls="hyp:" + kind, sample={"node": kind, "len": len(d), "head": d[:24].hex()})
            hyp_run(ctx, "node_fuzz", case_st, body, n)
        finally:
            for m in muxes.values():
                for ov in m.overlays:
                    try:
                        await ov.unload()
                    except BaseException:  # noqa: BLE001
                        pass
    vloop.run(main)


def _decode_shard(ctx: Ctx, shard: int, nshards: int, thorough: bool) -> None:
    from .. import c03_decode
    c03_decode.run_decode(ctx, shard, nshards, thorough)


def _atheris(ctx: Ctx, seconds: int, workers: int) -> None:
    """
    Coverage-guided campaigns in child processes (libFuzzer owns the process); crashes are replayed through the oracle.
    """
    deps = os.path.join(ROOT, ".deps")
    if not os.path.isdir(os.path.join(deps, "atheris")):
        ctx.inconclusive.append("atheris not installed: coverage-guided tier skipped")
        return
    import shutil
    import tempfile
    work = tempfile.mkdtemp(prefix="c03_fuzz_", dir=os.path.join(ROOT, "scratch") if os.path.isdir(
        os.path.join(ROOT, "scratch")) else None)
    procs = []
    try:
        for w in range(workers):
            d = os.path.join(work, f"w{w}")
            os.makedirs(os.path.join(d, "corpus"))
            os.makedirs(os.path.join(d, "crashes"))
            env = dict(os.environ, PYTHONPATH=f"{ROOT}:{deps}", VERIF_FUZZ_SEED_CORPUS="1" if w % 2 else "0")
            cmd = [sys.executable, "-m", "pv.c03_fuzz", os.path.join(d, "corpus"), f"-max_total_time={seconds}",
                   f"-seed={ctx.seed * 100 + w + 1}", "-max_len=1500", f"-artifact_prefix={d}/crashes/", "-timeout=20",
                   "-print_final_stats=1"]
            procs.append((d, subprocess.Popen(cmd, env=env, stdout=subprocess.DEVNULL, stderr=subprocess.PIPE, text=True)))
        execs = 0
        for d, p in procs:
            try:
                _, err = p.communicate(timeout=seconds + 120)
            except subprocess.TimeoutExpired:
                p.kill()
                _, err = p.communicate()
            for line in err.splitlines():
                if "stat::number_of_executed_units" in line:
                    execs += int(line.split()[-1])
            for f in sorted(os.listdir(os.path.join(d, "crashes"))):
                data = open(os.path.join(d, "crashes", f), "rb").read()
                case = {"node": "sim", "src": list(SOURCES[0]), "data": data[1:], "selector": data[:1]}
                try:
                    replay(ctx, fuzz_case(data))
                except Violation as v:
                    ctx.violation(v)
        ctx.note("atheris_executions", execs)
        ctx.note("atheris_workers", workers)
        ctx.evaluations += execs
    finally:
        shutil.rmtree(work, ignore_errors=True)


def fuzz_case(raw: bytes) -> dict:
    """
    The structured-input layer shared by the fuzz target and replay: first byte selects a registered prefix (or none).
    """
    return {"node": "sim", "src": list(SOURCES[0]), "fuzz": raw}


# ---- the other transports of a node: the outside sockets of its exit sockets --------------------------------------

OUTSIDE_SEEDS = [
    bytes.fromhex("0000041727101980") + b"\x00\x00\x00\x00" + b"\x12\x34\x56\x78",          # tracker connect request
    b"\x00\x00\x00\x01" + b"\x12\x34\x56\x78" + b"\x00" * 12,                                    # tracker announce answer
    b"d1:ad2:id20:abcdefghij0123456789e1:q4:ping1:t2:aa1:y1:qe",                                   # DHT query
    b"\x21\x00\x12\x34" + b"\x00" * 16,                                                            # uTP SYN
    b"\x00\x02" + b"\x5a" * 20 + b"\xf6" + b"\x00" * 30,                                            # IPv8 shaped
    b"\xff" * 64, b"\x00" * 64, bytes(range(64)), b"\x00\x00\x00\x09" + b"\x07" * 60,
]


def _outside_shard(ctx: Ctx, shard: int, nshards: int, n: int) -> None:
    """
    "Whatever bytes arrive from whatever source, handing them to a node returns normally": the UDP sockets an exit
    node opens towards the outside world are transports of the node too.
    """
    from ..tunnelsim import World
    cfgs = [(fl, via) for fl in ((1, 2, 4), (1, 2), (1, 4), (1,)) for via in ("0.0.0.0", "::")]

    def one(flags: tuple, via: str, datagrams: list) -> None:
        async def main(loop):
            loop.transport_escaped = []
            w = World(loop, 2, flags=lambda i: set(flags) if i == 1 else {1, 2, 4})
            try:
                ek = w.nodes[1].key.pub().key_to_bin()
                exit_peer = [p for p in w.nodes[0].overlay.candidates if p.public_key.key_to_bin() == ek][0]
                c = await w.build_circuit(w.nodes[0], 1, seed=3, required_exit=exit_peer)
                if c is None:
                    raise HarnessError("circuit not built")
                w.nodes[0].overlay.send_data(c.hop.address, c.circuit_id, ("5.5.5.5", 5555), ("0.0.0.0", 0),
                                             b"d1:ad2:id20:abcdefghij0123456789e1:q4:ping1:t2:aa1:y1:qe")
                await asyncio.sleep(0.3)
                trs = [t for t in loop.transports if t.local_addr[0] == via and not t.closed]
                if not trs:
                    return
                src = ("7.7.7.7", 7777) if via == "0.0.0.0" else ("2001:db8::7", 7777, 0, 0)
                for d in datagrams:
                    trs[0].inject(d, src)
                    ctx.case(("outside", flags, via, d), len(d) in (8, 9, 10, 11, 12, 19, 20, 22, 23),
                             cls="outside:%s:len%02d" % (via, min(len(d), 65)))
                    if loop.transport_escaped:
                        e = loop.transport_escaped[0][3]
                        raise Violation("N1", "exception:outside_socket:" + type(e).__name__,
                                        f"a {len(d)}-byte datagram {d[:16].hex()} from the outside world on the exit's "
                                        f"{via} socket (exit flags {sorted(flags)}) raised {type(e).__name__}: {e} into the "
                                        f"transport", {"outside": {"flags": list(flags), "via": via, "hex": d.hex()}})
                await asyncio.sleep(0.1)
            finally:
                await w.close()
        vloop.run(main)

    fixed = []
    for sd in OUTSIDE_SEEDS:
        fixed += [sd[:k] for k in range(len(sd) + 1)]
    for k, (flags, via) in enumerate(cfgs):
        if k % nshards != shard:
            continue
        try:
            one(flags, via, fixed)
        except Violation as v:
            ctx.violation(v)
    from hypothesis import strategies as st
    strat = st.tuples(st.sampled_from(cfgs), st.lists(st.one_of(
        st.binary(max_size=64),
        st.tuples(st.sampled_from(OUTSIDE_SEEDS), st.integers(0, 64), st.binary(max_size=8)).map(
            lambda t: t[0][:t[1]] + t[2])), min_size=1, max_size=30))
    hyp_run(ctx, "outside", strat, lambda x: one(x[0][0], x[0][1], x[1]), n)


def leave_case(loop, case: dict) -> bool:
    """
    One listener leaves the endpoint (what ``Overlay.unload`` does first) from inside its own handling of a datagram; that
    datagram and the next one must still reach every other listener registered for the prefix, once, and the catch-all
    listener. Returns whether another listener shares the prefix.
    """
    m = Mux(loop, case["node"])
    leaver = m.overlays[case["leave"] % len(m.overlays)]
    prefix = leaver.get_prefix()
    src = tuple(case["src"])
    inner = leaver.on_packet
    state = {"left": False}

    def leaving(packet, *a, **kw):
        try:
            return inner(packet, *a, **kw)
        finally:
            if not state["left"]:
                state["left"] = True
                m.endpoint.remove_listener(leaver)
    leaver.on_packet = leaving
    data = prefix + bytes([case["msg"]]) + bytes(case["body"])
    m.judge(src, data, case)
    others = [l for l in m.prefixes.get(prefix, []) if l is not leaver]
    if state["left"]:
        m.prefixes[prefix] = others
        m.trace["on_packet"].clear()
        m.judge(src, data, case)
    return bool(others) and state["left"]


def _leave_shard(ctx: Ctx, shard: int, nshards: int, thorough: bool) -> None:
    async def main(loop):
        k = 0
        for kind in ("sim", "udp4", "udp6", "stats", "disp"):
            for leave in range(9):
                for msg in (254,) if not thorough else (254, 250, 245, 1, 2, 7, 42):
                    for body in (b"\x00" * 30,) if not thorough else (b"", b"\x00" * 30, b"\xff" * 200):
                        k += 1
                        if k % nshards != shard:
                            continue
                        src = SOURCES6[0] if kind == "udp6" else SOURCES[0]
                        case = {"node": kind, "src": list(src), "leave": leave, "msg": msg, "body": body}
                        try:
                            nt = leave_case(loop, case)
                        except Violation as v:
                            ctx.violation(v)
                            nt = True
                        ctx.case((kind, leave, msg, len(body)), nt, cls="listener_leaves_during_delivery")
    vloop.run(main)


def run(ctx: Ctx) -> None:
    shard_run(ctx, _node_shard, extra=(not ctx.quick,))
    shard_run(ctx, _leave_shard, extra=(not ctx.quick,))
    shard_run(ctx, _outside_shard, extra=(6 if ctx.quick else 300,))
    shard_run(ctx, _hyp_node_shard, extra=(150 if ctx.quick else 5000,))
    try:
        from .. import c03_decode  # noqa: F401
        have_decode = True
    except ImportError:
        have_decode = False
        ctx.inconclusive.append("decode-level module pv.c03_decode missing")
    if have_decode:
        shard_run(ctx, _decode_shard, extra=(not ctx.quick,))
    if not ctx.quick:
        _atheris(ctx, 240, 16)


def replay(ctx: Ctx, case: dict) -> None:
    if "decode" in case:
        from .. import c03_decode
        c03_decode.replay_decode(case)
        return

    if "outside" in case:
        from ..tunnelsim import World
        o = case["outside"]

        async def omain(loop):
            loop.transport_escaped = []
            w = World(loop, 2, flags=lambda i: set(o["flags"]) if i == 1 else {1, 2, 4})
            try:
                ek = w.nodes[1].key.pub().key_to_bin()
                exit_peer = [p for p in w.nodes[0].overlay.candidates if p.public_key.key_to_bin() == ek][0]
                c = await w.build_circuit(w.nodes[0], 1, seed=3, required_exit=exit_peer)
                w.nodes[0].overlay.send_data(c.hop.address, c.circuit_id, ("5.5.5.5", 5555), ("0.0.0.0", 0),
                                             b"d1:ad2:id20:abcdefghij0123456789e1:q4:ping1:t2:aa1:y1:qe")
                await asyncio.sleep(0.3)
                trs = [t for t in loop.transports if t.local_addr[0] == o["via"] and not t.closed]
                src = ("7.7.7.7", 7777) if o["via"] == "0.0.0.0" else ("2001:db8::7", 7777, 0, 0)
                if trs:
                    trs[0].inject(bytes.fromhex(o["hex"]), src)
                if loop.transport_escaped:
                    e = loop.transport_escaped[0][3]
                    raise Violation("N1", "exception:outside_socket:" + type(e).__name__, f"{type(e).__name__}: {e}", case)
            finally:
                await w.close()
        vloop.run(omain)
        return

    if "leave" in case:
        async def lmain(loop):
            leave_case(loop, case)
        vloop.run(lmain)
        return

    async def main(loop):
        m = Mux(loop, case["node"])
        try:
            data = case.get("data")
            if "fuzz" in case:
                raw = case["fuzz"]
                prefixes = sorted(m.prefixes)
                sel = raw[0] if raw else 255
                data = (prefixes[sel % len(prefixes)] if sel < 200 else b"") + raw[1:]
            if "direct" in case:
                judge_direct(m, case["direct"], tuple(case["src"]), data, case)
            else:
                m.judge(tuple(case["src"]), data, case)
        finally:
            for ov in m.overlays:
                try:
                    await ov.unload()
                except BaseException:  # noqa: BLE001
                    pass
    vloop.run(main)
